/-
  PreludeSound.lean  --  soundness of the "sequence prelude" of engine P (pyvc) for Python lists.

  The verification-condition generator in /verif/pyvc models Python lists as an uninterpreted sort with
  uninterpreted function symbols and triggered first-order axioms (pyvc/theory.py, `SeqTh.axioms`; a few more
  laws in pyvc/comps.py and contracts/base_carver.py).  This file interprets every symbol as an operation on
  Lean's `List α` and PROVES every axiom as a theorem (no proof is omitted, nothing is postulated): the axioms
  therefore have a model in which sequences are finite lists and the operations are the Python list operations, i.e.
  the prelude is sound for Python lists.

  Correspondence  (Python operation  ->  prelude symbol  ->  Lean term)

    len(s)                 Len(s)          s.length
    s[i]   (0 <= i < len)  At(s, i)        At s i          (:= s.getD i default;  = s[i] whenever i < s.length,
                                                            lemma `At_eq_getElem`)
    s + t                  App(s, t)       s ++ t
    [x]                    One(x)          [x]
    []                     Emp             []
    s[:n]                  Take(s, n)      s.take n
    s[n:]                  Drop(s, n)      s.drop n
    s[a:b]                 Slice(s, a, b)  Slice s a b     (:= (s.drop a).take (b - a))
    x in s                 Has(s, x)       x ∈ s
    s.index(x)             Idx(s, x)       List.idxOf x s  (first occurrence; = s.length when absent)
    s[i] = x               Upd(s, i, x)    s.set i x
    s.remove(x)            Rm(s, x)        s.erase x       (first occurrence; needs DecidableEq)
    s is a prefix of t     Prefix(s, t)    s <+: t         (List.IsPrefix)
    len(set(s)) == len(s)  Nodup(s)        s.Nodup
    no common element      Disj(s, t)      s.Disjoint t
    [x] * n                Rep(x, n)       List.replicate n x
    sorted(s) == sorted(t) Perm(s, t)      s.Perm t
    pointwise equal        Ext(s, t)       Ext s t         (:= same length and same element at every index)
    list(dict.fromkeys(s)) Dedup(s)        s.dedup  (keeps LAST occurrences)  and  dedupFirst s  (keeps FIRST
                                           occurrences, as Python does); the stated laws are proved for both
    [v for k in d          AllVals(d)      AllVals keys get  (:= (keys.map get).flatten, `keys` the key list of the
       for v in d[k]]                                         dict in insertion order, `get` its lookup function)
    [x for x in s if p(x)]                 s.filter p
    [f(x) for x in s]                      s.map f
    [f(x) for x in s if p(x)]              s.filterMap (fun x => if p x then some (f x) else none)  = (s.filter p).map f

  Integers.  The prelude works over z3 `Int`; every axiom guards its index/length variables with `0 <= i`
  (and an upper bound).  The file has two parts:
    * namespace `PreludeSound`          : every law stated over `Nat` (= "an Int with 0 <= i", so that guard
      disappears).  Where an axiom subtracts (`Len(s) - n`, `b - a`, `n - Len(s)`, `Len(s) - 1`) its hypotheses
      make truncated `Nat` subtraction and `Int` subtraction agree; this is remarked at the theorem.
    * namespace `PreludeSound.IntModel` : the symbols with integer arguments/results are interpreted over `Int`
      (`Len s : Int`, `AtI s (i : Int)`, `Take s (n : Int)`, ...) and every axiom mentioning an integer is
      re-proved VERBATIM (with its `0 <= i` guards and `Int` arithmetic) from its `Nat` counterpart.  So the
      remark above is machine-checked, not left to the reader.

  Skolem functions.  Axioms of the shape `P(s) \/ (... W(s) ...)` with a prelude function `W` (W1, W2, DW, EqW,
  OwnerOf, ndA, ndB, ndV, the comprehension witnesses cw_/fwk_) are Skolemised existentials.  The theorem
  proved here is the existential statement `P s ∨ ∃ w, ...`; a function W satisfying the axiom then exists by
  choice, which is all that the soundness of a Skolem axiom needs.

  Each theorem is preceded by the prelude axiom it mirrors (the essential formula of the Python line).
  Compile:  /verif/lean/check.sh      (plain `lean /verif/lean/PreludeSound.lean`; Mathlib is on the search path)
-/
import Mathlib

set_option linter.unusedSectionVars false
set_option linter.unusedVariables false

namespace PreludeSound
open List

variable {α : Type*} [Inhabited α]

/-! ## Interpretation of the symbols that are not literally a `List` function -/

/-- `At(s, i)` : Python `s[i]`.  Total (default outside the bounds); every axiom uses it within bounds. -/
def At (s : List α) (i : Nat) : α := s.getD i default

/-- `Slice(s, a, b)` : Python `s[a:b]` for `0 <= a <= b <= len(s)`. -/
def Slice (s : List α) (a b : Nat) : List α := (s.drop a).take (b - a)

/-- `Ext(s, t)` : same length and same element at every index. -/
def Ext (s t : List α) : Prop := s.length = t.length ∧ ∀ i, i < s.length → At s i = At t i

/-- Within bounds `At` is the ordinary (proof-carrying) list indexing of Lean. -/
theorem At_eq_getElem {s : List α} {i : Nat} (h : i < s.length) : At s i = s[i] := by
  simp [At, h]

@[simp] theorem At_cons_zero (x : α) (s : List α) : At (x :: s) 0 = x := by simp [At]

@[simp] theorem At_cons_succ (x : α) (s : List α) (i : Nat) : At (x :: s) (i + 1) = At s i := by
  simp [At]

variable [DecidableEq α]

/-! ## pyvc/theory.py : length / indexing -/

-- ax([s], Len(s) >= 0)
theorem len_nonneg (s : List α) : (0 : Int) ≤ (s.length : Int) := Int.natCast_nonneg _

-- Len(Emp) == 0
theorem len_nil : ([] : List α).length = 0 := rfl

-- ax([s], Len(s) == 0  ->  s == Emp)
theorem len_zero_nil (s : List α) : s.length = 0 → s = [] := List.eq_nil_of_length_eq_zero

-- ax([x], Len(One(x)) == 1  /\  At(One(x), 0) == x)
theorem one_len_at (x : α) : [x].length = 1 ∧ At [x] 0 = x := by simp

-- ax([s, t], Len(App(s, t)) == Len(s) + Len(t))
theorem len_append (s t : List α) : (s ++ t).length = s.length + t.length := List.length_append

-- ax([s, t, n], (0 <= n < Len(s)  ->  At(App(s, t), n) == At(s, n))
--            /\ (Len(s) <= n < Len(s) + Len(t)  ->  At(App(s, t), n) == At(t, n - Len(s))))
-- (Len(s) <= n, so n - Len(s) is the same in Nat and Int)
theorem at_append (s t : List α) (n : Nat) :
    (n < s.length → At (s ++ t) n = At s n) ∧
    (s.length ≤ n → n < s.length + t.length → At (s ++ t) n = At t (n - s.length)) := by
  constructor
  · intro h
    simp [At, List.getElem?_append_left h]
  · intro h _
    simp [At, List.getElem?_append_right h]

-- ax([s], App(s, Emp) == s)
theorem append_nil (s : List α) : s ++ [] = s := List.append_nil s

-- ax([s], App(Emp, s) == s)
theorem nil_append (s : List α) : [] ++ s = s := List.nil_append s

-- ax([s, t, u], App(App(s, t), u) == App(s, App(t, u)))
theorem append_assoc (s t u : List α) : (s ++ t) ++ u = s ++ (t ++ u) := List.append_assoc s t u

/-! ## membership / index -/

-- ax([s, x], Has(s, x)  ->  0 <= Idx(s, x) < Len(s)  /\  At(s, Idx(s, x)) == x)
theorem has_idx (s : List α) (x : α) :
    x ∈ s → idxOf x s < s.length ∧ At s (idxOf x s) = x := by
  intro h
  have h' : idxOf x s < s.length := List.idxOf_lt_length_of_mem h
  exact ⟨h', by rw [At_eq_getElem h']; exact List.getElem_idxOf h'⟩

-- ax([s, x, j], 0 <= j < Idx(s, x)  /\  Has(s, x)  ->  At(s, j) != x)
theorem idx_first (s : List α) (x : α) (j : Nat) :
    j < idxOf x s → x ∈ s → At s j ≠ x := by
  induction s generalizing j with
  | nil => simp
  | cons y ys ih =>
    intro hj hx
    by_cases hy : y = x
    · subst hy; simp at hj
    · rw [List.idxOf_cons_ne _ hy] at hj
      cases j with
      | zero => simpa using hy
      | succ j =>
        simp only [At_cons_succ]
        exact ih j (by omega) (by simpa [Ne.symm hy] using hx)

-- ax([s, i], 0 <= i < Len(s)  ->  Has(s, At(s, i)))
theorem at_has (s : List α) (i : Nat) : i < s.length → At s i ∈ s := by
  intro h; rw [At_eq_getElem h]; exact List.getElem_mem h

-- ax([x], Not(Has(Emp, x)))
theorem has_nil (x : α) : x ∉ ([] : List α) := List.not_mem_nil

-- ax([x, y], Has(One(x), y) == (x == y))
theorem has_one (x y : α) : y ∈ [x] ↔ x = y := by simp [eq_comm]

-- ax([s, t, x], Has(App(s, t), x) == (Has(s, x) \/ Has(t, x)))
theorem has_append (s t : List α) (x : α) : x ∈ s ++ t ↔ x ∈ s ∨ x ∈ t := List.mem_append

-- ax([s, t, x], Has(s, x)  ->  Idx(App(s, t), x) == Idx(s, x))
theorem idx_append_left (s t : List α) (x : α) : x ∈ s → idxOf x (s ++ t) = idxOf x s :=
  List.idxOf_append_of_mem

-- ax([s, t, x], Not(Has(s, x)) /\ Has(t, x)  ->  Idx(App(s, t), x) == Len(s) + Idx(t, x))
theorem idx_append_right (s t : List α) (x : α) :
    x ∉ s → x ∈ t → idxOf x (s ++ t) = s.length + idxOf x t := by
  intro h _; exact List.idxOf_append_of_notMem h

-- ax([x], Idx(One(x), x) == 0)
theorem idx_one (x : α) : idxOf x [x] = 0 := by simp

/-! ## take / drop / slice -/

-- ax([s, n], 0 <= n <= Len(s)  ->  Len(Take(s, n)) == n)
theorem len_take (s : List α) (n : Nat) : n ≤ s.length → (s.take n).length = n := by
  intro h; simp [h]

-- ax([s, n, j], 0 <= j < n  /\  n <= Len(s)  ->  At(Take(s, n), j) == At(s, j))
theorem at_take (s : List α) (n j : Nat) :
    j < n → n ≤ s.length → At (s.take n) j = At s j := by
  intro h1 h2
  rw [At_eq_getElem (by simp; omega), At_eq_getElem (by omega)]
  simp

-- ax([s, n], 0 <= n <= Len(s)  ->  Len(Drop(s, n)) == Len(s) - n)          (n <= Len(s): Nat/Int subtraction agree)
theorem len_drop (s : List α) (n : Nat) : n ≤ s.length → (s.drop n).length = s.length - n := by
  intro _; simp

-- ax([s, n, j], 0 <= n  /\  0 <= j < Len(s) - n  ->  At(Drop(s, n), j) == At(s, j + n))
-- (if n > Len(s) the hypothesis 0 <= j < Len(s) - n is false over Int, and j < 0 is false over Nat)
theorem at_drop (s : List α) (n j : Nat) :
    j < s.length - n → At (s.drop n) j = At s (j + n) := by
  intro h
  rw [At_eq_getElem (by simp; omega), At_eq_getElem (by omega)]
  simp [Nat.add_comm]

-- ax([s], Drop(s, 0) == s)
theorem drop_zero (s : List α) : s.drop 0 = s := List.drop_zero

-- ax([s, n], n == Len(s)  ->  Take(s, n) == s)
theorem take_len (s : List α) (n : Nat) : n = s.length → s.take n = s := by
  intro h; subst h; exact List.take_length

-- ax([s, n], n == Len(s)  ->  Drop(s, n) == Emp)
theorem drop_len (s : List α) (n : Nat) : n = s.length → s.drop n = [] := by
  intro h; subst h; exact List.drop_length

-- ax([s], Take(s, 0) == Emp)
theorem take_zero (s : List α) : s.take 0 = [] := List.take_zero

-- ax([s, n, x], 0 <= n <= Len(s)  /\  Has(Take(s, n), x)  ->  Has(s, x))
theorem has_take (s : List α) (n : Nat) (x : α) : n ≤ s.length → x ∈ s.take n → x ∈ s :=
  fun _ h => List.mem_of_mem_take h

-- ax([s, n, j], 0 <= j < n <= Len(s)  ->  Has(Take(s, n), At(s, j)))
theorem has_take_at (s : List α) (n j : Nat) : j < n → n ≤ s.length → At s j ∈ s.take n := by
  intro h1 h2
  have hl : j < (s.take n).length := by simp; omega
  have e : At (s.take n) j = At s j := at_take s n j h1 h2
  rw [← e]; exact at_has (s.take n) j hl

-- ax([s, n, x], 0 <= n <= Len(s)  /\  Has(Drop(s, n), x)  ->  Has(s, x))
theorem has_drop (s : List α) (n : Nat) (x : α) : n ≤ s.length → x ∈ s.drop n → x ∈ s :=
  fun _ h => List.mem_of_mem_drop h

-- ax([s, n], 0 <= n <= Len(s)  ->  App(Take(s, n), Drop(s, n)) == s)
theorem take_append_drop (s : List α) (n : Nat) : n ≤ s.length → s.take n ++ s.drop n = s :=
  fun _ => List.take_append_drop n s

-- ax([s, n], 0 <= n < Len(s)  ->  App(Take(s, n), One(At(s, n))) == Take(s, n + 1))
theorem take_succ (s : List α) (n : Nat) :
    n < s.length → s.take n ++ [At s n] = s.take (n + 1) := by
  intro h
  rw [At_eq_getElem h]; exact List.take_append_getElem h

-- ax([s, n], Nodup(s)  /\  0 <= n < Len(s)  ->  Not(Has(Take(s, n), At(s, n))))
theorem nodup_not_mem_take (s : List α) (n : Nat) :
    s.Nodup → n < s.length → At s n ∉ s.take n := by
  intro hnd h hmem
  rw [At_eq_getElem h] at hmem
  obtain ⟨i, hi, heq⟩ := List.mem_iff_getElem.mp hmem
  simp at hi
  rw [List.getElem_take] at heq
  have := (List.Nodup.getElem_inj_iff hnd).mp heq
  omega

-- ax([s, m, n, x], m == n + 1  /\  0 <= n < Len(s)  ->  Has(Take(s, m), x) == (Has(Take(s, n), x) \/ x == At(s, n)))
theorem has_take_succ (s : List α) (m n : Nat) (x : α) :
    m = n + 1 → n < s.length → (x ∈ s.take m ↔ x ∈ s.take n ∨ x = At s n) := by
  intro hm h; subst hm
  rw [← take_succ s n h]; simp

-- ax([s, a, b], 0 <= a <= b <= Len(s)  ->  Len(Slice(s, a, b)) == b - a)        (a <= b: Nat/Int subtraction agree)
theorem len_slice (s : List α) (a b : Nat) :
    a ≤ b → b ≤ s.length → (Slice s a b).length = b - a := by
  intro h1 h2; simp [Slice]; omega

-- ax([s, a, b, j], 0 <= a <= b <= Len(s)  /\  0 <= j < b - a  ->  At(Slice(s, a, b), j) == At(s, a + j))
theorem at_slice (s : List α) (a b j : Nat) :
    a ≤ b → b ≤ s.length → j < b - a → At (Slice s a b) j = At s (a + j) := by
  intro h1 h2 h3
  unfold Slice
  rw [at_take _ _ _ h3 (by simp; omega), at_drop _ _ _ (by omega), Nat.add_comm]

-- ax([s, a, b], 0 <= a <= b <= Len(s)  ->  App(Take(s, a), Slice(s, a, b)) == Take(s, b))
theorem take_append_slice (s : List α) (a b : Nat) :
    a ≤ b → b ≤ s.length → s.take a ++ Slice s a b = s.take b := by
  intro h1 h2
  unfold Slice
  obtain ⟨k, rfl⟩ := Nat.exists_eq_add_of_le h1
  simp [List.take_add]

-- ax([s, a, b, x], 0 <= a <= b <= Len(s)  /\  Has(Slice(s, a, b), x)  ->  Has(s, x))
theorem has_slice (s : List α) (a b : Nat) (x : α) :
    a ≤ b → b ≤ s.length → x ∈ Slice s a b → x ∈ s :=
  fun _ _ h => List.mem_of_mem_drop (List.mem_of_mem_take h)

-- ax([s, b], 0 <= b <= Len(s)  ->  Slice(s, 0, b) == Take(s, b))
theorem slice_zero (s : List α) (b : Nat) : b ≤ s.length → Slice s 0 b = s.take b := by
  intro _; simp [Slice]

-- ax([s, a, b], 0 <= a <= b  /\  b == Len(s)  ->  Slice(s, a, b) == Drop(s, a))
theorem slice_to_len (s : List α) (a b : Nat) :
    a ≤ b → b = s.length → Slice s a b = s.drop a := by
  intro _ h2; subst h2; simp [Slice]

/-! ## prefix -/

-- ax([s, t], Prefix(s, t)  ->  Len(s) <= Len(t))
theorem prefix_len (s t : List α) : s <+: t → s.length ≤ t.length := List.IsPrefix.length_le

-- ax([s, t, j], Prefix(s, t)  /\  0 <= j < Len(s)  ->  At(t, j) == At(s, j))
theorem prefix_at (s t : List α) (j : Nat) : s <+: t → j < s.length → At t j = At s j := by
  intro h hj
  obtain ⟨u, rfl⟩ := h
  exact (at_append s u j).1 hj

-- ax([s, t], Prefix(s, App(s, t)))
theorem prefix_append (s t : List α) : s <+: s ++ t := List.prefix_append s t

-- ax([s], Prefix(s, s))
theorem prefix_refl (s : List α) : s <+: s := List.prefix_refl s

-- ax([s, t, u], Prefix(s, t)  /\  Prefix(t, u)  ->  Prefix(s, u))
theorem prefix_trans (s t u : List α) : s <+: t ∧ t <+: u → s <+: u := fun h => h.1.trans h.2

-- ax([s, t, x], Prefix(s, t)  /\  Has(s, x)  ->  Has(t, x))
theorem prefix_has (s t : List α) (x : α) : s <+: t ∧ x ∈ s → x ∈ t := fun h => h.1.subset h.2

/-! ## update  (s[i] = x) -/

-- ax([s, i, x], 0 <= i < Len(s)  ->  Len(Upd(s, i, x)) == Len(s))
theorem len_set (s : List α) (i : Nat) (x : α) : i < s.length → (s.set i x).length = s.length :=
  fun _ => List.length_set

-- ax([s, i, x, j], 0 <= i < Len(s)  /\  0 <= j < Len(s)  ->  At(Upd(s, i, x), j) == If(i == j, x, At(s, j)))
theorem at_set (s : List α) (i j : Nat) (x : α) :
    i < s.length → j < s.length → At (s.set i x) j = if i = j then x else At s j := by
  intro _ hj
  rw [At_eq_getElem (by simpa using hj), At_eq_getElem hj, List.getElem_set]

-- ax([s, i, x, y], 0 <= i < Len(s)  /\  Has(Upd(s, i, x), y)  ->  y == x  \/  Has(s, y))
theorem has_set (s : List α) (i : Nat) (x y : α) :
    i < s.length → y ∈ s.set i x → y = x ∨ y ∈ s := by
  intro _ h
  rcases List.mem_or_eq_of_mem_set h with h | h
  · exact Or.inr h
  · exact Or.inl h

-- ax([s, i, x], 0 <= i < Len(s)  ->  Has(Upd(s, i, x), x))
theorem has_set_self (s : List α) (i : Nat) (x : α) : i < s.length → x ∈ s.set i x :=
  fun h => List.mem_set h x

-- ax([s, i, x, y], 0 <= i < Len(s)  /\  Has(s, y)  /\  y != At(s, i)  ->  Has(Upd(s, i, x), y))
theorem has_set_other (s : List α) (i : Nat) (x y : α) :
    i < s.length → y ∈ s → y ≠ At s i → y ∈ s.set i x := by
  intro hi hy hne
  obtain ⟨k, hk, rfl⟩ := List.mem_iff_getElem.mp hy
  have hik : i ≠ k := by
    rintro rfl; exact hne (At_eq_getElem hi).symm
  refine List.mem_iff_getElem.mpr ⟨k, by simpa using hk, ?_⟩
  rw [List.getElem_set]; simp [hik]

/-! ## remove first occurrence  (list.remove) -/

-- ax([s, x], Has(s, x)  ->  Len(Rm(s, x)) == Len(s) - 1)                  (Has(s, x) gives Len(s) >= 1)
theorem len_erase (s : List α) (x : α) : x ∈ s → (s.erase x).length = s.length - 1 :=
  fun h => List.length_erase_of_mem h

-- ax([s, x], Has(s, x)  ->  Rm(s, x) == App(Take(s, Idx(s, x)), Drop(s, Idx(s, x) + 1)))
theorem erase_eq_take_drop (s : List α) (x : α) :
    x ∈ s → s.erase x = s.take (idxOf x s) ++ s.drop (idxOf x s + 1) := by
  intro _
  rw [← List.eraseIdx_idxOf_eq_erase, List.eraseIdx_eq_take_drop_succ]

-- ax([s, x, j], Has(s, x)  /\  0 <= j < Len(s) - 1  ->  At(Rm(s, x), j) == If(j < Idx(s, x), At(s, j), At(s, j + 1)))
theorem at_erase (s : List α) (x : α) (j : Nat) :
    x ∈ s → j < s.length - 1 →
      At (s.erase x) j = if j < idxOf x s then At s j else At s (j + 1) := by
  intro hx hj
  have hi : idxOf x s < s.length := List.idxOf_lt_length_of_mem hx
  rw [erase_eq_take_drop s x hx]
  split_ifs with h
  · rw [(at_append _ _ j).1 (by simp; omega)]
    rw [At_eq_getElem (by simp; omega), At_eq_getElem (by omega)]; simp
  · rw [(at_append _ _ j).2 (by simp; omega) (by simp; omega)]
    rw [At_eq_getElem (by simp; omega), At_eq_getElem (by omega)]
    simp
    congr 1; omega

-- ax([s, x, y], Has(Rm(s, x), y)  ->  Has(s, y))
theorem has_erase_sub (s : List α) (x y : α) : y ∈ s.erase x → y ∈ s := List.mem_of_mem_erase

-- ax([s, x, y], Has(s, y)  /\  y != x  ->  Has(Rm(s, x), y))
theorem has_erase_ne (s : List α) (x y : α) : y ∈ s → y ≠ x → y ∈ s.erase x :=
  fun h hne => (List.mem_erase_of_ne hne).mpr h

-- ax([s, x], Nodup(s)  /\  Has(s, x)  ->  Nodup(Rm(s, x))  /\  Not(Has(Rm(s, x), x)))
theorem nodup_erase (s : List α) (x : α) :
    s.Nodup → x ∈ s → (s.erase x).Nodup ∧ x ∉ s.erase x :=
  fun h _ => ⟨h.erase x, h.not_mem_erase⟩

-- ax([s, x], Rm(App(s, One(x)), x) == If(Has(s, x), App(Rm(s, x), One(x)), s))
theorem erase_append_one (s : List α) (x : α) :
    (s ++ [x]).erase x = if x ∈ s then s.erase x ++ [x] else s := by
  split_ifs with h
  · exact List.erase_append_left _ h
  · rw [List.erase_append_right _ h]; simp

/-! ## no duplicates / disjointness -/

-- ax([s, i, j], Nodup(s)  /\  0 <= i < j < Len(s)  ->  At(s, i) != At(s, j))
theorem nodup_at (s : List α) (i j : Nat) :
    s.Nodup → i < j → j < s.length → At s i ≠ At s j := by
  intro hnd hij hj heq
  rw [At_eq_getElem (by omega), At_eq_getElem hj] at heq
  have := (List.Nodup.getElem_inj_iff hnd).mp heq
  omega

-- ax([s], Nodup(s)  \/  (0 <= W1(s) < W2(s) < Len(s)  /\  At(s, W1(s)) == At(s, W2(s))))         (W1, W2 Skolem)
theorem nodup_witness (s : List α) :
    s.Nodup ∨ ∃ w1 w2 : Nat, w1 < w2 ∧ w2 < s.length ∧ At s w1 = At s w2 := by
  by_cases h : s.Nodup
  · exact Or.inl h
  · right
    rw [List.nodup_iff_injective_get] at h
    simp only [Function.Injective, not_forall] at h
    obtain ⟨a, b, hab, hne⟩ := h
    rcases lt_or_gt_of_ne (fun h => hne (Fin.ext h) : a.val ≠ b.val) with hlt | hlt
    · exact ⟨a, b, hlt, b.isLt, by rw [At_eq_getElem a.isLt, At_eq_getElem b.isLt]; simpa using hab⟩
    · exact ⟨b, a, hlt, a.isLt, by rw [At_eq_getElem a.isLt, At_eq_getElem b.isLt]; simpa using hab.symm⟩

-- Nodup(Emp)
theorem nodup_nil : ([] : List α).Nodup := List.nodup_nil

-- ax([x], Nodup(One(x)))
theorem nodup_one (x : α) : [x].Nodup := List.nodup_singleton x

-- ax([s, t], Nodup(App(s, t)) == (Nodup(s)  /\  Nodup(t)  /\  Disj(s, t)))
theorem nodup_append (s t : List α) :
    (s ++ t).Nodup ↔ s.Nodup ∧ t.Nodup ∧ s.Disjoint t := List.nodup_append'

-- ax([s, t, x], Disj(s, t)  /\  Has(s, x)  ->  Not(Has(t, x)))
theorem disj_left (s t : List α) (x : α) : s.Disjoint t ∧ x ∈ s → x ∉ t :=
  fun h ht => h.1 h.2 ht

-- ax([s, t, x], Disj(s, t)  /\  Has(t, x)  ->  Not(Has(s, x)))
theorem disj_right (s t : List α) (x : α) : s.Disjoint t ∧ x ∈ t → x ∉ s :=
  fun h hs => h.1 hs h.2

-- ax([s, t], Disj(s, t)  \/  (Has(s, DW(s, t))  /\  Has(t, DW(s, t))))                            (DW Skolem)
theorem disj_witness (s t : List α) : s.Disjoint t ∨ ∃ w, w ∈ s ∧ w ∈ t := by
  by_cases h : s.Disjoint t
  · exact Or.inl h
  · right
    simp only [List.Disjoint, not_forall] at h
    obtain ⟨w, hs, ht, _⟩ := h
    exact ⟨w, hs, ht⟩

-- ax([s, n], Nodup(s)  /\  0 <= n <= Len(s)  ->  Nodup(Take(s, n))  /\  Nodup(Drop(s, n))  /\  Disj(Take(s, n), Drop(s, n)))
theorem nodup_take_drop (s : List α) (n : Nat) :
    s.Nodup → n ≤ s.length →
      (s.take n).Nodup ∧ (s.drop n).Nodup ∧ (s.take n).Disjoint (s.drop n) := by
  intro h _
  rw [← List.take_append_drop n s] at h
  exact (nodup_append _ _).mp h

-- ax([s, x, i], Nodup(s)  /\  0 <= i < Len(s)  /\  At(s, i) == x  ->  Idx(s, x) == i)
theorem nodup_idx (s : List α) (x : α) (i : Nat) :
    s.Nodup → i < s.length → At s i = x → idxOf x s = i := by
  intro hnd hi heq
  rw [At_eq_getElem hi] at heq
  subst heq
  exact List.Nodup.idxOf_getElem hnd i hi

-- ax([s, i, x], Nodup(s)  /\  0 <= i < Len(s)  /\  Not(Has(s, x))  ->  Nodup(Upd(s, i, x)))
theorem nodup_set_fresh (s : List α) (i : Nat) (x : α) :
    s.Nodup → i < s.length → x ∉ s → (s.set i x).Nodup := by
  intro hnd hi hx
  rw [List.set_eq_take_append_cons_drop, if_pos hi]
  have h3 := nodup_take_drop s i hnd (le_of_lt hi)
  have hd : s.drop i = s[i] :: s.drop (i + 1) := List.drop_eq_getElem_cons hi
  rw [hd] at h3
  obtain ⟨h1, h2, h4⟩ := h3
  rw [List.nodup_append']
  refine ⟨h1, ?_, ?_⟩
  · rw [List.nodup_cons] at h2 ⊢
    exact ⟨fun hm => hx (List.mem_of_mem_drop hm), h2.2⟩
  · intro a ha hb
    rcases List.mem_cons.mp hb with rfl | hb
    · exact hx (List.mem_of_mem_take ha)
    · exact h4 ha (List.mem_cons_of_mem _ hb)

-- ax([s, i, x, y], Nodup(s)  /\  0 <= i < Len(s)  /\  y == At(s, i)  /\  y != x  ->  Not(Has(Upd(s, i, x), y)))
theorem nodup_set_removed (s : List α) (i : Nat) (x y : α) :
    s.Nodup → i < s.length → y = At s i → y ≠ x → y ∉ s.set i x := by
  intro hnd hi hy hne hmem
  rw [At_eq_getElem hi] at hy
  obtain ⟨k, hk, hk2⟩ := List.mem_iff_getElem.mp hmem
  have hk' : k < s.length := by simpa using hk
  rw [List.getElem_set] at hk2
  split_ifs at hk2 with h
  · exact hne hk2.symm
  · rw [hy] at hk2
    exact h ((List.Nodup.getElem_inj_iff hnd).mp hk2).symm

/-! ## repetition  ([x] * n) -/

-- ax([x, n], n >= 0  ->  Len(Rep(x, n)) == n)
theorem len_rep (x : α) (n : Nat) : (List.replicate n x).length = n := List.length_replicate

-- ax([x, n, j], 0 <= j < n  ->  At(Rep(x, n), j) == x)
theorem at_rep (x : α) (n j : Nat) : j < n → At (List.replicate n x) j = x := by
  intro h; rw [At_eq_getElem (by simpa using h)]; simp

/-! ## extensional equality -/

-- ax([s, t], Ext(s, t)  \/  Len(s) != Len(t)  \/  (0 <= EqW(s, t) < Len(s)  /\  At(s, EqW(s, t)) != At(t, EqW(s, t))))    (EqW Skolem)
theorem ext_witness (s t : List α) :
    Ext s t ∨ s.length ≠ t.length ∨ ∃ w : Nat, w < s.length ∧ At s w ≠ At t w := by
  by_cases hl : s.length = t.length
  · by_cases h : ∀ i, i < s.length → At s i = At t i
    · exact Or.inl ⟨hl, h⟩
    · obtain ⟨w, hw⟩ := not_forall.mp h
      exact Or.inr (Or.inr ⟨w, Classical.not_imp.mp hw⟩)
  · exact Or.inr (Or.inl hl)

-- ax([s, t], Ext(s, t)  ->  s == t)
theorem ext_eq (s t : List α) : Ext s t → s = t := by
  rintro ⟨hl, h⟩
  apply List.ext_getElem hl
  intro i h1 h2
  have := h i h1
  rwa [At_eq_getElem h1, At_eq_getElem h2] at this

/-! ## permutation -/

-- ax([s, t, x], Perm(s, t)  ->  Has(s, x) == Has(t, x))
theorem perm_has (s t : List α) (x : α) : s.Perm t → (x ∈ s ↔ x ∈ t) := fun h => h.mem_iff

-- ax([s, t], Perm(s, t)  ->  Len(s) == Len(t)  /\  Nodup(s) == Nodup(t))
theorem perm_len_nodup (s t : List α) : s.Perm t → s.length = t.length ∧ (s.Nodup ↔ t.Nodup) :=
  fun h => ⟨h.length_eq, h.nodup_iff⟩

-- ax([s], Perm(s, s))
theorem perm_refl (s : List α) : s.Perm s := List.Perm.refl s

/-! ## pyvc/comps.py : `dict_allvals`   (AllVals(d) = concatenation of the groups d[k] in key order)

`keys : List κ` is the key list of the dict (`t.keys(d)`), `a ∈ keys` is `t.has(d, a)`, `get a` is `t.get(d, a)`. -/

section Comps
variable {κ : Type*} {β : Type*} [Inhabited β]

/-- `AllVals(d)` : `[v for k in d for v in d[k]]`. -/
def AllVals (keys : List κ) (get : κ → List α) : List α := (keys.map get).flatten

-- Has(AllVals(d), v)  ->  has(d, Own(d, v))  /\  Has(get(d, Own(d, v)), v)         (->, Own Skolem)
-- has(d, a)  /\  Has(get(d, a), v)  ->  Has(AllVals(d), v)                          (<-)
theorem mem_flatten_iff (keys : List κ) (get : κ → List α) (v : α) :
    v ∈ AllVals keys get ↔ ∃ a, a ∈ keys ∧ v ∈ get a := by
  simp [AllVals, List.mem_flatten]

-- Nodup(AllVals(d))  /\  has(d, a)  ->  Nodup(get(d, a))                             -- nodup_flatten (group)
theorem nodup_flatten_group (keys : List κ) (get : κ → List α) (a : κ) :
    (AllVals keys get).Nodup → a ∈ keys → (get a).Nodup := by
  intro h ha
  exact (List.nodup_flatten.mp h).1 _ (List.mem_map_of_mem ha)

-- Nodup(AllVals(d)) /\ Nodup(keys(d)) /\ has(d, a) /\ has(d, b) /\ a != b /\ Has(get(d, a), v)  ->  Not(Has(get(d, b), v))
--                                                                                     -- nodup_flatten (disjoint)
theorem nodup_flatten_disjoint (keys : List κ) (get : κ → List α) (a b : κ) (v : α) :
    (AllVals keys get).Nodup → keys.Nodup → a ∈ keys → b ∈ keys → a ≠ b → v ∈ get a → v ∉ get b := by
  intro h _ ha hb hab hva hvb
  have hp := (List.nodup_flatten.mp h).2
  rw [List.pairwise_map] at hp
  have : Std.Symm (fun x y : κ => (get x).Disjoint (get y)) := ⟨fun _ _ h => h.symm⟩
  exact hp.forall ha hb hab hva hvb

-- Nodup(AllVals(d))  \/  Not(Nodup(keys(d)))  \/  (has(d, NA) /\ Not(Nodup(get(d, NA))))
--   \/  (has(d, NA) /\ has(d, NB) /\ NA != NB /\ Has(get(d, NA), NV) /\ Has(get(d, NB), NV))      (NA, NB, NV Skolem)
--                                                                                     -- nodup_flatten (converse, witnesses)
theorem nodup_flatten_converse (keys : List κ) (get : κ → List α) :
    (AllVals keys get).Nodup ∨ ¬ keys.Nodup ∨ (∃ a, a ∈ keys ∧ ¬ (get a).Nodup) ∨
      (∃ a b v, a ∈ keys ∧ b ∈ keys ∧ a ≠ b ∧ v ∈ get a ∧ v ∈ get b) := by
  by_contra hcon
  simp only [not_or] at hcon
  obtain ⟨h1, h2, h3, h4⟩ := hcon
  have hk : keys.Nodup := not_not.mp h2
  apply h1
  unfold AllVals
  rw [List.nodup_flatten]
  constructor
  · intro l hl
    obtain ⟨a, ha, rfl⟩ := List.mem_map.mp hl
    by_contra hn
    exact h3 ⟨a, ha, hn⟩
  · rw [List.pairwise_map]
    apply hk.pairwise_of_forall_ne
    intro a ha b hb hab v hva hvb
    exact h4 ⟨a, b, v, ha, hb, hab, hva, hvb⟩

/-! ## pyvc/comps.py : `dedup_fn`

The laws are proved for Mathlib's `List.dedup` (keeps the last occurrence of each element) and for
`dedupFirst` (keeps the first occurrence: the order of `dict.fromkeys(s)` / of the keys of `{x: .. for x in s}`). -/

-- ForAll([s], Nodup(D(s)))
theorem nodup_dedup (s : List α) : s.dedup.Nodup := List.nodup_dedup s

-- ForAll([s, x], Has(D(s), x) == Has(s, x))
theorem mem_dedup (s : List α) (x : α) : x ∈ s.dedup ↔ x ∈ s := List.mem_dedup

-- ForAll([s], Nodup(s)  ->  D(s) == s)
theorem dedup_of_nodup (s : List α) : s.Nodup → s.dedup = s := fun h => h.dedup

-- ForAll([s], Len(D(s)) <= Len(s))
theorem len_dedup_le (s : List α) : s.dedup.length ≤ s.length := (List.dedup_sublist s).length_le

/-- first-occurrence de-duplication (Python's insertion order of dict keys) -/
def dedupFirst (s : List α) : List α := s.reverse.dedup.reverse

-- it really is "append x unless already seen":   acc = [];  for x in s: if x not in acc: acc.append(x)
theorem dedupFirst_nil : dedupFirst ([] : List α) = [] := by simp [dedupFirst]

theorem dedupFirst_append_one (s : List α) (x : α) :
    dedupFirst (s ++ [x]) = if x ∈ dedupFirst s then dedupFirst s else dedupFirst s ++ [x] := by
  unfold dedupFirst
  by_cases h : x ∈ s
  · simp [h, List.dedup_cons_of_mem (List.mem_reverse.mpr h)]
  · simp [h, List.dedup_cons_of_notMem (fun h' => h (List.mem_reverse.mp h'))]

-- ForAll([s], Nodup(D(s)))                                                            (first-occurrence version)
theorem nodup_dedupFirst (s : List α) : (dedupFirst s).Nodup := by
  simp [dedupFirst, List.nodup_dedup]

-- ForAll([s, x], Has(D(s), x) == Has(s, x))                                           (first-occurrence version)
theorem mem_dedupFirst (s : List α) (x : α) : x ∈ dedupFirst s ↔ x ∈ s := by simp [dedupFirst]

-- ForAll([s], Nodup(s)  ->  D(s) == s)                                                (first-occurrence version)
theorem dedupFirst_of_nodup (s : List α) : s.Nodup → dedupFirst s = s := by
  intro h; simp [dedupFirst, (List.nodup_reverse.mpr h).dedup]

-- ForAll([s], Len(D(s)) <= Len(s))                                                    (first-occurrence version)
theorem len_dedupFirst_le (s : List α) : (dedupFirst s).length ≤ s.length := by
  simpa [dedupFirst] using (List.dedup_sublist s.reverse).length_le

/-! ## pyvc/comps.py : list comprehensions over a list `s`  (index range 0 .. Len(s)) -/

-- identity filter  R = [x for x in s if p(x)] :   Nodup(seq)  ->  Nodup(R)
theorem nodup_filter (s : List α) (p : α → Bool) : s.Nodup → (s.filter p).Nodup :=
  fun h => h.filter p

-- filtered comprehension:   Len(R) <= n_src
theorem len_filter_le (s : List α) (p : α → Bool) : (s.filter p).length ≤ s.length :=
  List.length_filter_le p s

-- ForAll([k], rng(k) /\ cnd(k)  ->  Len(R) > 0)
theorem filter_pos_of_mem (s : List α) (p : α → Bool) (k : Nat) :
    k < s.length → p (At s k) = true → 0 < (s.filter p).length := by
  intro hk hp
  rw [At_eq_getElem hk] at hp
  exact List.length_pos_of_mem (List.mem_filter.mpr ⟨List.getElem_mem hk, hp⟩)

-- Len(R) > 0  ->  lo <= F0 < hi  /\  cnd(F0)  /\  At(R, 0) == At(seq, F0)  /\  ForAll([j], lo <= j < F0 -> Not(cnd(j)))
--                                                                                     (F0 a fresh constant)
theorem head_filter (s : List α) (p : α → Bool) :
    0 < (s.filter p).length →
      ∃ f0 : Nat, f0 < s.length ∧ p (At s f0) = true ∧ At (s.filter p) 0 = At s f0 ∧
        ∀ j, j < f0 → ¬ (p (At s j) = true) := by
  induction s with
  | nil => simp
  | cons x xs ih =>
    intro h
    by_cases hx : p x = true
    · exact ⟨0, by simp, by simpa using hx, by simp [List.filter_cons_of_pos hx], by simp⟩
    · rw [List.filter_cons_of_neg hx] at h ⊢
      obtain ⟨f0, h1, h2, h3, h4⟩ := ih h
      refine ⟨f0 + 1, by simpa using h1, by simpa using h2, by simpa using h3, ?_⟩
      intro j hj
      cases j with
      | zero => simpa using hx
      | succ j => simpa using h4 j (by omega)

-- [x for x in s if x != c]  on a duplicate-free s :   Nodup(seq)  ->  R == If(Has(seq, c), Rm(seq, c), seq)
theorem filter_ne_eq_erase (s : List α) (c : α) :
    s.Nodup → s.filter (fun x => decide (x ≠ c)) = if c ∈ s then s.erase c else s := by
  intro h
  have hf : (fun x => decide (x ≠ c)) = (fun x => x != c) := by
    funext x; by_cases hx : x = c <;> simp [hx]
  rw [hf]
  split_ifs with hc
  · exact (h.erase_eq_filter c).symm
  · rw [List.filter_eq_self]
    intro a ha
    have : a ≠ c := fun h' => hc (h' ▸ ha)
    simpa using this

-- map comprehension  R = [f(x) for x in s] :   Len(R) == n_src
theorem len_map (s : List α) (f : α → β) : (s.map f).length = s.length := List.length_map f

-- map comprehension:   ForAll([k], rng(k)  ->  At(R, k - lo) == elt(k))
theorem at_map (s : List α) (f : α → β) (k : Nat) : k < s.length → At (s.map f) k = f (At s k) := by
  intro h; rw [At_eq_getElem (by simpa using h), At_eq_getElem h]; simp

-- map comprehension, membership with index witness:
--   rng(k) -> Has(R, elt(k))      and      Has(R, y) -> lo <= W(y) < hi /\ elt(W(y)) == y          (W Skolem)
theorem mem_map_iff (s : List α) (f : α → β) (y : β) :
    y ∈ s.map f ↔ ∃ k, k < s.length ∧ f (At s k) = y := by
  rw [List.mem_map]
  constructor
  · rintro ⟨x, hx, rfl⟩
    obtain ⟨k, hk, rfl⟩ := List.mem_iff_getElem.mp hx
    exact ⟨k, hk, by rw [At_eq_getElem hk]⟩
  · rintro ⟨k, hk, rfl⟩
    exact ⟨At s k, by rw [At_eq_getElem hk]; exact List.getElem_mem hk, rfl⟩

-- filter/map comprehension  R = [f(x) for x in s if p(x)] :
--   rng(k) /\ cnd(k) -> Has(R, elt(k))     and     Has(R, y) -> lo <= W(y) < hi /\ cnd(W(y)) /\ elt(W(y)) == y
theorem mem_filterMap_iff (s : List α) (p : α → Bool) (f : α → β) (y : β) :
    y ∈ s.filterMap (fun x => if p x then some (f x) else none) ↔
      ∃ k, k < s.length ∧ p (At s k) = true ∧ f (At s k) = y := by
  rw [List.mem_filterMap]
  constructor
  · rintro ⟨x, hx, h⟩
    obtain ⟨k, hk, rfl⟩ := List.mem_iff_getElem.mp hx
    split_ifs at h with hp
    · exact ⟨k, hk, by rw [At_eq_getElem hk]; exact hp, by rw [At_eq_getElem hk]; simpa using h⟩
  · rintro ⟨k, hk, hp, rfl⟩
    exact ⟨At s k, by rw [At_eq_getElem hk]; exact List.getElem_mem hk, by simp [hp]⟩

-- (the filterMap above is the usual "filter, then map")
theorem filterMap_eq_filter_map (s : List α) (p : α → Bool) (f : α → β) :
    s.filterMap (fun x => if p x then some (f x) else none) = (s.filter p).map f := by
  induction s with
  | nil => rfl
  | cons x xs ih => by_cases h : p x = true <;> simp [h, ih]

/-! ## pyvc/comps.py : `flatcomp`   R = [v for k, vs in d.items() for v in vs if p(k, v)] -/

/-- filtered flatten -/
def FlatFilter (keys : List κ) (get : κ → List α) (p : κ → α → Bool) : List α :=
  (keys.map (fun a => (get a).filter (p a))).flatten

-- has(d, kk) /\ Has(get(d, kk), vv) /\ cnd(kk, vv)  ->  Has(R, vv)
-- Has(R, y)  ->  has(d, WK(y)) /\ Has(get(d, WK(y)), y) /\ cnd(WK(y), y)                              (WK Skolem)
theorem mem_flatFilter_iff (keys : List κ) (get : κ → List α) (p : κ → α → Bool) (v : α) :
    v ∈ FlatFilter keys get p ↔ ∃ a, a ∈ keys ∧ v ∈ get a ∧ p a v = true := by
  simp [FlatFilter, List.mem_flatten]

theorem flatFilter_sublist (keys : List κ) (get : κ → List α) (p : κ → α → Bool) :
    (FlatFilter keys get p).Sublist (AllVals keys get) := by
  induction keys with
  | nil => simp [FlatFilter, AllVals]
  | cons a as ih =>
    simp only [FlatFilter, AllVals, List.map_cons, List.flatten_cons] at ih ⊢
    exact List.Sublist.append List.filter_sublist ih

-- Nodup(AllVals(d))  ->  Nodup(R)
theorem nodup_flatFilter (keys : List κ) (get : κ → List α) (p : κ → α → Bool) :
    (AllVals keys get).Nodup → (FlatFilter keys get p).Nodup :=
  fun h => h.sublist (flatFilter_sublist keys get p)

-- Len(R) <= Len(AllVals(d))
theorem len_flatFilter_le (keys : List κ) (get : κ → List α) (p : κ → α → Bool) :
    (FlatFilter keys get p).length ≤ (AllVals keys get).length :=
  (flatFilter_sublist keys get p).length_le

/-! ## contracts/base_carver.py -/

-- ForAll([c], Len(c) >= 1  ->  c == App(One(At(c, 0)), Drop(c, 1)))
theorem cons_head_tail (c : List α) : 1 ≤ c.length → c = [At c 0] ++ c.drop 1 := by
  intro h
  cases c with
  | nil => simp at h
  | cons x xs => simp

-- ForAll([sA, zc], Has(App(sA, One(zc)), zc))
theorem has_append_one (s : List α) (z : α) : z ∈ s ++ [z] := by simp

-- Flat = List.flatten :   Flat(Emp) == Emp ;  Flat(One(gg)) == gg ;  Flat(App(c1, c2)) == App(Flat(c1), Flat(c2))
theorem flat_nil : ([] : List (List α)).flatten = [] := rfl
theorem flat_one (g : List α) : [g].flatten = g := by simp
theorem flat_append (c1 c2 : List (List α)) : (c1 ++ c2).flatten = c1.flatten ++ c2.flatten :=
  List.flatten_append

end Comps


/-! ## The prelude over `Int`, verbatim

The prelude is a theory over z3's `Int`.  This section interprets the symbols with `Int` arguments/results
(`Len At Take Drop Slice Idx Upd Rep`) literally over `Int` (negative arguments are clamped to 0 by `Int.toNat`; no axiom
constrains them there) and re-proves every axiom that mentions an integer EXACTLY as written in pyvc/theory.py,
including its `0 <= i` guards and its `Int` subtractions.  This checks mechanically that the `Nat` statements above
are the same facts.  (Axioms without integers are already verbatim above.) -/

namespace IntModel

def Len (s : List α) : Int := s.length
def AtI (s : List α) (i : Int) : α := At s i.toNat
def Take (s : List α) (n : Int) : List α := s.take n.toNat
def Drop (s : List α) (n : Int) : List α := s.drop n.toNat
def SliceI (s : List α) (a b : Int) : List α := Slice s a.toNat b.toNat
def Idx (s : List α) (x : α) : Int := idxOf x s
def Upd (s : List α) (i : Int) (x : α) : List α := s.set i.toNat x
def Rep (x : α) (n : Int) : List α := List.replicate n.toNat x

/-- unfold the `Int` interpretation everywhere -/
local macro "ints" : tactic =>
  `(tactic| try simp only [Len, AtI, Take, Drop, SliceI, Idx, Upd, Rep, Int.toNat_natCast, Int.toNat_zero] at *)

-- ax([s], Len(s) >= 0)
theorem len_nonneg (s : List α) : Len s ≥ 0 := by ints; omega

-- Len(Emp) == 0
theorem len_nil : Len ([] : List α) = 0 := by simp [Len]

-- ax([s], Len(s) == 0  ->  s == Emp)
theorem len_zero_nil (s : List α) : Len s = 0 → s = [] := by
  intro h; ints; exact PreludeSound.len_zero_nil s (by omega)

-- ax([x], Len(One(x)) == 1  /\  At(One(x), 0) == x)
theorem one_len_at (x : α) : Len [x] = 1 ∧ AtI [x] 0 = x := by ints; simp

-- ax([s, t], Len(App(s, t)) == Len(s) + Len(t))
theorem len_append (s t : List α) : Len (s ++ t) = Len s + Len t := by ints; simp

-- ax([s, t, n], (0 <= n /\ n < Len(s)  ->  At(App(s, t), n) == At(s, n))
--            /\ (Len(s) <= n /\ n < Len(s) + Len(t)  ->  At(App(s, t), n) == At(t, n - Len(s))))
theorem at_append (s t : List α) (n : Int) :
    (0 ≤ n ∧ n < Len s → AtI (s ++ t) n = AtI s n) ∧
    (Len s ≤ n ∧ n < Len s + Len t → AtI (s ++ t) n = AtI t (n - Len s)) := by
  ints
  constructor
  · rintro ⟨h0, h1⟩
    exact (PreludeSound.at_append s t n.toNat).1 (by omega)
  · rintro ⟨h0, h1⟩
    have e : (n - (s.length : Int)).toNat = n.toNat - s.length := by omega
    rw [e]
    exact (PreludeSound.at_append s t n.toNat).2 (by omega) (by omega)

-- ax([s, x], Has(s, x)  ->  0 <= Idx(s, x)  /\  Idx(s, x) < Len(s)  /\  At(s, Idx(s, x)) == x)
theorem has_idx (s : List α) (x : α) :
    x ∈ s → 0 ≤ Idx s x ∧ Idx s x < Len s ∧ AtI s (Idx s x) = x := by
  intro h; ints
  obtain ⟨h1, h2⟩ := PreludeSound.has_idx s x h
  exact ⟨by omega, by omega, h2⟩

-- ax([s, x, j], 0 <= j  /\  j < Idx(s, x)  /\  Has(s, x)  ->  At(s, j) != x)
theorem idx_first (s : List α) (x : α) (j : Int) :
    0 ≤ j ∧ j < Idx s x ∧ x ∈ s → AtI s j ≠ x := by
  rintro ⟨h0, h1, h2⟩; ints
  exact PreludeSound.idx_first s x j.toNat (by omega) h2

-- ax([s, i], 0 <= i  /\  i < Len(s)  ->  Has(s, At(s, i)))
theorem at_has (s : List α) (i : Int) : 0 ≤ i ∧ i < Len s → AtI s i ∈ s := by
  rintro ⟨h0, h1⟩; ints
  exact PreludeSound.at_has s i.toNat (by omega)

-- ax([s, t, x], Has(s, x)  ->  Idx(App(s, t), x) == Idx(s, x))
theorem idx_append_left (s t : List α) (x : α) : x ∈ s → Idx (s ++ t) x = Idx s x := by
  intro h; ints; rw [PreludeSound.idx_append_left s t x h]

-- ax([s, t, x], Not(Has(s, x))  /\  Has(t, x)  ->  Idx(App(s, t), x) == Len(s) + Idx(t, x))
theorem idx_append_right (s t : List α) (x : α) :
    x ∉ s ∧ x ∈ t → Idx (s ++ t) x = Len s + Idx t x := by
  rintro ⟨h1, h2⟩; ints
  rw [PreludeSound.idx_append_right s t x h1 h2]; simp

-- ax([x], Idx(One(x), x) == 0)
theorem idx_one (x : α) : Idx [x] x = 0 := by ints; simp

-- ax([s, n], 0 <= n  /\  n <= Len(s)  ->  Len(Take(s, n)) == n)
theorem len_take (s : List α) (n : Int) : 0 ≤ n ∧ n ≤ Len s → Len (Take s n) = n := by
  rintro ⟨h0, h1⟩; ints
  have := PreludeSound.len_take s n.toNat (by omega)
  omega

-- ax([s, n, j], 0 <= j  /\  j < n  /\  n <= Len(s)  ->  At(Take(s, n), j) == At(s, j))
theorem at_take (s : List α) (n j : Int) :
    0 ≤ j ∧ j < n ∧ n ≤ Len s → AtI (Take s n) j = AtI s j := by
  rintro ⟨h0, h1, h2⟩; ints
  exact PreludeSound.at_take s n.toNat j.toNat (by omega) (by omega)

-- ax([s, n], 0 <= n  /\  n <= Len(s)  ->  Len(Drop(s, n)) == Len(s) - n)
theorem len_drop (s : List α) (n : Int) : 0 ≤ n ∧ n ≤ Len s → Len (Drop s n) = Len s - n := by
  rintro ⟨h0, h1⟩; ints
  have := PreludeSound.len_drop s n.toNat (by omega)
  omega

-- ax([s, n, j], 0 <= n  /\  0 <= j  /\  j < Len(s) - n  ->  At(Drop(s, n), j) == At(s, j + n))
theorem at_drop (s : List α) (n j : Int) :
    0 ≤ n ∧ 0 ≤ j ∧ j < Len s - n → AtI (Drop s n) j = AtI s (j + n) := by
  rintro ⟨h0, h1, h2⟩; ints
  have e : (j + n).toNat = j.toNat + n.toNat := by omega
  rw [e]
  exact PreludeSound.at_drop s n.toNat j.toNat (by omega)

-- ax([s], Drop(s, 0) == s)
theorem drop_zero (s : List α) : Drop s 0 = s := by ints; simp

-- ax([s, n], n == Len(s)  ->  Take(s, n) == s)
theorem take_len (s : List α) (n : Int) : n = Len s → Take s n = s := by
  intro h; ints; exact PreludeSound.take_len s n.toNat (by omega)

-- ax([s, n], n == Len(s)  ->  Drop(s, n) == Emp)
theorem drop_len (s : List α) (n : Int) : n = Len s → Drop s n = [] := by
  intro h; ints; exact PreludeSound.drop_len s n.toNat (by omega)

-- ax([s], Take(s, 0) == Emp)
theorem take_zero (s : List α) : Take s 0 = [] := by ints; simp

-- ax([s, n, x], 0 <= n  /\  n <= Len(s)  /\  Has(Take(s, n), x)  ->  Has(s, x))
theorem has_take (s : List α) (n : Int) (x : α) : 0 ≤ n ∧ n ≤ Len s ∧ x ∈ Take s n → x ∈ s := by
  rintro ⟨h0, h1, h2⟩; ints; exact List.mem_of_mem_take h2

-- ax([s, n, j], 0 <= j  /\  j < n  /\  n <= Len(s)  ->  Has(Take(s, n), At(s, j)))
theorem has_take_at (s : List α) (n j : Int) : 0 ≤ j ∧ j < n ∧ n ≤ Len s → AtI s j ∈ Take s n := by
  rintro ⟨h0, h1, h2⟩; ints
  exact PreludeSound.has_take_at s n.toNat j.toNat (by omega) (by omega)

-- ax([s, n, x], 0 <= n  /\  n <= Len(s)  /\  Has(Drop(s, n), x)  ->  Has(s, x))
theorem has_drop (s : List α) (n : Int) (x : α) : 0 ≤ n ∧ n ≤ Len s ∧ x ∈ Drop s n → x ∈ s := by
  rintro ⟨h0, h1, h2⟩; ints; exact List.mem_of_mem_drop h2

-- ax([s, n], 0 <= n  /\  n <= Len(s)  ->  App(Take(s, n), Drop(s, n)) == s)
theorem take_append_drop (s : List α) (n : Int) : 0 ≤ n ∧ n ≤ Len s → Take s n ++ Drop s n = s := by
  rintro ⟨h0, h1⟩; ints; exact List.take_append_drop _ s

-- ax([s, n], 0 <= n  /\  n < Len(s)  ->  App(Take(s, n), One(At(s, n))) == Take(s, n + 1))
theorem take_succ (s : List α) (n : Int) :
    0 ≤ n ∧ n < Len s → Take s n ++ [AtI s n] = Take s (n + 1) := by
  rintro ⟨h0, h1⟩; ints
  have e : (n + 1).toNat = n.toNat + 1 := by omega
  rw [e]
  exact PreludeSound.take_succ s n.toNat (by omega)

-- ax([s, n], Nodup(s)  /\  0 <= n  /\  n < Len(s)  ->  Not(Has(Take(s, n), At(s, n))))
theorem nodup_not_mem_take (s : List α) (n : Int) :
    s.Nodup ∧ 0 ≤ n ∧ n < Len s → AtI s n ∉ Take s n := by
  rintro ⟨hnd, h0, h1⟩; ints
  exact PreludeSound.nodup_not_mem_take s n.toNat hnd (by omega)

-- ax([s, m, n, x], m == n + 1  /\  0 <= n  /\  n < Len(s)  ->  Has(Take(s, m), x) == (Has(Take(s, n), x) \/ x == At(s, n)))
theorem has_take_succ (s : List α) (m n : Int) (x : α) :
    m = n + 1 ∧ 0 ≤ n ∧ n < Len s → (x ∈ Take s m ↔ x ∈ Take s n ∨ x = AtI s n) := by
  rintro ⟨hm, h0, h1⟩; ints
  exact PreludeSound.has_take_succ s m.toNat n.toNat x (by omega) (by omega)

-- ax([s, a, b], 0 <= a  /\  a <= b  /\  b <= Len(s)  ->  Len(Slice(s, a, b)) == b - a)
theorem len_slice (s : List α) (a b : Int) :
    0 ≤ a ∧ a ≤ b ∧ b ≤ Len s → Len (SliceI s a b) = b - a := by
  rintro ⟨h0, h1, h2⟩; ints
  have := PreludeSound.len_slice s a.toNat b.toNat (by omega) (by omega)
  omega

-- ax([s, a, b, j], 0 <= a /\ a <= b /\ b <= Len(s) /\ 0 <= j /\ j < b - a  ->  At(Slice(s, a, b), j) == At(s, a + j))
theorem at_slice (s : List α) (a b j : Int) :
    0 ≤ a ∧ a ≤ b ∧ b ≤ Len s ∧ 0 ≤ j ∧ j < b - a → AtI (SliceI s a b) j = AtI s (a + j) := by
  rintro ⟨h0, h1, h2, h3, h4⟩; ints
  have e : (a + j).toNat = a.toNat + j.toNat := by omega
  rw [e]
  exact PreludeSound.at_slice s a.toNat b.toNat j.toNat (by omega) (by omega) (by omega)

-- ax([s, a, b], 0 <= a  /\  a <= b  /\  b <= Len(s)  ->  App(Take(s, a), Slice(s, a, b)) == Take(s, b))
theorem take_append_slice (s : List α) (a b : Int) :
    0 ≤ a ∧ a ≤ b ∧ b ≤ Len s → Take s a ++ SliceI s a b = Take s b := by
  rintro ⟨h0, h1, h2⟩; ints
  exact PreludeSound.take_append_slice s a.toNat b.toNat (by omega) (by omega)

-- ax([s, a, b, x], 0 <= a  /\  a <= b  /\  b <= Len(s)  /\  Has(Slice(s, a, b), x)  ->  Has(s, x))
theorem has_slice (s : List α) (a b : Int) (x : α) :
    0 ≤ a ∧ a ≤ b ∧ b ≤ Len s ∧ x ∈ SliceI s a b → x ∈ s := by
  rintro ⟨h0, h1, h2, h3⟩; ints
  exact PreludeSound.has_slice s a.toNat b.toNat x (by omega) (by omega) h3

-- ax([s, b], 0 <= b  /\  b <= Len(s)  ->  Slice(s, 0, b) == Take(s, b))
theorem slice_zero (s : List α) (b : Int) : 0 ≤ b ∧ b ≤ Len s → SliceI s 0 b = Take s b := by
  rintro ⟨h0, h1⟩; ints
  exact PreludeSound.slice_zero s b.toNat (by omega)

-- ax([s, a, b], 0 <= a  /\  a <= b  /\  b == Len(s)  ->  Slice(s, a, b) == Drop(s, a))
theorem slice_to_len (s : List α) (a b : Int) :
    0 ≤ a ∧ a ≤ b ∧ b = Len s → SliceI s a b = Drop s a := by
  rintro ⟨h0, h1, h2⟩; ints
  exact PreludeSound.slice_to_len s a.toNat b.toNat (by omega) (by omega)

-- ax([s, t], Prefix(s, t)  ->  Len(s) <= Len(t))
theorem prefix_len (s t : List α) : s <+: t → Len s ≤ Len t := by
  intro h; ints
  have := PreludeSound.prefix_len s t h
  omega

-- ax([s, t, j], Prefix(s, t)  /\  0 <= j  /\  j < Len(s)  ->  At(t, j) == At(s, j))
theorem prefix_at (s t : List α) (j : Int) : s <+: t ∧ 0 ≤ j ∧ j < Len s → AtI t j = AtI s j := by
  rintro ⟨h, h0, h1⟩; ints
  exact PreludeSound.prefix_at s t j.toNat h (by omega)

-- ax([s, i, x], 0 <= i  /\  i < Len(s)  ->  Len(Upd(s, i, x)) == Len(s))
theorem len_set (s : List α) (i : Int) (x : α) : 0 ≤ i ∧ i < Len s → Len (Upd s i x) = Len s := by
  rintro ⟨h0, h1⟩; ints; simp

-- ax([s, i, x, j], 0 <= i /\ i < Len(s) /\ 0 <= j /\ j < Len(s)  ->  At(Upd(s, i, x), j) == If(i == j, x, At(s, j)))
theorem at_set (s : List α) (i j : Int) (x : α) :
    0 ≤ i ∧ i < Len s ∧ 0 ≤ j ∧ j < Len s → AtI (Upd s i x) j = if i = j then x else AtI s j := by
  rintro ⟨h0, h1, h2, h3⟩; ints
  rw [PreludeSound.at_set s i.toNat j.toNat x (by omega) (by omega)]
  have e : (i.toNat = j.toNat) ↔ (i = j) := by omega
  simp only [e]

-- ax([s, i, x, y], 0 <= i  /\  i < Len(s)  /\  Has(Upd(s, i, x), y)  ->  y == x  \/  Has(s, y))
theorem has_set (s : List α) (i : Int) (x y : α) :
    0 ≤ i ∧ i < Len s ∧ y ∈ Upd s i x → y = x ∨ y ∈ s := by
  rintro ⟨h0, h1, h2⟩; ints
  exact PreludeSound.has_set s i.toNat x y (by omega) h2

-- ax([s, i, x], 0 <= i  /\  i < Len(s)  ->  Has(Upd(s, i, x), x))
theorem has_set_self (s : List α) (i : Int) (x : α) : 0 ≤ i ∧ i < Len s → x ∈ Upd s i x := by
  rintro ⟨h0, h1⟩; ints
  exact PreludeSound.has_set_self s i.toNat x (by omega)

-- ax([s, i, x, y], 0 <= i  /\  i < Len(s)  /\  Has(s, y)  /\  y != At(s, i)  ->  Has(Upd(s, i, x), y))
theorem has_set_other (s : List α) (i : Int) (x y : α) :
    0 ≤ i ∧ i < Len s ∧ y ∈ s ∧ y ≠ AtI s i → y ∈ Upd s i x := by
  rintro ⟨h0, h1, h2, h3⟩; ints
  exact PreludeSound.has_set_other s i.toNat x y (by omega) h2 h3

-- ax([s, x], Has(s, x)  ->  Len(Rm(s, x)) == Len(s) - 1)
theorem len_erase (s : List α) (x : α) : x ∈ s → Len (s.erase x) = Len s - 1 := by
  intro h; ints
  have := PreludeSound.len_erase s x h
  have := List.length_pos_of_mem h
  omega

-- ax([s, x, j], Has(s, x) /\ 0 <= j /\ j < Len(s) - 1  ->  At(Rm(s, x), j) == If(j < Idx(s, x), At(s, j), At(s, j + 1)))
theorem at_erase (s : List α) (x : α) (j : Int) :
    x ∈ s ∧ 0 ≤ j ∧ j < Len s - 1 →
      AtI (s.erase x) j = if j < Idx s x then AtI s j else AtI s (j + 1) := by
  rintro ⟨h, h0, h1⟩; ints
  rw [PreludeSound.at_erase s x j.toNat h (by omega)]
  have e : (j.toNat < idxOf x s) ↔ (j < (idxOf x s : Int)) := by omega
  have e2 : (j + 1).toNat = j.toNat + 1 := by omega
  simp only [e, e2]

-- ax([s, x], Has(s, x)  ->  Rm(s, x) == App(Take(s, Idx(s, x)), Drop(s, Idx(s, x) + 1)))
theorem erase_eq_take_drop (s : List α) (x : α) :
    x ∈ s → s.erase x = Take s (Idx s x) ++ Drop s (Idx s x + 1) := by
  intro h; ints
  have e : ((idxOf x s : Int) + 1).toNat = idxOf x s + 1 := by omega
  rw [e]
  exact PreludeSound.erase_eq_take_drop s x h

-- ax([s, i, j], Nodup(s)  /\  0 <= i  /\  i < j  /\  j < Len(s)  ->  At(s, i) != At(s, j))
theorem nodup_at (s : List α) (i j : Int) :
    s.Nodup ∧ 0 ≤ i ∧ i < j ∧ j < Len s → AtI s i ≠ AtI s j := by
  rintro ⟨hnd, h0, h1, h2⟩; ints
  exact PreludeSound.nodup_at s i.toNat j.toNat hnd (by omega) (by omega)

-- ax([s], Nodup(s)  \/  (0 <= W1(s)  /\  W1(s) < W2(s)  /\  W2(s) < Len(s)  /\  At(s, W1(s)) == At(s, W2(s))))
theorem nodup_witness (s : List α) :
    s.Nodup ∨ ∃ w1 w2 : Int, 0 ≤ w1 ∧ w1 < w2 ∧ w2 < Len s ∧ AtI s w1 = AtI s w2 := by
  rcases PreludeSound.nodup_witness s with h | ⟨w1, w2, h1, h2, h3⟩
  · exact Or.inl h
  · refine Or.inr ⟨w1, w2, ?_⟩
    ints
    exact ⟨by omega, by omega, by omega, h3⟩

-- ax([s, n], Nodup(s) /\ 0 <= n /\ n <= Len(s)  ->  Nodup(Take(s, n)) /\ Nodup(Drop(s, n)) /\ Disj(Take(s, n), Drop(s, n)))
theorem nodup_take_drop (s : List α) (n : Int) :
    s.Nodup ∧ 0 ≤ n ∧ n ≤ Len s →
      (Take s n).Nodup ∧ (Drop s n).Nodup ∧ (Take s n).Disjoint (Drop s n) := by
  rintro ⟨hnd, h0, h1⟩; ints
  exact PreludeSound.nodup_take_drop s n.toNat hnd (by omega)

-- ax([s, x, i], Nodup(s)  /\  0 <= i  /\  i < Len(s)  /\  At(s, i) == x  ->  Idx(s, x) == i)
theorem nodup_idx (s : List α) (x : α) (i : Int) :
    s.Nodup ∧ 0 ≤ i ∧ i < Len s ∧ AtI s i = x → Idx s x = i := by
  rintro ⟨hnd, h0, h1, h2⟩; ints
  have := PreludeSound.nodup_idx s x i.toNat hnd (by omega) h2
  omega

-- ax([s, i, x], Nodup(s)  /\  0 <= i  /\  i < Len(s)  /\  Not(Has(s, x))  ->  Nodup(Upd(s, i, x)))
theorem nodup_set_fresh (s : List α) (i : Int) (x : α) :
    s.Nodup ∧ 0 ≤ i ∧ i < Len s ∧ x ∉ s → (Upd s i x).Nodup := by
  rintro ⟨hnd, h0, h1, h2⟩; ints
  exact PreludeSound.nodup_set_fresh s i.toNat x hnd (by omega) h2

-- ax([s, i, x, y], Nodup(s) /\ 0 <= i /\ i < Len(s) /\ y == At(s, i) /\ y != x  ->  Not(Has(Upd(s, i, x), y)))
theorem nodup_set_removed (s : List α) (i : Int) (x y : α) :
    s.Nodup ∧ 0 ≤ i ∧ i < Len s ∧ y = AtI s i ∧ y ≠ x → y ∉ Upd s i x := by
  rintro ⟨hnd, h0, h1, h2, h3⟩; ints
  exact PreludeSound.nodup_set_removed s i.toNat x y hnd (by omega) h2 h3

-- ax([x, n], n >= 0  ->  Len(Rep(x, n)) == n)
theorem len_rep (x : α) (n : Int) : n ≥ 0 → Len (Rep x n) = n := by
  intro h; ints; simp; omega

-- ax([x, n, j], 0 <= j  /\  j < n  ->  At(Rep(x, n), j) == x)
theorem at_rep (x : α) (n j : Int) : 0 ≤ j ∧ j < n → AtI (Rep x n) j = x := by
  rintro ⟨h0, h1⟩; ints
  exact PreludeSound.at_rep x n.toNat j.toNat (by omega)

/-- `Ext` over `Int` indices -/
def ExtI (s t : List α) : Prop := Len s = Len t ∧ ∀ i : Int, 0 ≤ i ∧ i < Len s → AtI s i = AtI t i

-- ax([s, t], Ext(s, t) \/ Len(s) != Len(t) \/ (0 <= EqW(s, t) /\ EqW(s, t) < Len(s) /\ At(s, EqW(s, t)) != At(t, EqW(s, t))))
theorem ext_witness (s t : List α) :
    ExtI s t ∨ Len s ≠ Len t ∨ ∃ w : Int, 0 ≤ w ∧ w < Len s ∧ AtI s w ≠ AtI t w := by
  by_cases hl : Len s = Len t
  · by_cases h : ∀ i : Int, 0 ≤ i ∧ i < Len s → AtI s i = AtI t i
    · exact Or.inl ⟨hl, h⟩
    · obtain ⟨w, hw⟩ := not_forall.mp h
      obtain ⟨⟨hw0, hw1⟩, hw2⟩ := Classical.not_imp.mp hw
      exact Or.inr (Or.inr ⟨w, hw0, hw1, hw2⟩)
  · exact Or.inr (Or.inl hl)

-- ax([s, t], Ext(s, t)  ->  s == t)
theorem ext_eq (s t : List α) : ExtI s t → s = t := by
  rintro ⟨hl, h⟩
  apply PreludeSound.ext_eq
  refine ⟨by ints; omega, fun i hi => ?_⟩
  have := h (i : Int) ⟨by omega, by ints; omega⟩
  ints
  exact this

-- ax([s, t], Perm(s, t)  ->  Len(s) == Len(t)  /\  Nodup(s) == Nodup(t))
theorem perm_len_nodup (s t : List α) : s.Perm t → Len s = Len t ∧ (s.Nodup ↔ t.Nodup) := by
  intro h; ints
  exact ⟨by rw [h.length_eq], h.nodup_iff⟩

-- ForAll([s], Len(D(s)) <= Len(s))                                                    (comps.py, dedup_fn)
theorem len_dedup_le (s : List α) : Len s.dedup ≤ Len s := by
  ints; have := PreludeSound.len_dedup_le s; omega

-- ForAll([c], Len(c) >= 1  ->  c == App(One(At(c, 0)), Drop(c, 1)))                   (base_carver.py, cons_head_tail)
theorem cons_head_tail (c : List α) : Len c ≥ 1 → c = [AtI c 0] ++ Drop c 1 := by
  intro h; ints
  exact PreludeSound.cons_head_tail c (by omega)

end IntModel

end PreludeSound
