#!/usr/bin/env bash
# Compile /verif/lean/PreludeSound.lean (Lean 4 + Mathlib) and report the number of proved theorems.
#   exit 0  and  "lean prelude OK: <n> theorems"   iff the file compiles without errors and contains no
#   `sorry` / `admit` / `axiom` declaration (checked textually AND in the compiler output).
# Can be run from any directory.
set -u
HERE="$(cd "$(dirname "${BASH_SOURCE[0]}")" && pwd)"
FILE="$HERE/PreludeSound.lean"
MATHLIB_DIR="${MATHLIB_DIR:-/opt/veriftools/mathlib4}"

fail() { echo "lean prelude FAILED: $*" >&2; exit 1; }

[ -f "$FILE" ] || fail "$FILE not found"

# ---- textual checks (comments included on purpose: the words must not occur at all)
if grep -n -w -E 'sorry|admit|sorryAx' "$FILE" >&2; then fail "the file contains sorry/admit"; fi
if grep -n -E '^[[:space:]]*(@\[[^]]*\][[:space:]]*)?((private|protected|noncomputable|unsafe|partial)[[:space:]]+)*(axiom|opaque)[[:space:]]' "$FILE" >&2; then
  fail "the file declares an axiom/opaque constant"
fi
if grep -n -E '^[[:space:]]*(unsafe|partial|implemented_by|extern)' "$FILE" >&2; then fail "unsafe/partial/extern declaration"; fi

# ---- locate lean
LEAN=""
for c in /opt/veriftools/lean/bin/lean "$(command -v lean 2>/dev/null || true)"; do
  if [ -n "$c" ] && [ -x "$c" ]; then LEAN="$c"; break; fi
done
[ -n "$LEAN" ] || fail "no lean executable found"

OUT="$(mktemp)"; trap 'rm -f "$OUT"' EXIT
run_plain() { (cd /tmp && "$LEAN" "$FILE") >"$OUT" 2>&1; }
run_lake()  {
  local LAKE; LAKE="$(dirname "$LEAN")/lake"; [ -x "$LAKE" ] || LAKE="$(command -v lake 2>/dev/null || true)"
  [ -n "$LAKE" ] && [ -d "$MATHLIB_DIR" ] || return 1
  (cd "$MATHLIB_DIR" && "$LAKE" env "$LEAN" "$FILE") >"$OUT" 2>&1
}

run_plain; RC=$?
# Mathlib not on the default search path of this lean: retry inside the Mathlib lake environment
if [ $RC -ne 0 ] && grep -q -i -E "unknown (module prefix|package)|object file .* does not exist|could not find" "$OUT"; then
  run_lake; RC=$?
fi

if [ $RC -ne 0 ]; then cat "$OUT" >&2; fail "lean exited with status $RC"; fi
if grep -q -E '(^|: )error' "$OUT"; then cat "$OUT" >&2; fail "lean reported errors"; fi
if grep -q -i -w -E 'sorry|sorryAx' "$OUT"; then cat "$OUT" >&2; fail "a declaration uses sorry"; fi

N="$(grep -c -E '^[[:space:]]*(@\[[^]]*\][[:space:]]*)?theorem[[:space:]]' "$FILE")"
[ "$N" -gt 0 ] || fail "no theorem found"
echo "lean prelude OK: $N theorems"
exit 0
