"""bounded clauses of C03 on fitted objects (see rtc/battery.py) + ordinal features stored as numeric codes with a PRE-GROUPED ranking given on their string forms"""
import random
import numpy as np
import pandas as pd
from rtc import battery, zoo
from rtc.battery import outcome
ALL = ['Discretizer', 'QuantitativeDiscretizer', 'QualitativeDiscretizer', 'BinaryCarver', 'ContinuousCarver', 'MulticlassCarver', 'OrdinalDiscretizer', 'CategoricalDiscretizer', 'ContinuousDiscretizer']


def coded_ordinal(seed):
    """an ordinal feature stored as integer / float codes, its ranking given on the string forms '1' < '2' < ... with two neighbouring codes already grouped by the user:
    fitted groups are runs of consecutive codes of that ranking, the pre-grouped codes stay together, and the float output is non-decreasing in the code"""
    from AutoCarver.discretizers import GroupedList, QualitativeDiscretizer, Discretizer
    from AutoCarver.carvers.binary_carver import BinaryCarver
    rng = random.Random(seed); recs = []
    k = rng.choice([4, 5, 6]); n = rng.choice([120, 200]); j = rng.randrange(k - 1)          # the j-th and (j+1)-th codes OF THE RANKING are pre-grouped
    codes = list(range(1, k + 1))
    if seed % 3 == 1: codes = list(range(0, k)); rng.shuffle(codes)          # the ranking is NOT the numeric order of the codes, and the codes 0, 1, 2 ... are also float ranks
    w = [rng.random() + 0.3 for _ in codes]; col = rng.choices(codes, w, k=n); as_float = rng.random() < 0.5
    X = pd.DataFrame({'o': pd.Series([float(c) for c in col] if as_float else col, dtype=float if as_float else object), 'q': [round(rng.random() * 5, 1) for _ in range(n)]})
    rank_of = {c: i for i, c in enumerate(codes)}; y = pd.Series([int(rng.random() < 0.2 + 0.1 * rank_of[c]) for c in col])
    content = {}
    for i, c in enumerate(codes):
        if i == j + 1: continue
        content[str(c)] = [str(codes[j + 1]), str(c)] if i == j else [str(c)]
    wit = dict(which='coded_ordinal', ranking=content, column=col, stored_as='float' if as_float else 'int', target=y.tolist())
    for name, mk in (('QualitativeDiscretizer', lambda: QualitativeDiscretizer(qualitative_features=[], ordinal_features=['o'], values_orders={'o': GroupedList(content)}, min_freq=0.02, copy=True)),
                     ('Discretizer', lambda: Discretizer(quantitative_features=['q'], qualitative_features=[], ordinal_features=['o'], values_orders={'o': GroupedList(content)}, min_freq=0.02, copy=True)),
                     ('BinaryCarver', lambda: BinaryCarver(sort_by='tschuprowt', min_freq=0.02, quantitative_features=['q'], qualitative_features=[], ordinal_features=['o'], values_orders={'o': GroupedList(content)}, max_n_mod=4, output_dtype='float', dropna=True, copy=True, verbose=False))):
        wk = dict(wit, kind=name)
        try: o = mk(); o.fit(X, y)
        except AssertionError: continue
        except Exception as e:
            recs.append(('C08:fit#raises.only_AssertionError', False, wk, '%s.fit raised %s: %s' % (name, type(e).__name__, str(e)[:200]))); continue
        if 'o' not in o.features: continue
        order = o.values_orders['o']; group_of = {}
        for gi, l in enumerate(order):
            for m in order.content[l]:
                if isinstance(m, str) and m.isdigit(): group_of[int(m)] = gi
        seq = [group_of.get(c) for c in codes]
        ok_run = None not in seq and all(a <= b for a, b in zip(seq, seq[1:]))
        recs.append(('C03:fit#post.ordinal_groups_are_consecutive_runs_of_the_ranking', ok_run, wk, '%s: codes %r sit in the groups number %r of the fitted order %r (not non-decreasing: the ranking was not kept)' % (name, codes, seq, dict(order.content))))
        recs.append(('C03:fit#post.pre_grouped_values_stay_together', group_of.get(codes[j]) is not None and group_of.get(codes[j]) == group_of.get(codes[j + 1]), wk,
                     '%s: the codes %r and %r were grouped by the user, fitted order %r' % (name, codes[j], codes[j + 1], dict(order.content))))
        t = outcome(lambda: o.transform(X))
        if t[0] == 'ok' and getattr(o, 'output_dtype', 'str') == 'float':
            lab = {}
            for c, v in zip(col, t[1]['o'].tolist()): lab.setdefault(c, set()).add(v)
            vals = [sorted(lab[c])[0] for c in codes if c in lab]          # along the RANKING
            expected = [float(group_of[c]) for c in codes if c in lab]          # 'float' labels are the group's rank in the fitted order
            recs.append(('C03:transform#post.ordinal_float_output_monotone_in_rank', all(len(lab[c]) == 1 for c in lab) and all(a <= b for a, b in zip(vals, vals[1:])) and [float(v) for v in vals] == expected, wk,
                         '%s: float output per code along the ranking %r, rank of its group in the fitted order %r' % (name, {c: sorted(lab[c]) for c in codes if c in lab}, expected)))
    return recs


def run(ctx):
    battery.run_battery(ctx, {'C03'}, kinds=ALL)
    n = 12 if ctx.tier == 'quick' else 120
    ctx.bound('coded ordinal features', '%d seeded ordinal features stored as int / float codes with a pre-grouped ranking on their string forms (QualitativeDiscretizer, Discretizer, BinaryCarver)' % n)
    for recs in zoo.pmap(coded_ordinal, [ctx.seed * 19 + i for i in range(n)]):
        for clause, ok, wit, msg in recs:
            if clause.startswith('C03:'): ctx.check(clause[4:], clause[4:].split('#')[0], ok, wit, msg)
