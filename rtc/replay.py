"""python -m rtc.replay <file>: re-execute a stored witness on the real code"""
import json, sys, importlib
from rtc import harness
def main(path):
    r = json.load(open(path)); w = r['witness']; prop = r['property']
    from rtc.replayers import REPLAYERS
    fn = REPLAYERS.get(prop)
    print('replaying %s clause=%s function=%s' % (prop, r.get('clause'), r.get('function')))
    print('witness:', json.dumps(w)[:1500])
    if fn is None:
        print('no replayer registered; stored message:', r.get('message')); return 1
    fails = fn(r)
    for f in fails[:5]: print('VIOLATED', f['clause'], '-', f['message'])
    if not fails: print('not reproduced on this tree')
    return 1 if fails else 0
if __name__ == '__main__': sys.exit(main(sys.argv[1]))
