"""bounded clauses of C07 on fitted objects (see rtc/battery.py)"""
from rtc import battery
ALL = ['Discretizer', 'QuantitativeDiscretizer', 'QualitativeDiscretizer', 'BinaryCarver', 'ContinuousCarver', 'MulticlassCarver', 'OrdinalDiscretizer', 'CategoricalDiscretizer', 'ContinuousDiscretizer']
def run(ctx):
    battery.run_battery(ctx, {'C07'}, kinds=ALL)
