"""Fitted objects for the shared clause battery (engine R): every discretizer class and the carvers, fitted on zoo cases."""
import math, traceback
import numpy as np
import pandas as pd
from rtc import zoo

KINDS = ['Discretizer', 'QuantitativeDiscretizer', 'QualitativeDiscretizer', 'BinaryCarver', 'ContinuousCarver', 'MulticlassCarver', 'BaseDiscretizer']


def build(kind, case, cfg):
    """-> fitted object (raises whatever fit raises); cfg['n_jobs'] > 1 runs the parallel branches with an in-process pool that completes in arbitrary order"""
    if cfg.get('n_jobs', 1) > 1:
        from rtc.c10_independence import patch_pools, unpatch
        saved = patch_pools()
        try: return _build(kind, case, cfg)
        finally: unpatch(saved)
    return _build(kind, case, cfg)


def _build(kind, case, cfg):
    from AutoCarver.discretizers import Discretizer, QualitativeDiscretizer, QuantitativeDiscretizer, BaseDiscretizer, GroupedList
    vo = zoo.values_orders_arg(case); X, y = case['X'], case['y']
    if kind == 'Discretizer':
        o = Discretizer(quantitative_features=list(case['quantitative']), qualitative_features=list(case['qualitative']), ordinal_features=list(case['ordinal']),
                        values_orders=vo, min_freq=cfg['min_freq'], copy=True, verbose=False, n_jobs=cfg.get('n_jobs', 1), **zoo.extra_kwargs(cfg))
        o.fit(X, y); return o
    if kind == 'QuantitativeDiscretizer':
        o = QuantitativeDiscretizer(quantitative_features=list(case['quantitative']), min_freq=cfg['min_freq'], copy=True, verbose=False, n_jobs=cfg.get('n_jobs', 1), **{k: v for k, v in zoo.extra_kwargs(cfg).items() if k == 'str_nan'})
        o.fit(X, y); return o
    if kind == 'QualitativeDiscretizer':
        o = QualitativeDiscretizer(qualitative_features=list(case['qualitative']), ordinal_features=list(case['ordinal']), values_orders=vo, min_freq=cfg['min_freq'], copy=True, verbose=False, **zoo.extra_kwargs(cfg))
        o.fit(X, y); return o
    if kind in ('BinaryCarver', 'ContinuousCarver'):
        return zoo.fit_carver(case, cfg)
    if kind == 'OrdinalDiscretizer':
        from AutoCarver.discretizers.utils.qualitative_discretizers import OrdinalDiscretizer
        o = OrdinalDiscretizer(ordinal_features=list(case['ordinal']), min_freq=cfg['min_freq'], values_orders={f: v for f, v in vo.items() if f in case['ordinal']}, copy=True, verbose=False)
        o.fit(X, y); return o
    if kind == 'CategoricalDiscretizer':
        from AutoCarver.discretizers.utils.qualitative_discretizers import CategoricalDiscretizer
        feats = [f for f in case['qualitative'] if all(isinstance(v, str) for v in X[f].dropna())]
        o = CategoricalDiscretizer(qualitative_features=feats, min_freq=cfg['min_freq'], copy=True, verbose=False)
        o.fit(X, y); return o
    if kind == 'ContinuousDiscretizer':
        from AutoCarver.discretizers.utils.quantitative_discretizers import ContinuousDiscretizer
        o = ContinuousDiscretizer(quantitative_features=list(case['quantitative']), min_freq=cfg['min_freq'], copy=True, verbose=False, n_jobs=cfg.get('n_jobs', 1))
        o.fit(X, y); return o
    if kind == 'MulticlassCarver':
        from AutoCarver.carvers.multiclass_carver import MulticlassCarver
        o = MulticlassCarver(sort_by=cfg.get('sort_by', 'tschuprowt'), min_freq=cfg['min_freq'], quantitative_features=list(case['quantitative']), qualitative_features=list(case['qualitative']),
                             ordinal_features=list(case['ordinal']), values_orders=vo, max_n_mod=cfg['max_n_mod'], output_dtype=cfg.get('output_dtype', 'float'), dropna=cfg.get('dropna', True),
                             copy=True, verbose=False, **zoo.extra_kwargs(cfg))
        if case['X_dev'] is not None: o.fit(X, y, X_dev=case['X_dev'], y_dev=case['y_dev'])
        else: o.fit(X, y)
        return o
    raise ValueError(kind)


def applicable(kind, case):
    if kind == 'QuantitativeDiscretizer': return len(case['quantitative']) > 0
    if kind == 'QualitativeDiscretizer': return len(case['qualitative']) + len(case['ordinal']) > 0
    if kind == 'BinaryCarver': return case['target'] == 'binary'
    if kind == 'ContinuousCarver': return case['target'] == 'continuous'
    if kind == 'MulticlassCarver': return case['target'] == 'multiclass'
    if kind == 'OrdinalDiscretizer': return len(case['ordinal']) > 0
    if kind == 'CategoricalDiscretizer': return any(all(isinstance(v, str) for v in case['X'][f].dropna()) for f in case['qualitative'])
    if kind == 'ContinuousDiscretizer': return len(case['quantitative']) > 0
    return True


def multiclass_case(rng):
    case = zoo.random_case(rng, target='continuous')
    def to_cls(y, labels):
        q = pd.qcut(y.rank(method='first'), len(labels), labels=False)
        return pd.Series([labels[int(i)] for i in q])
    labels = rng.choice([[0, 1, 2], ['a', 'b', 'c'], [10, 2, 33, 4]])
    case['y'] = to_cls(case['y'], labels)
    if case['y_dev'] is not None: case['y_dev'] = to_cls(case['y_dev'], labels)
    case['target'] = 'multiclass'
    return case


def object_specs(rng, n_random, tier, kinds=None, with_tables=True):
    """list of (kind, case, cfg) to build"""
    from rtc.c01_carver import table_cases
    specs = []
    kinds = kinds or ['Discretizer', 'QuantitativeDiscretizer', 'QualitativeDiscretizer', 'BinaryCarver', 'ContinuousCarver']
    for i in range(n_random):
        case = zoo.random_case(rng, degenerate=(zoo.DEGENERATE[(i // 4) % len(zoo.DEGENERATE)] if i % 4 == 3 else False), variants=True)          # every degenerate archetype in turn
        cfg = dict(rng.choice(zoo.CONFIGS)); cfg['min_freq_mod'] = None
        if i % 6 == 5 or i % 10 == 3: cfg['str_nan'] = 'MISSING'; cfg['str_default'] = 'AUTRES'
        if i % 5 == 3: cfg['n_jobs'] = 2                                   # parallel branch (run with an in-process pool, see build)
        if i % 3 == 1:                                                      # training sample with a non-default index (rows of a split): offset or strings
            idx = [j * 2 + 7 for j in range(len(case['X']))] if i % 2 else ['id%03d' % j for j in range(len(case['X']))]
            case['X'].index = idx; case['y'].index = idx
            if case['X_dev'] is not None:
                idx2 = [j * 2 + 1000 for j in range(len(case['X_dev']))]; case['X_dev'].index = idx2; case['y_dev'].index = idx2
        ks = [k for k in kinds if applicable(k, case)]
        if i % 4 == 3:
            # a degenerate column goes through a carver AND a plain discretizer (both when applicable)
            for grp in ([k for k in ks if 'Carver' in k], [k for k in ks if 'Carver' not in k]):
                if grp: specs.append((rng.choice(grp), case, cfg))
            continue
        specs.append((rng.choice(ks), case, cfg))
    if 'MulticlassCarver' in kinds:
        for _ in range(max(2, n_random // 12)):
            cfg = dict(rng.choice(zoo.CONFIGS)); cfg['min_freq_mod'] = None
            specs.append(('MulticlassCarver', multiclass_case(rng), cfg))
    if 'MulticlassCarver' in kinds:
        from rtc.c12_multiclass import table_mc_case
        for i in range(4 if tier == 'quick' else 30):
            specs.append(('MulticlassCarver', table_mc_case(rng, i), dict(min_freq=0.05, max_n_mod=rng.choice([2, 3]), sort_by='tschuprowt', dropna=True, output_dtype='float', min_freq_mod=None)))
    # the utility discretizers used directly get a minimum share of the objects (many-level ordinal rankings included: a re-run of the grouping merges further there)
    for k in ('OrdinalDiscretizer', 'CategoricalDiscretizer', 'ContinuousDiscretizer'):
        if k not in kinds: continue
        for j in range(max(4, n_random // 15)):
            case = zoo.random_case(rng, degenerate=('o_many' if (k == 'OrdinalDiscretizer' and j % 2 == 0) else False), variants=True)
            cfg = dict(rng.choice(zoo.CONFIGS)); cfg['min_freq_mod'] = None
            if applicable(k, case): specs.append((k, case, cfg))
    if with_tables:
        for case, cfg in table_cases(rng, max(10, n_random // 3), tier):
            k = 'BinaryCarver' if case['target'] == 'binary' else 'ContinuousCarver'
            if k in kinds: specs.append((k, case, cfg))
    return specs


def features_of(case):
    return list(case['quantitative']) + list(case['qualitative']) + list(case['ordinal'])


def S(v):
    """string form through which numeric-looking qualitative values are matched (property C04)"""
    if isinstance(v, (float, np.floating)) and float(v).is_integer(): return str(int(v))
    return str(v)


def isnan(v):
    return isinstance(v, (float, np.floating)) and math.isnan(v)


def group_of(obj, f, v):
    """leader of the group of values_orders[f] that holds raw value v (None if unknown / missing with no NaN group)"""
    order = obj.values_orders[f]
    if isnan(v) or v is None:
        for k, vs in order.content.items():
            if obj.str_nan in vs: return k
        return None
    if f in obj.quantitative_features:
        for leader in order:
            if leader != obj.str_nan and v <= leader: return leader
        return None
    for cand in (v, S(v)):
        for k, vs in order.content.items():
            if any((not isnan(x)) and x == cand and type(x) == type(cand) or ((not isnan(x)) and x == cand) for x in vs): return k
    return None


def raw_feature_of(obj, f):
    """column of X that feature f is computed from (MulticlassCarver casts q -> q_<class>)"""
    for raw, cast in obj.features_casting.items():
        if f in cast: return raw
    return f
