"""Bounded relational contracts for C10: the fitted grouping / transform output of a feature does not depend on the other features, on the
listing order of features or columns, on the interpreter's hash seed, nor on n_jobs and the completion order of the workers."""
import hashlib, json, os, subprocess, sys, random, traceback
import numpy as np
import pandas as pd
from rtc import zoo, objects as ob
from rtc.battery import series_list, outcome


def digest_obj(obj, X):
    """order-insensitive description of a fitted object: per feature the ordered groups and the transform output"""
    out = {}
    t = outcome(lambda: obj.transform(X))
    for f in sorted(obj.features):
        o = obj.values_orders[f]
        out[f] = dict(groups=[[repr(v) for v in o.content[l]] for l in o], output=[repr(v) for v in t[1][f].tolist()] if t[0] == 'ok' else t[0])
    return out


class FakeAsync:
    def __init__(self, v): self.v = v
    def get(self, timeout=None): return self.v


class FakePool:
    """a legal multiprocessing.Pool: imap_unordered delivers the results in an arbitrary (here: seeded / reversed) completion order"""
    order_rng = random.Random(0)
    def __init__(self, processes=None): pass
    def __enter__(self): return self
    def __exit__(self, *a): return False
    def imap_unordered(self, fn, it):
        res = [fn(x) for x in it]; FakePool.order_rng.shuffle(res); res.reverse(); return iter(res)
    def imap(self, fn, it): return iter([fn(x) for x in it])
    def map(self, fn, it): return [fn(x) for x in it]
    def apply_async(self, fn, args=(), kwds=None): return FakeAsync(fn(*args, **(kwds or {})))


def patch_pools():
    import AutoCarver.discretizers.utils.quantitative_discretizers as m1, AutoCarver.discretizers.utils.type_discretizers as m2, AutoCarver.discretizers.utils.base_discretizers as m3
    saved = [(m, m.Pool) for m in (m1, m2, m3)]
    for m in (m1, m2, m3): m.Pool = FakePool
    return saved


def unpatch(saved):
    for m, p in saved: m.Pool = p


def build_with(kind, case, cfg, n_jobs=1):
    from AutoCarver.discretizers import Discretizer, QuantitativeDiscretizer, QualitativeDiscretizer
    vo = zoo.values_orders_arg(case); X, y = case['X'], case['y']
    if kind == 'Discretizer':
        o = Discretizer(quantitative_features=list(case['quantitative']), qualitative_features=list(case['qualitative']), ordinal_features=list(case['ordinal']), values_orders=vo, min_freq=cfg['min_freq'], copy=True, n_jobs=n_jobs, **zoo.extra_kwargs(cfg))
    elif kind == 'QuantitativeDiscretizer':
        o = QuantitativeDiscretizer(quantitative_features=list(case['quantitative']), min_freq=cfg['min_freq'], copy=True, n_jobs=n_jobs, **{k: v for k, v in zoo.extra_kwargs(cfg).items() if k == 'str_nan'})
    elif kind == 'QualitativeDiscretizer':
        o = QualitativeDiscretizer(qualitative_features=list(case['qualitative']), ordinal_features=list(case['ordinal']), values_orders=vo, min_freq=cfg['min_freq'], copy=True, n_jobs=n_jobs, **zoo.extra_kwargs(cfg))
    elif kind == 'StringDiscretizer':
        from AutoCarver.discretizers.utils.type_discretizers import StringDiscretizer
        o = StringDiscretizer(qualitative_features=list(case['qualitative']), copy=True, n_jobs=n_jobs, **{k: v for k, v in zoo.extra_kwargs(cfg).items() if k == 'str_nan'})
    elif kind == 'MulticlassCarver':
        from AutoCarver.carvers.multiclass_carver import MulticlassCarver
        o = MulticlassCarver(sort_by=cfg.get('sort_by', 'tschuprowt'), min_freq=cfg['min_freq'], quantitative_features=list(case['quantitative']), qualitative_features=list(case['qualitative']), ordinal_features=list(case['ordinal']),
                             values_orders=vo, max_n_mod=cfg.get('max_n_mod', 4), output_dtype=cfg.get('output_dtype', 'float'), dropna=cfg.get('dropna', True), copy=True, verbose=False, n_jobs=n_jobs)
        o.fit(X, y); return o
    elif kind == 'ChainedDiscretizer':
        from AutoCarver.discretizers.utils.qualitative_discretizers import ChainedDiscretizer
        o = ChainedDiscretizer(qualitative_features=list(case['qualitative']), chained_orders=[{p: list(ch) + [p] for p, ch in lvl.items()} for lvl in case['levels']], min_freq=cfg['min_freq'], copy=True, n_jobs=n_jobs)
    else:
        o = zoo.make_carver(case, cfg); o.n_jobs = n_jobs
        if case['X_dev'] is not None: o.fit(X, y, X_dev=case['X_dev'], y_dev=case['y_dev'])
        else: o.fit(X, y)
        return o
    o.fit(X, y); return o


def sub_case(case, feats):
    c = dict(case)
    c['quantitative'] = [f for f in case['quantitative'] if f in feats]; c['qualitative'] = [f for f in case['qualitative'] if f in feats]; c['ordinal'] = [f for f in case['ordinal'] if f in feats]
    c['values_orders'] = {k: v for k, v in case['values_orders'].items() if k in feats}
    return c


def make_case(rng, i):
    case = zoo.random_case(rng, variants=True, degenerate=False, with_dev=(i % 3 == 0))
    n = len(case['X'])
    # extra features: a second quantitative one, and two id-like categorical ones (dropped: largest modality rarer than min_freq)
    extra = {'q_more': [round(rng.random() * 9, 1) for _ in range(n)], 'c_id1': ['u%d' % (j % (n - 2)) for j in range(n)], 'c_id2': ['v%d' % (j % (n - 3)) for j in range(n)], 'c_id3': ['w%d' % (j % (n - 1)) for j in range(n)]}
    extra['q_epoch'] = [1.7e9 + [0, 1, 2, 3, 50, 51, 52, 1000][int(rng.random() * 8)] + (1 if rng.random() < 0.3 else 0) for _ in range(n)]          # epoch seconds: cuts one unit apart at 1.7e9 (not representable in float32)
    extra['c_numnan'] = [[1, 2.0, 3, 2.0][j % 4] if j % 9 else np.nan for j in range(n)]                       # numeric-looking categories with missing values (StringDiscretizer path)
    for k, v in extra.items():
        case['X'][k] = pd.Series(v, dtype=float if k.startswith('q_') else object)
        if case['X_dev'] is not None: case['X_dev'][k] = pd.Series((v * 2)[:len(case['X_dev'])], dtype=float if k.startswith('q_') else object)
    case['quantitative'] = case['quantitative'] + ['q_more', 'q_epoch']; case['qualitative'] = case['qualitative'] + ['c_id1', 'c_id2', 'c_id3', 'c_numnan']
    return case


def chained_case(rng, i):
    """several features over one hierarchy; some of them so evenly spread that no value reaches min_freq (those features are left untouched)"""
    leaves = ['v%d%d' % (g, j) for g in range(3) for j in range(4)]; levels = [{'G%d' % g: ['v%d%d' % (g, j) for j in range(4)] for g in range(3)}]
    n = 60; cols = {}
    for k in range(5):
        if k in (1, 2, 4): cols['h%d' % k] = [leaves[(j + k) % 12] for j in range(n)]                      # 12 levels, 8.3% each: rejected at min_freq 0.1
        elif k == 0: cols['h%d' % k] = [leaves[min(11, int((j % 10) * 0.9)) if j % 3 else 0] for j in range(n)]     # v00 frequent, group G2 rare
        else: cols['h%d' % k] = [leaves[11 - min(11, int((j % 7) * 1.4)) if j % 4 else 11] for j in range(n)]                 # v23 frequent, group G0 rare: not the same rare leaves as h0
    X = pd.DataFrame({c: pd.Series(v, dtype=object) for c, v in cols.items()})
    return dict(X=X, y=pd.Series([j % 2 for j in range(n)]), X_dev=None, y_dev=None, quantitative=[], qualitative=list(cols), ordinal=[], values_orders={}, target='binary', levels=levels, origin=dict(kind='chained'))


def multiclass_named_case(rng, i):
    """3 classes; two quantitative features 'inc' and 'inc_<class>': the second one is named like the per-class copy the carver builds for the first"""
    n = 150; labels = [[0, 1, 2], ['a', 'b', 'c']][i % 2]; z = [rng.random() for _ in range(n)]
    y = pd.Series([labels[min(2, int(v * 3))] for v in z])
    X = pd.DataFrame({'inc': [round(v * 10 + rng.gauss(0, 2), 1) for v in z], 'inc_%s' % labels[1 + i % 2]: [round((1 - v) * 5 + rng.gauss(0, 1.5), 1) for v in z], 'other': [round(rng.random(), 2) for _ in range(n)]})
    return dict(X=X, y=y, X_dev=None, y_dev=None, quantitative=list(X.columns), qualitative=[], ordinal=[], values_orders={}, target='multiclass', origin=dict(kind='multiclass_named'))


def ushape_specs(rng, n):
    from rtc.c11_invariance import ushape_cases
    return [('BinaryCarver', case, cfg) for case, cfg in ushape_cases(rng, n)]


def one(arg):
    kind, case, cfg, seed = arg
    rng = random.Random(seed); recs = []; lit = dict(kind=kind, cfg=cfg, case=zoo.case_literal(case))
    def rec(clause, ok, msg, extra=None): recs.append((clause, bool(ok), dict(lit, **(extra or {})) if not ok else dict(kind=kind, seed=seed, extra=extra), msg))
    if kind == 'QuantitativeDiscretizer': case = sub_case(case, case['quantitative'])
    if kind == 'QualitativeDiscretizer': case = sub_case(case, case['qualitative'] + case['ordinal'])
    feats = ob.features_of(case)
    try:
        full = build_with(kind, case, cfg); dfull = digest_obj(full, case['X'])
    except Exception as e:
        # refused as a whole: then at least one feature must be refused on its own as well (a feature does not depend on its neighbours)
        alone_ok = []
        for f in feats:
            try: build_with(kind, sub_case(case, [f]), cfg); alone_ok.append(f)
            except Exception: pass
        if len(alone_ok) == len(feats) and feats:
            rec('fit#post.feature_alone_equals_feature_among_others', False, 'every feature is accepted alone but the fit of all of them raised %s: %s' % (type(e).__name__, str(e)[:200]))
        return recs
    # (1) each feature alone
    for f in feats:
        try:
            alone = build_with(kind, sub_case(case, [f]), cfg); dal = digest_obj(alone, case['X'])
        except AssertionError:
            dal = {}
        except Exception as e:
            rec('fit#post.feature_alone_equals_feature_among_others', False, 'feature %s alone: fit raised %s %s' % (f, type(e).__name__, str(e)[:100]), dict(feature=f)); continue
        rec('fit#post.feature_alone_equals_feature_among_others', dal.get(f) == dfull.get(f), 'feature %s: alone %r / among others %r' % (f, str(dal.get(f))[:200], str(dfull.get(f))[:200]), dict(feature=f))
    from rtc.battery import probe_shared
    for okp, msg, B in probe_shared(full, kind, case['X']):
        rec('transform#post.output_of_a_feature_independent_of_other_features_values', okp, msg, dict(feature=B))
    # (1b) a manual edit of ONE feature (missing values grouped with a modality, object built with dropna=False) changes nothing for the other features
    if 'Carver' in kind or kind == 'Discretizer':
        try:
            cfg_e = dict(cfg, dropna=False); edited = build_with(kind, case, cfg_e); d0 = digest_obj(edited, case['X'])
            withnan = [f for f in edited.features if case['X'][f].isna().any() and edited.str_nan in list(edited.values_orders[f])]
            if len(withnan) >= 1 and len(edited.features) >= 2:
                A = withnan[0]; kept = [l for l in edited.values_orders[A] if l != edited.str_nan][0]
                edited.update_discretizer(A, 'group', np.nan, kept); d1 = digest_obj(edited, case['X'])
                bad = [f for f in d0 if f != A and d0[f] != d1.get(f)]
                rec('update_discretizer#post.other_features_keep_their_grouping_and_output', not bad, 'after grouping the missing values of %s with %r the features %r changed' % (A, kept, bad), dict(feature=A))
        except AssertionError: pass
        except Exception as e:
            rec('update_discretizer#post.other_features_keep_their_grouping_and_output', False, 'edit raised %s %s' % (type(e).__name__, str(e)[:100]))
    # (2) reversed feature lists and shuffled columns
    c2 = dict(case); c2['quantitative'] = list(reversed(case['quantitative'])); c2['qualitative'] = list(reversed(case['qualitative'])); c2['ordinal'] = list(reversed(case['ordinal']))
    cols = list(case['X'].columns); rng.shuffle(cols); c2['X'] = case['X'][cols]
    if case['X_dev'] is not None: c2['X_dev'] = case['X_dev'][cols]
    try:
        d2 = digest_obj(build_with(kind, c2, cfg), c2['X'])
        rec('fit#post.independent_of_listing_and_column_order', d2 == dfull, 'features differing: %r' % ([f for f in set(d2) | set(dfull) if d2.get(f) != dfull.get(f)],))
    except Exception as e:
        rec('fit#post.independent_of_listing_and_column_order', False, 'reordered fit raised %s %s' % (type(e).__name__, str(e)[:100]))
    # (3) n_jobs > 1 with a pool that completes in arbitrary order
    saved = patch_pools()
    try:
        for nj in (2, 3):
            FakePool.order_rng = random.Random(seed + nj)
            try:
                par = build_with(kind, case, cfg, n_jobs=nj); dp = digest_obj(par, case['X'])
                rec('fit#post.parallel_equals_sequential', dp == dfull, 'n_jobs=%d: features differing from n_jobs=1: %r' % (nj, [f for f in set(dp) | set(dfull) if dp.get(f) != dfull.get(f)]), dict(n_jobs=nj))
            except Exception as e:
                rec('fit#post.parallel_equals_sequential', False, 'n_jobs=%d raised %s: %s' % (nj, type(e).__name__, str(e)[:150]), dict(n_jobs=nj))
        # (3b) the same on a frame in which a block of rows misses EVERY quantitative feature (a worker must see the same rows as the sequential fit)
        if case['quantitative']:
            X3 = case['X'].copy(); rows = [i for i in range(len(X3)) if rng.random() < 0.15] or [0]
            X3.iloc[rows, [X3.columns.get_loc(f) for f in case['quantitative']]] = np.nan
            c3 = dict(case); c3['X'] = X3
            try: dseq = digest_obj(build_with(kind, c3, cfg), X3)
            except AssertionError: dseq = None
            if dseq is not None:
                FakePool.order_rng = random.Random(seed + 7)
                try:
                    dp = digest_obj(build_with(kind, c3, cfg, n_jobs=2), X3)
                    rec('fit#post.parallel_equals_sequential', dp == dseq, 'rows missing every quantitative feature, n_jobs=2: features differing from n_jobs=1: %r' % ([f for f in set(dp) | set(dseq) if dp.get(f) != dseq.get(f)],), dict(n_jobs=2, all_missing_rows=rows[:20]))
                except Exception as e:
                    rec('fit#post.parallel_equals_sequential', False, 'rows missing every quantitative feature, n_jobs=2 raised %s: %s' % (type(e).__name__, str(e)[:150]), dict(n_jobs=2, all_missing_rows=rows[:20]))
    finally:
        unpatch(saved)
    return recs


def hashseed_digests(seed, tier):
    """run in a sub-process under a given PYTHONHASHSEED: digest of the fitted objects of a fixed list of cases"""
    rng = random.Random(seed); out = []
    n = 10 if tier == 'quick' else 60
    for i in range(n):
        case = make_case(rng, i); cfg = dict(rng.choice(zoo.CONFIGS)); cfg['min_freq_mod'] = None
        kind = ['Discretizer', 'BinaryCarver' if case['target'] == 'binary' else 'ContinuousCarver', 'QualitativeDiscretizer'][i % 3]
        if i % 5 == 4: kind, case, cfg = 'ChainedDiscretizer', chained_case(rng, i), dict(min_freq=0.1)
        c = case if kind != 'QualitativeDiscretizer' else sub_case(case, case['qualitative'] + case['ordinal'])
        try:
            d = digest_obj(build_with(kind, c, cfg), c['X'])
        except Exception as e:
            d = 'raised ' + type(e).__name__
        out.append(hashlib.md5(json.dumps(d, sort_keys=True, default=str).encode()).hexdigest())
    # count tables whose target rate ties exactly between NON-adjacent values (which groups are neighbours must not depend on the hash seed), and a multiclass
    # carver with a feature named like a per-class copy
    for kind, c, cfg in ushape_specs(rng, 6 if tier == 'quick' else 30) + [('MulticlassCarver', multiclass_named_case(rng, j), dict(min_freq=0.1, max_n_mod=3, sort_by='tschuprowt', dropna=True, output_dtype='float')) for j in range(2)]:
        try: d = digest_obj(build_with(kind, c, cfg), c['X'])
        except Exception as e: d = 'raised ' + type(e).__name__
        out.append(hashlib.md5(json.dumps(d, sort_keys=True, default=str).encode()).hexdigest())
    return out


def run(ctx):
    n = 14 if ctx.tier == 'quick' else 120
    specs = []
    for i in range(n):
        case = make_case(ctx.rng, i); cfg = dict(ctx.rng.choice(zoo.CONFIGS)); cfg['min_freq_mod'] = None
        kind = ['Discretizer', 'QuantitativeDiscretizer', 'BinaryCarver' if case['target'] == 'binary' else 'ContinuousCarver', 'QualitativeDiscretizer'][i % 4]
        if i % 3 == 1: cfg['str_nan'] = 'MISSING'; cfg['str_default'] = 'AUTRES'
        specs.append((kind, case, cfg, ctx.seed * 31 + i))
    specs.append(('ChainedDiscretizer', chained_case(ctx.rng, 0), dict(min_freq=0.1), ctx.seed * 31 + 999))

    for j in range(3):
        c = make_case(ctx.rng, 100 + j); c = sub_case(c, [f for f in c['qualitative'] if f in ('c_numnan', 'c_num', 'c_int')])
        specs.append(('StringDiscretizer', c, dict(min_freq=0.1, **({'str_nan': 'MISSING'} if j != 1 else {})), ctx.seed * 31 + 2000 + j))
    ctx.bound('fit / transform', '%d seeded frames with 5-8 features (two or more quantitative, id-like categorical ones that get dropped): each feature alone vs among the others; reversed feature '
              'lists + shuffled columns; n_jobs in {2,3} with a pool delivering imap_unordered results in seeded arbitrary order; PYTHONHASHSEED in {0,1,2,3} in sub-processes' % n)
    for recs in zoo.pmap(one, specs, procs=8):
        for clause, ok, wit, msg in recs: ctx.check(clause, clause.split('#')[0], ok, wit, msg)
    # hash seeds
    env = dict(os.environ); res = {}
    for hs in ('0', '1', '2', '3'):
        env['PYTHONHASHSEED'] = hs
        p = subprocess.run([sys.executable, '-W', 'ignore', '-c', 'import json,sys; sys.path.insert(0, %r); from rtc import c10_independence as m; print("DIGESTS" + json.dumps(m.hashseed_digests(%d, %r)))' % (os.path.dirname(os.path.dirname(os.path.abspath(__file__))), ctx.seed, ctx.tier)],
                           env=env, capture_output=True, text=True)
        line = [l for l in p.stdout.split('\n') if l.startswith('DIGESTS')]
        res[hs] = json.loads(line[0][7:]) if line else 'crash: ' + p.stderr[-300:]
    base = res['0']
    for hs, d in res.items():
        if isinstance(d, str) or isinstance(base, str):
            ctx.check('fit#post.independent_of_hash_seed', 'fit', False, dict(hashseed=hs), str(d)[:300]); continue
        for i, (a, b) in enumerate(zip(base, d)):
            ctx.check('fit#post.independent_of_hash_seed', 'fit', a == b, dict(hashseed=hs, case_index=i, seed=ctx.seed), 'case %d differs between PYTHONHASHSEED=0 and %s' % (i, hs))
