"""Bounded contracts for C17: sequences of valid update_discretizer edits on fitted objects.  After EVERY edit: transform maps the
discarded group's rows to the kept group's label and leaves the grouping of all other rows unchanged ('replace' changes no grouping),
and labels / summary / JSON round trip keep agreeing with transform (clauses shared with C04, C16, C06)."""
import copy, json, math, traceback, random
import numpy as np
import pandas as pd
from rtc import zoo, objects as ob, battery
from rtc.objects import isnan


def partition(out_col):
    groups = {}
    for i, v in enumerate(out_col.tolist()):
        groups.setdefault('__missing__' if isnan(v) else repr(v), []).append(i)
    return sorted(groups.values())


def candidate_edits(obj, case, rng):
    edits = []
    for f in obj.features:
        order = obj.values_orders[f]; leaders = [l for l in order if l != obj.str_nan]
        ordered = f in obj.quantitative_features or f in case['ordinal']
        if len(leaders) >= 2:
            if f in obj.quantitative_features:
                pairs = [(leaders[i], leaders[i + 1]) for i in range(len(leaders) - 1)]            # merge a bucket into the next higher one
            elif ordered:
                pairs = [(leaders[i], leaders[i + 1]) for i in range(len(leaders) - 1)] + [(leaders[i + 1], leaders[i]) for i in range(len(leaders) - 1)]
            else:
                pairs = [(a, b) for a in leaders for b in leaders if a != b]
            for d, k in pairs: edits.append((f, 'group', d, k))
        if f not in obj.quantitative_features:
            for l in leaders:
                # 'replace': the leader `l` is replaced by a NEW name (the docstring: discarded_value will be replaced by kept_value)
                if isinstance(l, str) and l != obj.str_default: edits.append((f, 'replace', l, 'renamed_%s' % l))
        if order.contains(obj.str_nan) and order.get_group(obj.str_nan) == obj.str_nan and leaders:
            edits.append((f, 'group', float('nan'), rng.choice(leaders)))
            if not ordered: edits.append((f, 'replace', float('nan'), rng.choice([l for l in leaders if isinstance(l, str)] or leaders)))          # (categorical features only: on an ordered feature this moves the modality to the place of the missing values)     # the other way of attaching the missing values to a modality
    return edits


def one(arg):
    kind, case, cfg, seed, depth = arg
    rng = random.Random(seed); recs = []
    lit = dict(kind=kind, cfg=cfg, case=zoo.case_literal(case))
    try:
        obj = ob.build(kind, case, cfg)
    except Exception:
        return recs
    history = []
    def rec(clause, ok, msg, extra=None):
        w = dict(lit, edits=[list(map(lambda x: None if isnan(x) else x, e)) for e in history], **(extra or {}))
        recs.append((clause, bool(ok), w if not ok else dict(kind=kind, cfg=cfg, edits=w['edits'], h=hash(json.dumps(lit['case'], sort_keys=True, default=str))), msg))
    try:
        before = obj.transform(case['X'])
    except Exception:
        return recs
    for step in range(depth):
        cands = candidate_edits(obj, case, rng)
        if not cands: break
        falsy = [c_ for c_ in cands if (c_[2] == '' and c_[1] == 'replace' and len(obj.values_orders[c_[0]].content.get('', [])) > 1) or (c_[3] == '' and c_[1] == 'group')]
        f, mode, d, k = rng.choice(falsy) if falsy else rng.choice(cands)          # edits around an empty-string leader first: group something into it, then rename it
        history.append((f, mode, d, k))
        order0 = obj.values_orders[f]
        d_eff = obj.str_nan if isnan(d) else d
        rows_d = [i for i, v in enumerate(case['X'][ob.raw_feature_of(obj, f)].tolist()) if ob.group_of(obj, f, v) == order0.get_group(d_eff)]
        rows_k = [i for i, v in enumerate(case['X'][ob.raw_feature_of(obj, f)].tolist()) if ob.group_of(obj, f, v) == order0.get_group(k)] if mode == 'group' else []
        rows_k_replace = [i for i, v in enumerate(case['X'][ob.raw_feature_of(obj, f)].tolist()) if (not isnan(v)) and ob.group_of(obj, f, v) == order0.get_group(k)] if (mode == 'replace' and isnan(d)) else []
        try:
            obj.update_discretizer(f, mode, d, k)
        except Exception as e:
            rec('C17:update_discretizer#raises.nothing_on_valid_edit', False, 'update_discretizer(%r, %r, %r, %r) raised %s: %s' % (f, mode, d, k, type(e).__name__, str(e)[:150])); break
        rec('C17:update_discretizer#raises.nothing_on_valid_edit', True, '')
        try:
            after = obj.transform(case['X'])
        except Exception as e:
            rec('C17:transform#post.accepts_training_data_after_edit', False, 'transform after edit raised %s: %s' % (type(e).__name__, str(e)[:150])); break
        # grouping of the rows of feature f: before-partition with the two groups merged (group) / unchanged (replace); other features unchanged
        pb, pa = partition(before[f]), partition(after[f])
        if mode == 'group' or isnan(d):
            if mode == 'replace': rows_k = [i for i, v in enumerate(case['X'][ob.raw_feature_of(obj, f)].tolist()) if ob.group_of(obj, f, v) == order0.get_group(k)] if False else rows_k_replace
            merged = sorted(set(rows_d) | set(rows_k))
            exp = sorted([g for g in pb if not (set(g) & set(merged))] + ([merged] if merged else []))
            # rows that were missing and stay missing (dropna=False, edit not about NaN) are their own class in both
            rec('C17:update_discretizer#post.discarded_rows_get_kept_label_others_unchanged', pa == exp, 'feature %s after %r: row partition is not the previous one with the two groups merged' % (f, history[-1]), dict(feature=f))
            if rows_d and rows_k:
                la = set(map(repr, after[f].iloc[rows_d].tolist())) | set(map(repr, after[f].iloc[rows_k].tolist()))
                rec('C17:update_discretizer#post.discarded_rows_get_kept_label_others_unchanged', len(la) == 1 and not any(isnan(v) for v in after[f].iloc[rows_d].tolist()),
                    'feature %s after %r: rows of the discarded group have labels %r' % (f, history[-1], la), dict(feature=f))
        else:
            rec('C17:update_discretizer#post.replace_only_renames', pa == pb, 'feature %s after %r: grouping of rows changed by a replace' % (f, history[-1]), dict(feature=f))
            if obj.output_dtype == 'str' and rows_d:
                rec('C17:update_discretizer#post.replace_only_renames', set(after[f].iloc[rows_d].tolist()) == {k}, 'feature %s: rows of the renamed group are labelled %r, expected %r' % (f, set(after[f].iloc[rows_d].tolist()), k), dict(feature=f))
        for g in obj.features:
            if g != f: rec('C17:update_discretizer#frame.other_features_unchanged', partition(before[g]) == partition(after[g]), 'feature %s changed by an edit of %s' % (g, f), dict(feature=g))
        # labels / summary / JSON keep agreeing with transform
        sub = []
        def rec2(clause, ok, msg, extra=None):
            p, cl = clause.split(':', 1)
            rec('C17:after_edit.' + cl, ok, msg, extra)
        try:
            battery.c04(obj, kind, case, cfg, rec2)
            battery.c16(obj, kind, case, cfg, lambda c, ok, m, e=None: rec2(c, ok, m, e) if 'history' not in c else None)
            battery.c06(obj, kind, case, cfg, rec2, rng)
        except Exception as e:
            recs.append(('X:battery_crash', False, lit, 'c17 shared clauses crashed: ' + traceback.format_exc()[-600:]))
        before = after
    return recs


def run(ctx):
    n = 60 if ctx.tier == 'quick' else 600
    specs = ob.object_specs(ctx.rng, n, ctx.tier, kinds=['BinaryCarver', 'ContinuousCarver', 'Discretizer'], with_tables=False)
    depth = 2 if ctx.tier == 'quick' else 3
    ctx.bound('update_discretizer', '%d fitted carvers / discretizers (seeded random frames), seeded random sequences of %d valid edits each (replace = rename of a leader by a new name): group of adjacent leaders (ordered features; '
              'quantitative: lower bucket into the next higher one), any two leaders (categorical), rename of a string leader, missing values into an existing group' % (len(specs), depth))
    # every fourth frame gets an EMPTY-STRING category (frequent enough to be a modality of its own): a falsy value must be edited like any other
    for i, (k, c, cfg) in enumerate(specs):
        if i % 4 == 1 and c['qualitative']:
            f0 = c['qualitative'][0]; col = c['X'][f0].copy()
            if col.dtype == object:
                idx = [j for j in range(len(col)) if j % 4 == 0]
                for j in idx: col.iloc[j] = ''
                c['X'][f0] = col
    args = [(k, c, cfg, ctx.seed * 7919 + i, depth) for i, (k, c, cfg) in enumerate(specs)]
    for recs in zoo.pmap(one, args):
        for clause, ok, wit, msg in recs:
            p, cl = clause.split(':', 1)
            if p == 'X': ctx.fail('battery#crash', 'battery', wit, msg); continue
            ctx.check(cl, 'update_discretizer', ok, wit, msg)
