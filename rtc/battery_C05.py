"""bounded clauses of C05 on fitted objects (see rtc/battery.py)"""
from rtc import battery
ALL = ['Discretizer', 'QuantitativeDiscretizer', 'QualitativeDiscretizer', 'BinaryCarver', 'ContinuousCarver', 'MulticlassCarver', 'OrdinalDiscretizer', 'CategoricalDiscretizer', 'ContinuousDiscretizer']
def run(ctx):
    battery.run_battery(ctx, {'C05'}, kinds=ALL)
