"""bounded clauses of C04 on fitted objects (see rtc/battery.py)"""
from rtc import battery
ALL = ['Discretizer', 'QuantitativeDiscretizer', 'QualitativeDiscretizer', 'BinaryCarver', 'ContinuousCarver', 'MulticlassCarver', 'OrdinalDiscretizer', 'CategoricalDiscretizer', 'ContinuousDiscretizer']
from rtc import zoo


def coded(seed):
    """features stored as small integer / float codes (ordinal with a pre-grouped ranking on the string forms, and plain categorical), float and str output: every
    training row gets the label of the group that holds (the string form of) its value -- for 'float' the rank of that group in the fitted order"""
    import random
    import numpy as np, pandas as pd
    from AutoCarver.discretizers import GroupedList
    from AutoCarver.carvers.binary_carver import BinaryCarver
    from rtc.battery_C03 import coded_ordinal
    recs = []
    # (a) the ordinal cases of C03, judged on the mapping
    for clause, ok, wit, msg in coded_ordinal(seed):
        if clause.endswith('ordinal_float_output_monotone_in_rank'): recs.append(('C04:transform#post.label_of_the_group_containing_the_value', ok, wit, msg))
    # (b) a categorical feature with codes 0..k-1 whose target rate DEcreases with the code (ranks and codes run against each other), float and str output
    rng = random.Random(seed); k = rng.choice([4, 5, 6]); n = rng.choice([200, 300]); col = [rng.randrange(k) for _ in range(n)]
    y = pd.Series([int(rng.random() < 0.85 - 0.15 * c) for c in col]); X = pd.DataFrame({'c': pd.Series(col, dtype=object if seed % 2 else 'int64')})
    for od in ('float', 'str'):
        wit = dict(which='coded_categorical', column=col, target=y.tolist(), output_dtype=od, stored_as=str(X['c'].dtype))
        try:
            o = BinaryCarver(sort_by='tschuprowt', min_freq=0.05, quantitative_features=[], qualitative_features=['c'], ordinal_features=[], max_n_mod=4, output_dtype=od, dropna=True, copy=True, verbose=False); o.fit(X, y)
            out = o.transform(X)['c'].tolist()
        except AssertionError: continue
        except Exception as e:
            recs.append(('C04:transform#post.training_rows_accepted', False, wit, 'coded categorical feature: %s: %s' % (type(e).__name__, str(e)[:150]))); continue
        if 'c' not in o.features: continue
        order = o.values_orders['c']; bad = []
        for c, got in zip(col, out):
            gi = [i for i, l in enumerate(order) if str(c) in [str(m) for m in order.content[l]]]
            exp = (float(gi[0]) if od == 'float' else list(order)[gi[0]]) if gi else None
            if exp is None or not (got == exp): bad.append((c, got, exp))
        recs.append(('C04:transform#post.label_of_the_group_containing_the_value', not bad, wit, 'coded categorical feature, output %s: (code, output, label of its group) %r, fitted order %r' % (od, bad[:4], dict(order.content))))
    return recs


def run(ctx):
    battery.run_battery(ctx, {'C04'}, kinds=ALL)
    n = 12 if ctx.tier == 'quick' else 120
    ctx.bound('coded features', '%d ordinal / categorical features stored as small integer or float codes (pre-grouped rankings on the string forms, ranks running against the codes), float and str output' % n)
    for recs in zoo.pmap(coded, [ctx.seed * 23 + i for i in range(n)]):
        for clause, ok, wit, msg in recs:
            if clause.startswith('C04:'): ctx.check(clause[4:], clause[4:].split('#')[0], ok, wit, msg)
