"""Bounded contracts for C09 (and the quantile clauses of C08 / C03): find_quantiles at function level (exhaustive over count vectors),
and the min_freq guarantees of the fitted Discretizer family."""
import itertools, math, traceback
import numpy as np
import pandas as pd
from rtc import zoo, objects as ob
from rtc.objects import isnan


def count_vectors(n_values, total_max, with_nan):
    """all count vectors (c_1..c_k, c_nan) with 1 <= sum <= total_max"""
    k = n_values + (1 if with_nan else 0)
    for total in range(1, total_max + 1):
        for cuts in itertools.combinations(range(total + k - 1), k - 1):
            parts = []; prev = -1
            for c in cuts + (total + k - 1,):
                parts.append(c - prev - 1); prev = c
            yield parts


def check_find_quantiles(ctx, values, counts, nan_count, q, props):
    from AutoCarver.discretizers.utils.quantitative_discretizers import find_quantiles
    arr = np.array([v for v, c in zip(values, counts) for _ in range(c)] + [np.nan] * nan_count, dtype=float)
    w = dict(values=list(values), counts=list(counts), nan=nan_count, q=q)
    try:
        res = find_quantiles(arr, q=q)
    except Exception as e:
        for p in props:
            ctx.check('find_quantiles#raises.nothing', 'find_quantiles', False, w, 'find_quantiles raised %s: %s' % (type(e).__name__, str(e)[:120]))
        return
    res = [float(r) for r in res]; n = len(arr); thr = n / q
    strict = all(a < b for a, b in zip(res, res[1:]))
    observed = set(v for v, c in zip(values, counts) if c > 0)
    ctx.check('find_quantiles#post.strictly_increasing', 'find_quantiles', strict, w, 'boundaries %r' % (res,))
    ctx.check('find_quantiles#post.observed_values', 'find_quantiles', all(r in observed for r in res), w, 'boundaries %r not all observed (%r)' % (res, sorted(observed)))
    if 'C09' in props:
        frequent = [v for v, c in zip(values, counts) if c > 0 and c >= thr]
        ctx.check('find_quantiles#post.frequent_values_are_boundaries', 'find_quantiles', all(v in res for v in frequent), w, 'values %r hold >= len/q rows but boundaries are %r' % (frequent, res))
        # buckets (prev, b] and the last one (b_last, +inf): a bucket without a frequent value holds at most 2.5 * len/q rows
        bounds = sorted(set(res)) + [float('inf')]; prev = -float('inf'); bad = None
        for b in bounds:
            inside = [(v, c) for v, c in zip(values, counts) if c > 0 and prev < v <= b]
            if inside and not any(v in frequent for v, _ in inside) and sum(c for _, c in inside) > 2.5 * thr: bad = (prev, b, sum(c for _, c in inside))
            prev = b
        ctx.check('find_quantiles#post.bucket_without_frequent_value_at_most_2.5_min_freq', 'find_quantiles', bad is None, w, 'bucket %r holds too many rows (len/q = %.3f), boundaries %r' % (bad, thr, res))
        if sum(counts) > 0:
            ctx.check('find_quantiles#post.at_least_one_boundary', 'find_quantiles', len(res) >= 1 or sum(counts) == 0, w, 'no boundary for a non-empty column')


def quantile_scope(ctx, props):
    vals = [0.0, 1.0, 2.5, 3.0, 7.0]
    tmax = 9 if ctx.tier == 'quick' else 12
    qs = [2, 3, 4, 5, 10] if ctx.tier == 'quick' else [2, 3, 4, 5, 7, 10, 20]
    ctx.bound('find_quantiles', 'EXHAUSTIVE over all count vectors on the values %r plus a NaN count with 1 <= rows <= %d, q in %r (row order is irrelevant to the function); '
              'plus seeded random larger arrays (up to 120 rows, heavy ties, spikes exactly on len/q)' % (vals, tmax, qs))
    for cv in count_vectors(len(vals), tmax, True):
        for q in qs:
            check_find_quantiles(ctx, vals, cv[:-1], cv[-1], q, props)
    rng = ctx.rng
    for _ in range(1500 if ctx.tier == 'quick' else 15000):
        q = rng.choice([4, 5, 10, 20]); n = rng.choice([20, 31, 40, 60, 100, 120])
        k = rng.choice([3, 6, 11, 25]); values = sorted(set(round(rng.random() * 50, 1) for _ in range(k)))
        counts = [0] * len(values)
        spike = rng.random() < 0.5
        nan_count = rng.choice([0, 0, 3, n // 7])
        rows = n - nan_count
        if spike:
            i = rng.randrange(len(values)); counts[i] = min(rows, int(math.ceil(n / q)) + rng.choice([-1, 0, 0, 1])); rows -= counts[i]
        for _ in range(rows): counts[rng.randrange(len(values))] += 1
        check_find_quantiles(ctx, values, counts, nan_count, q, props)


# ----------------------------------------------------------------------------------------------- fitted Discretizer family
def one_fit(arg):
    kind, case, cfg, seed = arg
    recs = []; lit = dict(kind=kind, cfg=cfg, case=zoo.case_literal(case))
    def rec(clause, ok, msg, extra=None): recs.append((clause, bool(ok), dict(lit, **(extra or {})) if not ok else dict(kind=kind, cfg=cfg, h=hash(str(lit['case'])), extra=extra), msg))
    custom = 'str_nan' in cfg or 'str_default' in cfg
    def default_twin():
        c2 = {k: v for k, v in cfg.items() if k not in ('str_nan', 'str_default')}
        try: return ob.build(kind, case, c2)
        except AssertionError: return 'reject'
        except Exception: return 'error'
    try:
        obj = ob.build(kind, case, cfg)
    except AssertionError as e:
        # the spelling of the two markers is not information: a sample accepted with the default markers is accepted with custom ones
        if custom and not isinstance(default_twin(), str):
            rec('fit#post.base_modalities_do_not_depend_on_the_spelling_of_the_markers', False, '%s.fit accepts the sample with the default markers but raises with %r: %s' % (kind, {k: cfg[k] for k in ('str_nan', 'str_default') if k in cfg}, str(e)[:200]))
        return recs
    except Exception as e:
        rec('fit#raises.only_AssertionError', False, '%s.fit raised %s: %s' % (kind, type(e).__name__, str(e)[:200])); return recs
    if custom:
        tw = default_twin()
        if not isinstance(tw, str):
            ren = {tw.str_nan: obj.str_nan, tw.str_default: obj.str_default}
            part = lambda o, r: {f: sorted(sorted(repr(r.get(v, v) if isinstance(v, str) else v) for v in vs) for vs in o.values_orders[f].content.values()) for f in o.features}
            a, b = part(obj, {}), part(tw, ren)
            rec('fit#post.base_modalities_do_not_depend_on_the_spelling_of_the_markers', a == b, 'custom markers give %r, default markers %r' % ({f: a[f] for f in a if a.get(f) != b.get(f)}, {f: b[f] for f in b if a.get(f) != b.get(f)}))
        else:
            rec('fit#post.base_modalities_do_not_depend_on_the_spelling_of_the_markers', False, 'accepted with custom markers, %s with the default ones' % tw)
    X = case['X']; n = len(X); mf = cfg['min_freq']
    try: out = obj.transform(X)
    except Exception as e:
        rec('transform#post.training_rows_accepted', False, 'transform raised %s %s' % (type(e).__name__, str(e)[:100])); return recs
    for f in obj.features:
        order = obj.values_orders[f]; col = X[f]; nan_lab = obj.labels_per_values[f].get(obj.str_nan)
        has_nan = bool(col.isna().any())
        # missing values always remain a separate modality
        if has_nan:
            ok = order.contains(obj.str_nan) and order.get_group(obj.str_nan) == obj.str_nan and list(order.content[obj.str_nan]) == [obj.str_nan]
            rec('fit#post.missing_values_remain_a_separate_modality', ok, 'feature %s: NaN group is %r' % (f, order.content.get(order.get_group(obj.str_nan))), dict(feature=f))
        labs = out[f][col.notna()]
        counts = labs.value_counts()
        if f in obj.quantitative_features:
            nb = len([l for l in order if l != obj.str_nan])
            # every bucket (also an empty one) is counted
            # counted on the raw values against the fitted boundaries (right-closed intervals), not through the labels
            bounds = [float(l) for l in order if l != obj.str_nan]; xv = col.dropna().astype(float).values; sizes = {}; prev = -np.inf
            for b_ in bounds:
                sizes[repr(b_)] = int(((xv > prev) & (xv <= b_)).sum()); prev = b_
            ok = nb <= 1 or all(c / n >= mf / 2 for c in sizes.values())
            rec('fit#post.quantitative_bucket_at_least_half_min_freq', ok, 'feature %s: bucket sizes %r of %d rows, min_freq/2=%.4f' % (f, sizes, n, mf / 2), dict(feature=f))
            if kind == 'ContinuousDiscretizer' or True:
                leaders = [float(l) for l in order if l != obj.str_nan]
                rec('fit#post.boundaries_increasing_then_inf', all(a < b for a, b in zip(leaders, leaders[1:])) and leaders[-1] == float('inf'), 'feature %s: %r' % (f, leaders), dict(feature=f))
        elif f in case['ordinal']:
            sizes = {repr(l): 0 for l in order if l != obj.str_nan}
            for l, c in counts.items(): sizes[repr(l)] = c
            nb = len(sizes)
            ok = nb <= 1 or all(c / n >= mf for c in sizes.values())
            rec('fit#post.ordinal_bucket_at_least_min_freq', ok, 'feature %s: bucket sizes %r of %d rows, min_freq=%.3f' % (f, sizes, n, mf), dict(feature=f))
        else:
            # categorical: a value is in the default group iff it is rarer than min_freq
            vc = col.dropna().map(lambda v: ob.S(v)).value_counts()
            bad = []
            for v, c in vc.items():
                g = None
                for k, vs in order.content.items():
                    if v in vs: g = k
                in_default = (g == obj.str_default)
                if in_default != (c / n < mf): bad.append((v, c, g))
            rec('fit#post.categorical_default_group_iff_rarer_than_min_freq', not bad, 'feature %s: (value, count, group) %r with %d rows, min_freq=%.3f' % (f, bad[:4], n, mf), dict(feature=f))
    return recs


def fitted_scope(ctx, props):
    n = 100 if ctx.tier == 'quick' else 1000
    specs = []
    for i in range(n):
        case = zoo.random_case(ctx.rng, variants=True, degenerate=(zoo.DEGENERATE[(i // 5) % len(zoo.DEGENERATE)] if i % 5 == 4 else False))          # every degenerate archetype in turn
        # falsy category values on purpose (the code base uses any(list) as an emptiness test)
        if case['qualitative'] and i % 3 == 0:
            c = case['qualitative'][0]; col = case['X'][c].copy(); idx = [j for j in range(len(col)) if j % 17 == 0][:2]
            for j in idx: col.iloc[j] = ''
            case['X'][c] = col
        cfg = dict(min_freq=ctx.rng.choice([0.05, 0.1, 0.2, 0.25, 0.34, 0.5]), max_n_mod=3, sort_by='tschuprowt', dropna=True, output_dtype='str')
        if i % 4 == 1: cfg['str_default'] = 'AUTRES'; cfg['str_nan'] = 'MISSING'
        kinds = [k for k in ('Discretizer', 'QuantitativeDiscretizer', 'QualitativeDiscretizer') if ob.applicable(k, case)]
        if i % 5 == 4:
            for k_ in kinds: specs.append((k_, case, cfg, i))          # a degenerate column goes through every applicable class
            continue
        specs.append((ctx.rng.choice(kinds), case, cfg, i))
    # over-represented values one ulp apart with a rare value in between (a ratio equal to 1.0 up to floating-point noise, amounts around 1e15): the rare value is a
    # quantile of its own after ContinuousDiscretizer and must then be merged with a neighbour -- through interval labels that need 17 significant digits
    for j in range(6 if ctx.tier == 'quick' else 40):
        base = [1.0, 1.0e15, 3.0, 0.1][j % 4]; v1 = float(np.nextafter(base, np.inf)); v2 = float(np.nextafter(v1, np.inf)); far = base * 2
        m = ctx.rng.choice([200, 400, 1000]); rare = max(1, int(m * ctx.rng.choice([0.03, 0.04])))
        vals = [base] * int(m * 0.3) + [v1] * rare + [v2] * (m - int(m * 0.3) - int(m * 0.3) - rare) + [far] * int(m * 0.3)
        ctx.rng.shuffle(vals)
        Xu = pd.DataFrame({'q_noise': pd.Series(vals, dtype=float)}); yu = pd.Series([int(ctx.rng.random() < 0.4) for _ in range(m)])
        case_u = dict(X=Xu, y=yu, X_dev=None, y_dev=None, quantitative=['q_noise'], qualitative=[], ordinal=[], values_orders={}, target='binary', origin=dict(kind='ulp_sandwich'))
        for k_ in ('QuantitativeDiscretizer', 'Discretizer'):
            specs.append((k_, case_u, dict(min_freq=0.1, max_n_mod=3, sort_by='tschuprowt', dropna=True, output_dtype=['str', 'float'][j % 2]), 5000 + j))
    # a large share of missing values, a spike, a few rows below the spike (a rare bucket of its own after ContinuousDiscretizer) and a continuous tail above it:
    # bucket frequencies are shares of ALL rows (missing ones included), so the rare bucket must be merged
    for j in range(6 if ctx.tier == 'quick' else 40):
        m = ctx.rng.choice([200, 300, 500]); nan_share = ctx.rng.choice([0.3, 0.4, 0.5]); n_nan = int(m * nan_share); n_rare = max(2, int(m * 0.035)); n_spike = int(m * 0.25)
        vals = [float('nan')] * n_nan + [1.0 + 0.01 * i for i in range(n_rare)] + [5.0] * n_spike + [5.5 + 10 * ctx.rng.random() for _ in range(m - n_nan - n_rare - n_spike)]
        ctx.rng.shuffle(vals)
        Xu = pd.DataFrame({'q_gap': pd.Series(vals, dtype=float)}); yu = pd.Series([int(ctx.rng.random() < 0.4) for _ in range(m)])
        case_u = dict(X=Xu, y=yu, X_dev=None, y_dev=None, quantitative=['q_gap'], qualitative=[], ordinal=[], values_orders={}, target='binary', origin=dict(kind='nan_share_rare_bucket'))
        for k_ in ('QuantitativeDiscretizer', 'Discretizer'):
            specs.append((k_, case_u, dict(min_freq=0.1, max_n_mod=3, sort_by='tschuprowt', dropna=True, output_dtype=['str', 'float'][j % 2]), 6000 + j))
    ctx.bound('Discretizer family fit', '%d seeded random frames (incl. degenerate columns, empty-string categories, never-observed ordinal values), min_freq in {0.05,0.1,0.2,0.25,0.34,0.5}' % n)
    for recs in zoo.pmap(one_fit, specs):
        for clause, ok, wit, msg in recs: ctx.check(clause, clause.split('#')[0], ok, wit, msg)


def continuous_scope(ctx):
    """ContinuousDiscretizer itself (min_freq -> q): boundaries strictly increasing observed values then +inf; every value at least as frequent as min_freq is a boundary"""
    from AutoCarver.discretizers.utils.quantitative_discretizers import ContinuousDiscretizer
    rng = ctx.rng; n_cases = 400 if ctx.tier == 'quick' else 4000
    ctx.bound('ContinuousDiscretizer.fit', '%d seeded columns of 20-1000 rows with one spike whose frequency is placed just below / on / above min_freq, min_freq in {0.05,0.1,0.15,0.2,0.3,0.35,0.45,0.5}, optional NaN' % n_cases)
    for _ in range(n_cases):
        mf = rng.choice([0.05, 0.1, 0.15, 0.2, 0.3, 0.35, 0.45, 0.5]); n = rng.choice([20, 40, 50, 100, 200, 400, 1000])
        c = max(1, min(n, int(round(mf * n)) + rng.choice([-1, 0, 0, 1, 2])))
        nan_count = rng.choice([0, 0, n // 10, 1]); rest = n - c - nan_count          # (1: a single missing row, a share as low as 0.1%, still is a modality of its own)
        if rest < 0: continue
        vals = [5.0] * c + [round(rng.random() * 10, 3) + (0 if rng.random() < 0.5 else 6) for _ in range(rest)] + [np.nan] * nan_count
        rng.shuffle(vals)
        X = pd.DataFrame({'q': pd.Series(vals, dtype=float)}); w = dict(min_freq=mf, values=[None if isnan(v) else v for v in vals])
        try:
            d = ContinuousDiscretizer(quantitative_features=['q'], min_freq=mf, copy=True); d.fit(X, pd.Series([i % 2 for i in range(n)]))
        except AssertionError: continue
        except Exception as e:
            ctx.check('ContinuousDiscretizer.fit#raises.only_AssertionError', 'ContinuousDiscretizer.fit', False, w, '%s: %s' % (type(e).__name__, str(e)[:120])); continue
        order = d.values_orders['q']; leaders = [float(l) for l in order if l != d.str_nan]; w = dict(w, boundaries=[l for l in leaders if l != float('inf')])
        vc = X['q'].value_counts()
        ctx.check('ContinuousDiscretizer.fit#post.boundaries_strictly_increasing_observed_then_inf', 'ContinuousDiscretizer.fit',
                  all(a < b for a, b in zip(leaders, leaders[1:])) and leaders[-1] == float('inf') and all(l in vc.index for l in leaders[:-1]), w, 'boundaries %r' % (leaders,))
        frequent = [float(v) for v, k in vc.items() if k / n >= mf]
        ctx.check('ContinuousDiscretizer.fit#post.values_at_least_min_freq_frequent_are_boundaries', 'ContinuousDiscretizer.fit', all(v in leaders for v in frequent), w,
                  'values %r hold >= min_freq=%.3f of the %d rows but boundaries are %r' % (frequent, mf, n, leaders))
        ctx.check('ContinuousDiscretizer.fit#post.nan_is_separate_modality', 'ContinuousDiscretizer.fit', (nan_count > 0) == order.contains(d.str_nan), w, 'NaN modality')


def run(ctx):
    quantile_scope(ctx, {ctx.prop})
    if ctx.prop == 'C09': continuous_scope(ctx)
    if ctx.prop == 'C09': fitted_scope(ctx, {ctx.prop})
