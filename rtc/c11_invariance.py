"""Bounded relational contracts for C11: information-preserving re-encodings leave unchanged which features are kept and the partition of
the rows induced by transform: row permutations (with their index), index relabelling, exact affine maps of quantitative features
(a a power of two, b a small integer), order-preserving renaming of categories."""
import random, math, traceback
import numpy as np
import pandas as pd
from rtc import zoo, objects as ob
from rtc.c01_carver import table_cases, random_cases
from rtc.battery import outcome
from rtc.objects import isnan


def row_partition(col):
    g = {}
    for i, v in enumerate(col):
        g.setdefault('__missing__' if isnan(v) else repr(v), []).append(i)
    return sorted(g.values())


def fingerprint(case, cfg, rows=None, rename=None):
    """kept features + per kept feature the partition of the ORIGINAL row positions induced by transform (rows: position of each row of
    the re-encoded frame in the original frame)"""
    try:
        c = zoo.fit_carver(case, cfg); out = c.transform(case['X'])
    except AssertionError: return 'rejected'
    except Exception as e: return 'error:%s:%s' % (type(e).__name__, str(e)[:80])
    fp = {}
    for f in c.features:
        part = row_partition(out[f].tolist())
        if rows is not None: part = sorted(sorted(rows[i] for i in g) for g in part)
        fp[f] = part
    return fp


def rename_map(values):
    if values and all(isinstance(v, (int, np.integer)) and not isinstance(v, bool) for v in values):
        return {v: int(v) * 10 + 5000 for v in set(values)}                      # integer codes: an increasing map (codes that can no longer be mistaken for ranks)
    names = sorted(set(v for v in values if isinstance(v, str)))
    return {v: 'n%03d_%s' % (i, v[::-1]) for i, v in enumerate(names)}           # sorted order of the new names == sorted order of the old ones


def variants(case, rng):
    X, y = case['X'], case['y']; n = len(X); out = []
    perm = list(range(n)); rng.shuffle(perm)
    def with_rows(p, idx=None):
        c = dict(case); c['X'] = X.iloc[p].copy(); c['y'] = y.iloc[p].copy()
        if idx is not None: c['X'].index = idx; c['y'].index = idx
        return c
    out.append(('row_permutation', with_rows(perm), perm))
    out.append(('row_reversal', with_rows(list(reversed(range(n)))), list(reversed(range(n)))))
    out.append(('index_offset', with_rows(list(range(n)), [i + 1000 for i in range(n)]), None))
    out.append(('index_shuffled_ints', with_rows(list(range(n)), perm), None))
    out.append(('index_strings', with_rows(list(range(n)), ['r%04d' % i for i in range(n)]), None))
    if case['quantitative']:
        for a, b in ((2.0, 0.0), (1.0, 1.0), (1.0, -1.0), (0.5, 3.0), (4.0, -2.0), (5.0, 0.0), (3.0, 7.0), (8.0, 1.0), (1.0, 10.0), (1.0, float(2 ** 44)), (0.125, -float(2 ** 40))):
            c = dict(case); c['X'] = X.copy()
            for q in case['quantitative']: c['X'][q] = X[q] * a + b
            if case['X_dev'] is not None:
                c['X_dev'] = case['X_dev'].copy()
                for q in case['quantitative']: c['X_dev'][q] = case['X_dev'][q] * a + b
            exact = all(((X[q] * a + b - b) / a).fillna(0).tolist() == X[q].fillna(0).tolist() for q in case['quantitative'])
            if exact: out.append(('affine_a%g_b%g' % (a, b), c, None))
    quali = list(case['qualitative']) + list(case['ordinal'])
    if quali:
        c = dict(case); c['X'] = X.copy(); c['values_orders'] = dict(case['values_orders'])
        if case['X_dev'] is not None: c['X_dev'] = case['X_dev'].copy()
        ok = True
        for f in quali:
            vals = list(X[f].dropna().tolist()) + list(case['values_orders'].get(f, [])) + (list(case['X_dev'][f].dropna().tolist()) if case['X_dev'] is not None else [])
            if not (all(isinstance(v, str) for v in vals) or all(isinstance(v, (int, np.integer)) and not isinstance(v, bool) for v in vals)): ok = False; break
            m = rename_map(vals)
            c['X'][f] = X[f].map(lambda v: m.get(v, v))
            if case['X_dev'] is not None: c['X_dev'][f] = case['X_dev'][f].map(lambda v: m.get(v, v))
            if f in case['values_orders']: c['values_orders'][f] = [m[v] for v in case['values_orders'][f]]
        if ok: out.append(('order_preserving_category_renaming', c, None))
    return out


def one(arg):
    case, cfg, seed = arg
    rng = random.Random(seed); recs = []; lit = dict(cfg=cfg, case=zoo.case_literal(case))
    base = fingerprint(case, cfg)
    if not isinstance(base, dict): return recs
    for name, c2, rows in variants(case, rng):
        fp = fingerprint(c2, cfg, rows=rows)
        ok = fp == base
        if not ok:
            if isinstance(fp, dict): detail = 'kept %r vs %r; features with a different row partition: %r' % (sorted(fp), sorted(base), [f for f in set(fp) & set(base) if fp[f] != base[f]])
            else: detail = str(fp)
        recs.append(('fit#post.invariant_under_' + (name if not name.startswith('affine') else 'exact_affine_map'), ok, dict(lit, reencoding=name) if not ok else dict(seed=seed, reencoding=name), '' if ok else '%s: %s' % (name, detail)))
    return recs


def intcode_cases(rng, n):
    """a categorical feature whose categories are small INTEGER CODES (0, 1, 2, ...: the same numbers as the ranks used for output_dtype='float')"""
    from rtc.c01_carver import PAIRS
    out = []
    for t in range(n):
        k = rng.choice([3, 4, 5]); counts = [rng.choice(PAIRS) for _ in range(k)]
        if sum(c[1] for c in counts) == 0 or sum(c[0] for c in counts) == 0: continue
        codes = list(range(k)); rng.shuffle(codes)
        case = zoo.table_case([(a * 3, b * 3) for a, b in counts], kind='categorical', names=codes)
        cfg = dict(min_freq=0.04, min_freq_mod=rng.choice([0.0, 0.01, None]), max_n_mod=rng.choice([2, 3, 4]), sort_by=rng.choice(['tschuprowt', 'cramerv']), dropna=True, output_dtype='float')
        out.append((case, cfg))
    return out


def rare_zero_cases(rng, n):
    """quantitative values around 0 with over-represented neighbours and a RARE value exactly equal to 0.0 between them (shifted copies have no zero there)"""
    out = []
    for t in range(n):
        vals = [-2.0, -1.0, 0.0, 1.0, 2.0]; sc = rng.choice([2, 3, 5])
        counts = [(rng.choice([3, 4]) * sc, rng.choice([2, 3]) * sc), (rng.choice([5, 6]) * sc, rng.choice([4, 6]) * sc), (1, rng.choice([0, 1])), (rng.choice([4, 6]) * sc, rng.choice([5, 7]) * sc), (rng.choice([2, 3]) * sc, rng.choice([3, 4]) * sc)]
        case = zoo.table_case(counts, kind='quantitative', quant_values=vals, nan_counts=rng.choice([None, (2, 1)]))
        cfg = dict(min_freq=rng.choice([0.04, 0.08]), min_freq_mod=None, max_n_mod=rng.choice([3, 4]), sort_by=rng.choice(['tschuprowt', 'cramerv']), dropna=True, output_dtype='str')
        out.append((case, cfg))
    return out


def ushape_cases(rng, n):
    """quantitative count tables with missing values whose target rate is NOT monotone and ties exactly between two non-adjacent values (dropna=True):
    whether two groups may stay apart then depends on which groups are neighbours in the feature's order, never on how their labels are spelled"""
    from rtc.c01_carver import PAIRS
    out = []
    for t in range(n):
        k = rng.choice([4, 4, 5]); counts = [rng.choice(PAIRS) for _ in range(k)]
        i = rng.choice(range(k - 2)); j = rng.choice(range(i + 2, k)); counts[j] = counts[i]
        mid = rng.choice([c for c in PAIRS if c[0] * counts[i][1] != c[1] * counts[i][0]]); counts[i + 1] = mid
        if sum(c[1] for c in counts) == 0 or sum(c[0] for c in counts) == 0: continue
        scale = rng.choice([1, 5, 10, 20])
        case = zoo.table_case([(a * scale, b * scale) for a, b in counts], kind='quantitative', nan_counts=tuple(scale * c for c in rng.choice([(2, 1), (1, 3), (3, 3), (1, 1)])))
        cfg = dict(min_freq=0.04, min_freq_mod=rng.choice([0.0, 0.01, None]), max_n_mod=rng.choice([3, 4, 5]), sort_by=rng.choice(['tschuprowt', 'cramerv']), dropna=True, output_dtype=rng.choice(['float', 'str']))
        out.append((case, cfg))
    return out


def run(ctx):
    nt, nr = (150, 60) if ctx.tier == 'quick' else (1500, 500)
    specs = [(c, cfg, ctx.seed * 13 + i) for i, (c, cfg) in enumerate(table_cases(ctx.rng, nt, ctx.tier) + ushape_cases(ctx.rng, nt // 3) + intcode_cases(ctx.rng, nt // 5) + rare_zero_cases(ctx.rng, nt // 10) + random_cases(ctx.rng, nr))]
    ctx.bound('carver.fit + transform', '%d count-table frames (exact rate ties, thresholds on group frequencies; a third more with missing values and a non-monotone rate tying between non-adjacent values) and %d random frames; per frame: row permutation, reversal, 3 index relabellings, '
              '11 exact affine maps (a in {0.125,0.5,1,2,3,4,5,8}, b in {-2^40,-2,-1,0,1,3,7,10,2^44}; only maps that are exactly invertible on the data), order-preserving category renaming' % (nt, nr))
    for recs in zoo.pmap(one, specs):
        for clause, ok, wit, msg in recs: ctx.check(clause, 'carver.fit', ok, wit, msg)
