"""Shared bounded clause battery on fitted objects (engine R): C03, C04, C05, C06, C07, C08, C16.
Each clause is a stated post-condition of a real public function (fit / transform / to_json / load_* / summary / history),
evaluated with an oracle that is written from the property text and reads only the public fitted state."""
import copy, json, math, traceback, warnings
import numpy as np
import pandas as pd
from rtc import zoo, objects as ob
from rtc.objects import isnan, S


def frame_equal(a, b):
    if list(a.columns) != list(b.columns) or list(a.index) != list(b.index): return False
    for c in a.columns:
        for x, y in zip(a[c].tolist(), b[c].tolist()):
            if isnan(x) and isnan(y): continue
            if isinstance(x, float) or isinstance(y, float):
                try:
                    if float(x) == float(y): continue
                except Exception: pass
            if not (x == y): return False
    return True


def series_list(s):
    return [None if isnan(v) else v for v in s.tolist()]


# --------------------------------------------------------------------------------------------------------- C04
def c04(obj, kind, case, cfg, rec, X=None, tag=''):
    X = case['X'] if X is None else X
    if tag == '':
        # a value seen at fit gets the label of its group whatever the OTHER columns of the frame hold (e.g. a value another feature never saw)
        for okp, msg, B in probe_shared(obj, kind, X):
            rec('C04:transform#post.label_of_the_group_containing_the_value', okp, msg, dict(feature=B, shared_vocabulary=True))
    try:
        out = obj.transform(X)
    except Exception as e:
        rec('C04:transform#post.training_rows_accepted' + tag, False, 'transform of data seen at fit raised %s: %s' % (type(e).__name__, str(e)[:200])); return None
    for f in obj.features:
        raw = ob.raw_feature_of(obj, f)
        col_in, col_out = X[raw].tolist(), out[f].tolist()
        order = obj.values_orders[f]; dropna = obj.features_dropna.get(f, obj.dropna)
        leaders = list(order)
        rank = {}
        nn = [l for l in leaders if l != obj.str_nan]
        for i, l in enumerate(nn + ([obj.str_nan] if obj.str_nan in leaders else [])): rank[l] = i
        g2l = {}; l2g = {}; bad = None
        for v, o in zip(col_in, col_out):
            g = ob.group_of(obj, f, v)
            if g is None:
                bad = 'value %r has no group in values_orders' % (v,); break
            if isnan(v) and not dropna:
                if not isnan(o): bad = 'missing value not kept missing with dropna=False (got %r)' % (o,); break
                continue
            if isnan(o):
                # a group merged with the missing values of a dropna=False feature? the property says missing stay missing, others get labels
                bad = 'non-missing value %r mapped to a missing output' % (v,); break
            if g in g2l and g2l[g] != o: bad = 'group %r mapped to two labels %r, %r' % (g, g2l[g], o); break
            if o in l2g and l2g[o] != g: bad = 'label %r shared by groups %r and %r' % (o, l2g[o], g); break
            g2l[g] = o; l2g[o] = g
            if obj.output_dtype == 'float' and not (o == rank[g]): bad = "float label %r of group %r is not the group's rank %r" % (o, g, rank[g]); break
            if obj.output_dtype == 'str' and f in obj.qualitative_features and not (o == g): bad = 'label %r of qualitative group %r is not its leader' % (o, g); break
        rec('C04:transform#post.label_of_the_group_containing_the_value' + tag, bad is None, 'feature %s: %s' % (f, bad), dict(feature=f))
        # distinct groups -> distinct labels (on the label table itself, all groups, not only observed ones)
        lab = obj.labels_per_values.get(f, {})
        per_leader = {}
        for l in leaders:
            if l in lab: per_leader[l] = lab[l]
        vals = list(per_leader.values())
        rec('C04:fit#post.distinct_groups_distinct_labels', len(set(map(repr, vals))) == len(vals), 'feature %s: labels %r of leaders %r collide' % (f, vals, list(per_leader)), dict(feature=f))
    return out


# --------------------------------------------------------------------------------------------------------- C03
def c03(obj, kind, case, cfg, rec):
    for f in obj.features:
        order = obj.values_orders[f]; leaders = [l for l in order if l != obj.str_nan]
        if f in obj.quantitative_features:
            nums = [float(l) for l in leaders]
            rec('C03:fit#post.boundaries_strictly_increasing_inf_last', all(a < b for a, b in zip(nums, nums[1:])) and nums and nums[-1] == float('inf'),
                'feature %s: leaders %r' % (f, leaders), dict(feature=f))
            if obj.output_dtype == 'float':
                raw = ob.raw_feature_of(obj, f)
                fin = [x for x in nums if math.isfinite(x)]
                probes = sorted(set([-1e300, 1e300] + fin + [float(np.nextafter(x, -np.inf)) for x in fin] + [float(np.nextafter(x, np.inf)) for x in fin] +
                                    [(a + b) / 2 for a, b in zip(fin, fin[1:])]))
                Xp = pd.DataFrame({c: [case['X'][c].dropna().iloc[0] if case['X'][c].notna().any() else np.nan] * len(probes) for c in case['X'].columns})
                Xp[raw] = probes
                Xp.index = [len(probes) - i + 7 for i in range(len(probes))]           # a non-default, decreasing index
                ok_cols = True
                try:
                    out = obj.transform(Xp)[f].tolist()
                    mono = all(a <= b for a, b in zip(out, out[1:]))
                    # right-closed intervals: a boundary belongs to the lower bucket, its successor float to the next one
                    step = all(out[probes.index(x)] == out[probes.index(float(np.nextafter(x, -np.inf)))] for i_, x in enumerate(fin) if i_ == 0 or float(np.nextafter(x, -np.inf)) > fin[i_ - 1]) and \
                        all(out[probes.index(x)] < out[probes.index(float(np.nextafter(x, np.inf)))] for x in fin)
                    rec('C03:transform#post.non_decreasing_step_function', mono and step, 'feature %s: probes %r -> %r' % (f, probes, out), dict(feature=f))
                except AssertionError:
                    pass        # other columns of the probe frame rejected (NaN-free fit etc.): not judged here
                except Exception as e:
                    rec('C03:transform#post.non_decreasing_step_function', False, 'feature %s: transform of finite probes raised %s %s' % (f, type(e).__name__, e), dict(feature=f))
        elif f in case.get('ordinal', []) or ob.raw_feature_of(obj, f) in case.get('ordinal', []):
            rank = case['values_orders'][ob.raw_feature_of(obj, f)]
            pos = {v: i for i, v in enumerate(rank)}
            ok = True; msg = ''
            last_max = -1
            for l in leaders:
                ps = sorted(pos[v] for v in order.content[l] if v in pos)
                if not ps: continue
                if ps != list(range(ps[0], ps[-1] + 1)) or ps[0] <= last_max: ok = False; msg = 'group %r = positions %r (previous groups end at %d)' % (l, ps, last_max)
                last_max = max(last_max, ps[-1])
            rec('C03:fit#post.ordinal_groups_are_consecutive_runs_of_the_ranking', ok, 'feature %s: %s ; content %r' % (f, msg, dict(order.content)), dict(feature=f))
            if obj.output_dtype == 'float' and obj.features_dropna.get(f, True) is not None:
                present = [v for v in rank if any(v in order.content[l] for l in leaders)]
                if present:
                    Xp = pd.DataFrame({c: [case['X'][c].dropna().iloc[0] if case['X'][c].notna().any() else np.nan] * len(present) for c in case['X'].columns})
                    Xp[ob.raw_feature_of(obj, f)] = pd.Series(present, dtype=object)
                    try:
                        out = obj.transform(Xp)[f].tolist()
                        rec('C03:transform#post.non_decreasing_in_ordinal_rank', all(a <= b for a, b in zip(out, out[1:])), 'feature %s: %r -> %r' % (f, present, out), dict(feature=f))
                    except AssertionError: pass


def c03_categorical(obj, kind, case, cfg, rec):
    """categorical features of the base discretizers: leaders ordered by training target rate, NaN last (only judged when rates are distinct)"""
    if kind not in ('Discretizer', 'QualitativeDiscretizer'): return
    try: out = obj.transform(case['X'])
    except Exception: return
    y = case['y']
    for f in obj.features:
        if f not in case['qualitative']: continue
        leaders = [l for l in obj.values_orders[f] if l != obj.str_nan]
        col = out[f]
        rates = [float(y[col == l].mean()) if (col == l).any() else None for l in leaders]
        if any(r is None for r in rates): continue
        if any(abs(a - b) < 1e-12 for i, a in enumerate(rates) for b in rates[i + 1:]): continue
        rec('C03:fit#post.categorical_leaders_in_target_rate_order', all(a < b for a, b in zip(rates, rates[1:])), 'feature %s: leaders %r have rates %r' % (f, leaders, rates), dict(feature=f))


# --------------------------------------------------------------------------------------------------------- C05
def probe_shared(obj, kind, X):
    """frames in which feature A (which has a default group) takes a value it never saw but that is a known modality of feature B:
    the output of B must be what it is without that value in A"""
    quali = [f for f in obj.features if f in obj.qualitative_features and kind != 'MulticlassCarver']
    for A in quali:
        for B in quali:
            if A == B: continue
            oa, obb = obj.values_orders[A], obj.values_orders[B]
            has_default = obj.str_default is not None and obj.str_default in oa.values()
            cand = [v for v in obb.values() if isinstance(v, str) and v not in (obj.str_nan, obj.str_default) and not oa.contains(v) and (X[B] == v).any()]
            if not cand or not has_default: continue
            v = cand[0]; rows = [i for i, x in enumerate(X[B].tolist()) if x == v][:2] + [0, 1]
            df = X.iloc[rows].copy().reset_index(drop=True); df.loc[1, A] = v
            a = outcome(lambda: obj.transform(df)); ref = outcome(lambda: obj.transform(X.iloc[rows].reset_index(drop=True)))
            if a[0] == 'ok' and ref[0] == 'ok':
                yield (series_list(a[1][B]) == series_list(ref[1][B]), 'value %r (unseen for %s, known to %s): output of %s changed from %r to %r' % (v, A, B, B, series_list(ref[1][B]), series_list(a[1][B])), B)
            elif a[0] != ref[0]:
                yield (False, 'value %r unseen for %s (which has a default group) but known to %s: %s' % (v, A, B, a[0]), B)


def label_set(obj, f):
    """the fitted labels of a feature, read off values_orders (not off the cached label table): ranks for float output; leaders for a qualitative feature with str
    output; for a quantitative feature with str output the cached labels of the current leaders"""
    order = obj.values_orders[f]; leaders = list(order)
    if getattr(obj, 'output_dtype', 'str') == 'float': return [float(i) for i in range(len(leaders))]
    if f in obj.qualitative_features: return leaders
    return [obj.labels_per_values[f][l] for l in leaders if l in obj.labels_per_values[f]]


def in_labels(v, labels):
    return any((v == l) for l in labels)


def c05(obj, kind, case, cfg, rec, rng, ref_obj=None):
    ref_obj = ref_obj or obj          # the object whose configuration defines what must be accepted (the original, for a reloaded object)
    X = case['X']; base_row = {c: (X[c].dropna().iloc[0] if X[c].notna().any() else np.nan) for c in X.columns}
    def probe_frame(col, values, dtype):
        d = {c: [base_row[c]] * len(values) for c in X.columns}
        df = pd.DataFrame({c: pd.Series(v, dtype=X[c].dtype) for c, v in d.items()})
        df[col] = pd.Series(values, dtype=dtype)
        df.index = [i * 2 + 50 for i in range(len(df))] if len(values) % 2 else ['p%02d' % i for i in range(len(df))]          # a new frame rarely has a RangeIndex
        return df
    def judge(name, df, f, expect_reject=None):
        try:
            out = obj.transform(df)
        except AssertionError as e:
            if expect_reject is False:
                rec('C05:transform#post.accepted' + name, False, 'feature %s: rejected although every value must be accepted: %s' % (f, str(e)[:150]), dict(feature=f, frame=zoo.case_literal(dict(case, X=df))['X']))
            elif expect_reject is True:
                rec('C05:transform#raises.AssertionError' + name, True, 'refused as expected', dict(feature=f))          # (counted: the refusal is an evaluation of the clause)
            return
        except Exception as e:
            rec('C05:transform#raises.only_AssertionError', False, '%s: transform raised %s: %s' % (name, type(e).__name__, str(e)[:200]), dict(feature=f, frame=zoo.case_literal(dict(case, X=df))['X'])); return
        if expect_reject is True:
            rec('C05:transform#raises.AssertionError' + name, False, 'feature %s: unseen data accepted (output %r)' % (f, out[f].tolist()[:6]), dict(feature=f, frame=zoo.case_literal(dict(case, X=df))['X'])); return
        for g in obj.features:
            vals = out[g]
            ok = all(isnan(v) or in_labels(v, label_set(obj, g)) for v in vals.tolist())
            dropna = obj.features_dropna.get(g, obj.dropna)
            if dropna: ok = ok and not any(isnan(v) for v in vals.tolist())
            rec('C05:transform#post.only_fitted_labels' + name, ok, 'feature %s: output %r not within fitted labels %r' % (g, vals.tolist()[:8], label_set(obj, g)[:8]),
                dict(feature=g, frame=zoo.case_literal(dict(case, X=df))['X']))
    for f in obj.features:
        raw = ob.raw_feature_of(obj, f)
        if kind == 'MulticlassCarver' and f != obj.features_casting[raw][0]: continue
        order = obj.values_orders[f]
        if f in obj.quantitative_features:
            fin = [float(l) for l in order if l != obj.str_nan and math.isfinite(float(l))]
            lo, hi = (min(fin), max(fin)) if fin else (0.0, 1.0)
            vals = [-1e30, lo - 1, lo, float(np.nextafter(lo, -np.inf)), hi, float(np.nextafter(hi, np.inf)), hi + 1, 1e30, 1e300, -1e300, 0.0]
            judge('.finite_numbers', probe_frame(raw, vals, float), f, expect_reject=False)
            if not order.contains(obj.str_nan):
                judge('.missing_where_none_seen', probe_frame(raw, [np.nan, lo], float), f, expect_reject=True)
        else:
            unseen = 'never_seen_%d' % rng.randint(0, 9)
            has_default = ref_obj.str_default is not None and ref_obj.str_default in ref_obj.values_orders[f].values()
            if raw in case.get('qualitative', []) and kind in ('Discretizer', 'QualitativeDiscretizer', 'BinaryCarver', 'ContinuousCarver') and 'min_freq' in cfg and not cfg.get('min_freq_edited'):
                # independent of the fitted object: a categorical feature with a modality rarer than min_freq MUST have a default group (C09), so unseen categories must be accepted
                vc = X[raw].dropna().map(S).value_counts() / len(X)
                if (vc < cfg['min_freq']).any(): has_default = True
            judge('.unseen_category', probe_frame(raw, [unseen, base_row[raw]], object), f, expect_reject=(not has_default))
            # unseen categories that are FALSY ('' and 0): like any other unseen category (default label or refusal), never passed through
            known = [S(v) for v in order.values()]
            for falsy in ('', 0):
                if S(falsy) in known or falsy in order.values(): continue
                judge('.unseen_falsy_category', probe_frame(raw, [falsy, base_row[raw]], object), f, expect_reject=(not has_default))
            # an unseen category SPELLED like the default marker, in a feature without default group (a sample bucketized upstream): refused like any unseen category
            mk = ref_obj.str_default
            if mk is not None and not has_default and mk not in order.values() and S(mk) not in known:
                judge('.unseen_category_spelled_like_the_default_marker', probe_frame(raw, [mk, base_row[raw]], object), f, expect_reject=True)
            if not order.contains(obj.str_nan):
                judge('.missing_where_none_seen', probe_frame(raw, [np.nan, base_row[raw]], object), f, expect_reject=True)
    # the same finite numbers in an object-dtype column and in a nullable Float64 column
    qcols = [c for c in X.columns if any(ob.raw_feature_of(obj, f) == c for f in obj.features if f in obj.quantitative_features)]
    if qcols:
        Xo = X.copy()
        for c in qcols: Xo[c] = Xo[c].astype(object)
        a = outcome(lambda: obj.transform(Xo)); ref = outcome(lambda: obj.transform(X))
        rec('C05:transform#post.object_dtype_numbers_handled_like_floats', a[0] == ref[0] and (a[0] != 'ok' or frame_equal(a[1], ref[1])), 'object-dtype quantitative columns: %s (float columns: %s)' % (a[0], ref[0]))
        if not any(X[c].isna().any() for c in qcols):
            Xn = X.copy()
            for c in qcols: Xn[c] = Xn[c].astype('Float64')
            a = outcome(lambda: obj.transform(Xn))
            rec('C05:transform#raises.only_AssertionError', not a[0].startswith('error'), 'nullable Float64 quantitative columns: %s' % a[0], dict(frame='Float64'))
    # a value unseen for feature A but known to feature B, in the same frame: B's rows must be labelled as usual (row-wise purity, C05 / C07 / C10)
    for okp, msg, B in probe_shared(obj, kind, X):
        rec('C05:transform#post.unseen_value_of_one_feature_does_not_touch_other_features', okp, msg, dict(feature=B))
        rec('C07:transform#post.unseen_value_of_one_feature_does_not_touch_other_features', okp, msg, dict(feature=B))
    # empty and single-row frames
    for name, df in (('.empty_frame', X.iloc[0:0]), ('.single_row', X.iloc[0:1])):
        try:
            out = obj.transform(df)
            rec('C05:transform#post.index_kept' + name, list(out.index) == list(df.index), 'index changed')
        except AssertionError: pass
        except Exception as e:
            rec('C05:transform#raises.only_AssertionError', False, '%s: transform raised %s: %s' % (name, type(e).__name__, str(e)[:200]), dict(frame=name))


# --------------------------------------------------------------------------------------------------------- C06
def reload(obj, kind):
    from AutoCarver.discretizers.utils.base_discretizers import load_discretizer
    from AutoCarver.carvers.base_carver import load_carver
    js = json.loads(json.dumps(obj.to_json()))
    return load_carver(js) if 'Carver' in kind else load_discretizer(js)


def outcome(fn):
    try: return ('ok', fn())
    except AssertionError: return ('reject', None)
    except Exception as e: return ('error:' + type(e).__name__, None)


def c06(obj, kind, case, cfg, rec, rng):
    try:
        dumped = json.dumps(obj.to_json())
    except Exception as e:
        rec('C06:to_json#post.json_serialisable', False, 'json.dumps(to_json()) raised %s: %s' % (type(e).__name__, str(e)[:200])); return
    rec('C06:to_json#post.json_serialisable', True, '')
    try:
        re = reload(obj, kind)
    except Exception as e:
        rec('C06:load#post.rebuilds', False, 'load raised %s: %s' % (type(e).__name__, str(e)[:300])); return
    frames = [('train', case['X'])]
    if case['X_dev'] is not None: frames.append(('dev', case['X_dev']))
    Xs = case['X'].copy()
    for c in case['quantitative']: Xs[c] = Xs[c] * 1.7 - 3
    frames.append(('shifted', Xs))
    Xu = case['X'].copy()
    for c in list(case['qualitative']) + list(case['ordinal']): Xu.loc[Xu.index[0], c] = 'unseen_value'
    frames.append(('unseen', Xu))
    X32 = case['X'].copy()
    for c in case['quantitative']: X32[c] = X32[c].astype('float32').astype('float64')
    frames.append(('float32', X32))
    for name, df in frames:
        a = outcome(lambda: obj.transform(df)); b = outcome(lambda: re.transform(df))
        same = a[0] == b[0] and (a[0] != 'ok' or frame_equal(a[1], b[1]))
        rec('C06:load#post.same_transform_or_same_rejection', same, 'frame %s: original %s, reloaded %s%s' % (name, a[0], b[0], '' if a[0] != 'ok' or b[0] != 'ok' else ' (outputs differ)'), dict(frame=name))
    a = outcome(lambda: obj.summary()); b = outcome(lambda: re.summary())
    same = a[0] == b[0] and (a[0] != 'ok' or (a[1].reset_index().astype(str).values.tolist() == b[1].reset_index().astype(str).values.tolist()))
    rec('C06:load#post.same_summary', same, 'summary differs after reload (%s / %s)' % (a[0], b[0]))
    try:
        j1 = json.loads(dumped); j2 = json.loads(json.dumps(re.to_json()))
        for j in (j1, j2):
            j['features'] = sorted(j['features'])
            if isinstance(j.get('values_orders'), str): j['values_orders'] = json.loads(j['values_orders'])      # nested JSON text: compared as JSON values
        rec('C06:to_json#post.reserialisation_is_identical', j1 == j2, 'keys differing: %r' % ([k for k in set(j1) | set(j2) if j1.get(k) != j2.get(k)],))
    except Exception as e:
        rec('C06:to_json#post.reserialisation_is_identical', False, 're-serialisation raised %s' % e)


# --------------------------------------------------------------------------------------------------------- C07
def c07(obj, kind, case, cfg, rec, rng):
    X = case['X']
    state0 = json.dumps(obj.to_json(), sort_keys=True, default=str)
    try:
        full = obj.transform(X)
    except Exception as e:
        return
    rec('C07:transform#post.keeps_index_and_columns', list(full.index) == list(X.index) and all(c in full.columns for c in X.columns), 'index/columns changed')
    others = [c for c in X.columns if c not in obj.features and c not in obj.features_casting]
    for c in others:
        rec('C07:transform#post.non_feature_columns_unchanged', series_list(full[c]) == series_list(X[c]), 'column %s changed' % c)
    idx = list(range(len(X))); rng.shuffle(idx); sub = sorted(idx[: max(2, len(X) // 3)])
    variants = [('subset', X.iloc[sub], lambda o: o.iloc[sub] if False else None, sub), ('permutation', X.iloc[idx], None, idx)]
    for name, Xv, _, rows in variants:
        a = outcome(lambda: obj.transform(Xv))
        if a[0] != 'ok':
            rec('C07:transform#post.row_wise_' + name, False, 'transform of a %s of the training rows: %s' % (name, a[0])); continue
        exp = full.iloc[rows]
        rec('C07:transform#post.row_wise_' + name, frame_equal(a[1], exp), 'rows of the %s differ from the corresponding rows of the full result' % name, dict(rows=rows[:10]))
    # single rows (the smallest subsets): the label of a row depends only on that row's values
    for i_ in idx[:6]:
        a = outcome(lambda: obj.transform(X.iloc[[i_]]))
        rec('C07:transform#post.row_wise_subset', a[0] == 'ok' and frame_equal(a[1], full.iloc[[i_]]), 'transform of row %d alone: %s' % (i_, a[0] if a[0] != 'ok' else 'differs from that row of the full result'), dict(rows=[i_], single_row=True))
    for name, newidx in (('offset_index', [i + 1000 for i in range(len(X))]), ('string_index', ['r%d' % i for i in range(len(X))]), ('shuffled_int_index', idx)):
        Xr = X.copy(); Xr.index = newidx
        a = outcome(lambda: obj.transform(Xr))
        ok = a[0] == 'ok' and list(a[1].index) == newidx and all(series_list(a[1][c]) == series_list(full[c]) for c in full.columns)
        rec('C07:transform#post.reindexing_equivariant', ok, 'transform with %s: %s' % (name, a[0] if a[0] != 'ok' else 'values differ'), dict(index=name))
    # an unseen NUMERIC category of a numeric-looking qualitative feature: same output for that row whether or not another row of the frame holds a missing value
    for f in obj.features:
        if f not in obj.qualitative_features: continue
        raw = ob.raw_feature_of(obj, f); known = [v for v in pd.unique(X[raw].dropna())]
        if not known or not all(isinstance(v, (int, float, np.integer, np.floating)) and not isinstance(v, bool) for v in known): continue
        if not obj.values_orders[f].contains(obj.str_nan): continue
        base = {c: (X[c].dropna().iloc[0] if X[c].notna().any() else np.nan) for c in X.columns}
        def frame(vals):
            d = pd.DataFrame({c: pd.Series([base[c]] * len(vals), dtype=X[c].dtype) for c in X.columns}); d[raw] = pd.Series(vals, dtype=float); return d
        A = outcome(lambda: obj.transform(frame([98765.0, float(known[0])]))); B = outcome(lambda: obj.transform(frame([98765.0, float(known[0]), np.nan])))
        same = (A[0] == B[0]) and (A[0] != 'ok' or all((isnan(u) and isnan(v)) or u == v for u, v in zip(A[1][f].tolist(), B[1][f].tolist()[:2])))          # (0 and 0.0 are the same label)
        rec('C07:transform#post.row_wise_subset', same, 'feature %s: rows [98765.0, %r] give %s alone and %s next to a row holding a missing value' % (f, known[0], A[1][f].tolist() if A[0] == 'ok' else A[0], B[1][f].tolist()[:2] if B[0] == 'ok' else B[0]), dict(feature=f, unseen_numeric_category=True))
    again = outcome(lambda: obj.transform(X))
    rec('C07:transform#post.repeatable', again[0] == 'ok' and frame_equal(again[1], full), 'second transform differs')
    rec('C07:transform#frame.fitted_state_unchanged', json.dumps(obj.to_json(), sort_keys=True, default=str) == state0, 'to_json() changed after transform calls')
    # read-only observers called in between (summary, history, to_json) are no exception: the next transform gives the same result
    labels0 = repr(sorted((f, sorted((repr(k), repr(v)) for k, v in lp.items())) for f, lp in obj.labels_per_values.items()))
    for name in ('summary', 'history', 'to_json'):
        if hasattr(obj, name): outcome(getattr(obj, name))
    if obj.features: outcome(lambda: obj.summary(obj.features[0]))
    again = outcome(lambda: obj.transform(X))
    rec('C07:transform#post.repeatable', again[0] == 'ok' and frame_equal(again[1], full), 'transform after summary() / history() / to_json() differs from the first one', dict(after='observers'))
    labels1 = repr(sorted((f, sorted((repr(k), repr(v)) for k, v in lp.items())) for f, lp in obj.labels_per_values.items()))
    rec('C07:transform#frame.fitted_state_unchanged', labels0 == labels1, 'labels_per_values changed after summary() / history() / to_json()', dict(after='observers'))


def c07_fit(kind, case, cfg, rec):
    """fit_transform == fit ; transform, and the caller's data are not modified (copy=True)"""
    snap = {k: (case[k].copy(deep=True) if case[k] is not None else None) for k in ('X', 'y', 'X_dev', 'y_dev')}
    try:
        o1 = ob.build(kind, case, cfg)
    except Exception:
        return
    for k in ('X', 'y', 'X_dev', 'y_dev'):
        if snap[k] is None: continue
        same = frame_equal(snap[k], case[k]) if isinstance(snap[k], pd.DataFrame) else series_list(snap[k]) == series_list(case[k]) and list(snap[k].index) == list(case[k].index)
        rec('C07:fit#frame.caller_data_unmodified', same, '%s modified by fit with copy=True' % k, dict(which=k))
    a = outcome(lambda: o1.transform(case['X']))
    for k in ('X',):
        rec('C07:transform#frame.caller_data_unmodified', frame_equal(snap[k], case[k]), 'X modified by transform with copy=True')
    # ... also after a refused second fit (the refusal must not leave the object in another configuration)
    r2 = outcome(lambda: o1.fit(case['X'], case['y']))
    if r2[0] == 'reject':
        outcome(lambda: o1.transform(case['X']))
        rec('C07:transform#frame.caller_data_unmodified', frame_equal(snap['X'], case['X']), 'X modified by transform with copy=True after a refused second fit', dict(after='refused_second_fit'))
        rec('C07:transform#frame.fitted_state_unchanged', getattr(o1, 'copy', True) is True, 'copy flag is %r after a refused second fit' % getattr(o1, 'copy', None), dict(after='refused_second_fit'))
    if kind in ('BinaryCarver', 'ContinuousCarver') and case['X_dev'] is None:
        try:
            o2 = zoo.make_carver(case, cfg); ft = o2.fit_transform(case['X'], case['y'])
            rec('C07:fit_transform#post.equals_fit_then_transform', a[0] == 'ok' and frame_equal(ft, a[1]), 'fit_transform differs from fit;transform')
        except AssertionError: pass
        except Exception as e:
            rec('C07:fit_transform#post.equals_fit_then_transform', False, 'fit_transform raised %s %s' % (type(e).__name__, str(e)[:100]))
    elif kind == 'Discretizer':
        try:
            o2 = zoo.make_discretizer(case, cfg['min_freq'], cfg=cfg); ft = o2.fit_transform(case['X'], case['y'])
            rec('C07:fit_transform#post.equals_fit_then_transform', a[0] == 'ok' and frame_equal(ft, a[1]), 'fit_transform differs from fit;transform')
        except AssertionError: pass


# --------------------------------------------------------------------------------------------------------- C08
def wf_order(order):
    L = list(order); errs = []
    keyf = lambda v: ('n', float(v)) if isinstance(v, (int, float, np.number)) and not isinstance(v, bool) else ('s', str(v))
    if len(set(map(keyf, L))) != len(L): errs.append('duplicate leaders %r' % (L,))
    if sorted(map(keyf, L)) != sorted(map(keyf, order.content.keys())): errs.append('leaders %r != content keys %r' % (L, list(order.content.keys())))
    allv = [v for vs in order.content.values() for v in vs]
    if len(set(map(keyf, allv))) != len(allv): errs.append('groups overlap')
    for k, vs in order.content.items():
        if k not in vs: errs.append('leader %r not in its group' % (k,))
    return errs


def c08(obj, kind, case, cfg, rec):
    feats = list(obj.features)
    rec('C08:fit#post.features_unique', len(set(feats)) == len(feats), 'duplicate features %r' % (feats,))
    for name in ('values_orders', 'input_dtypes', 'labels_per_values', 'features_dropna'):
        keys = set(getattr(obj, name).keys())
        rec('C08:fit#post.attribute_keys_equal_kept_features', keys == set(feats), '%s has keys %r, features are %r' % (name, sorted(keys), sorted(feats)), dict(attribute=name))
    cast = [c for cs in obj.features_casting.values() for c in cs]
    rec('C08:fit#post.attribute_keys_equal_kept_features', sorted(cast) == sorted(feats), 'features_casting lists %r, features %r' % (cast, feats), dict(attribute='features_casting'))
    ql, qt = set(obj.qualitative_features), set(obj.quantitative_features)
    rec('C08:fit#post.attribute_keys_equal_kept_features', (ql | qt) == set(feats) and not (ql & qt), 'qualitative %r quantitative %r features %r' % (ql, qt, feats), dict(attribute='dtype lists'))
    if hasattr(obj, 'ordinal_features'):
        rec('C08:fit#post.attribute_keys_equal_kept_features', set(obj.ordinal_features) <= set(feats) or kind == 'MulticlassCarver', 'ordinal_features %r not within features' % (obj.ordinal_features,), dict(attribute='ordinal_features'))
    for f in feats:
        errs = wf_order(obj.values_orders[f])
        rec('C08:fit#post.values_orders_well_formed', not errs, 'feature %s: %s' % (f, '; '.join(errs)), dict(feature=f))
        raw = ob.raw_feature_of(obj, f)
        missing = [v for v in pd.unique(case['X'][raw]) if ob.group_of(obj, f, v) is None]
        rec('C08:fit#post.values_orders_cover_training_values', not missing, 'feature %s: training values %r have no group' % (f, missing[:5]), dict(feature=f))
        if f in obj.quantitative_features:
            # ordered partition of a quantitative feature: leaders are upper bounds in increasing order ending with +inf; every numeric member of a group is <= its leader;
            # the missing-value marker leads no numeric value (grouped missing values are MEMBERS of a numeric group)
            NUM = (int, float, np.integer, np.floating); order = obj.values_orders[f]; lead = [l for l in order if l != obj.str_nan]; errs = []
            if not all(isinstance(l, NUM) and not isinstance(l, bool) for l in lead): errs.append('non-numeric leaders %r' % ([l for l in lead if not isinstance(l, NUM)][:3],))
            else:
                if any(not (a < b) for a, b in zip(lead, lead[1:])): errs.append('leaders not strictly increasing: %r' % (lead,))
                if lead and lead[-1] != float('inf'): errs.append('last bound %r is not +inf' % (lead[-1],))
                for l in lead:
                    big = [m for m in order.content[l] if isinstance(m, NUM) and m > l]
                    if big: errs.append('group of %r holds larger values %r' % (l, big[:3]))
            if obj.str_nan in order.content and [m for m in order.content[obj.str_nan] if m != obj.str_nan]: errs.append('%r leads %r' % (obj.str_nan, order.content[obj.str_nan]))
            rec('C08:fit#post.quantitative_order_is_increasing_and_led_by_upper_bounds', not errs, 'feature %s: %s' % (f, '; '.join(errs)), dict(feature=f))
    dropped = [f for f in ob.features_of(case) if f not in obj.features_casting and f not in feats]
    if dropped:
        a = outcome(lambda: obj.transform(case['X']))
        if a[0] == 'ok':
            for f in dropped:
                rec('C08:transform#post.dropped_features_untouched', series_list(a[1][f]) == series_list(case['X'][f]), 'dropped feature %s was modified by transform' % f, dict(feature=f))
    for name, fn in (('summary', lambda: obj.summary()), ('history', lambda: obj.history())):
        r = outcome(fn)
        rec('C08:%s#raises.nothing' % name, r[0] == 'ok', '%s() after a completed fit: %s' % (name, r[0]))
    if outcome(lambda: obj.summary())[0] == 'ok' and feats:
        sm = obj.summary(); fs = set(sm.index.get_level_values('feature'))
        rec('C08:summary#post.lists_exactly_kept_features', fs == set(feats), 'summary features %r != kept %r' % (sorted(fs), sorted(feats)))


# --------------------------------------------------------------------------------------------------------- C16
def c16(obj, kind, case, cfg, rec):
    feats = list(obj.features)
    r = outcome(lambda: obj.summary())
    if r[0] != 'ok':
        rec('C16:summary#raises.nothing', False, 'summary() raised (%s) with kept features %r' % (r[0], feats)); return
    sm = r[1].reset_index()
    rec('C16:summary#post.lists_exactly_kept_features', set(sm['feature']) == set(feats), 'summary lists %r, kept %r' % (sorted(set(sm['feature'])), sorted(feats)))
    for f in feats:
        rows = sm[sm['feature'] == f]; lab = obj.labels_per_values[f]; order = obj.values_orders[f]
        one = outcome(lambda: obj.summary(f))
        if one[0] == 'ok':
            rec('C16:summary#post.single_feature_rows_only', set(one[1].reset_index()['feature']) == {f}, 'summary(%s) holds other features' % f, dict(feature=f))
        else:
            rec('C16:summary#post.single_feature_rows_only', False, 'summary(%s) raised %s' % (f, one[0]), dict(feature=f))
        if f in obj.qualitative_features:
            listed = {}
            for _, rw in rows.iterrows():
                for v in rw['content']: listed.setdefault(repr(v), []).append(rw['label'])
            # every known value that the summary is meant to show (strings other than the default marker) once, with transform's label
            known = [v for v in order.values() if isinstance(v, str) and v != obj.str_default and not (v == obj.str_nan and not obj.features_dropna.get(f, obj.dropna))]
            bad = [v for v in known if listed.get(repr(v)) != [lab[v]]]
            rec('C16:summary#post.qualitative_rows_partition_known_values_with_transform_label', not bad, 'feature %s: values %r: summary shows %r, transform label %r' % (f, bad[:4], [listed.get(repr(v)) for v in bad[:4]], [lab[v] for v in bad[:4]]), dict(feature=f))
        else:
            groups = [l for l in order if l != obj.str_nan]
            labels_seen = set(map(repr, rows['label'].tolist()))
            exp = set(repr(lab[l]) for l in groups)
            nan_merged = order.contains(obj.str_nan) and order.get_group(obj.str_nan) != obj.str_nan
            opt = set()
            if order.contains(obj.str_nan) and not nan_merged:
                # missing values kept as their own group: shown as a row of its own (optional when dropna=False: they stay missing in transform)
                (exp if obj.features_dropna.get(f, obj.dropna) else opt).add(repr(lab[obj.str_nan]))
            rec('C16:summary#post.one_row_per_quantitative_group', exp <= labels_seen <= (exp | opt) and len(rows) == len(labels_seen), 'feature %s: summary labels %r, fitted group labels %r' % (f, sorted(labels_seen), sorted(exp)), dict(feature=f))
            # the content of each row is the interval label(s) of the quantiles merged in that group, as transform (output_dtype='str') would name them NOW
            fresh = obj._get_labels_per_values(output_dtype='str')[f]
            for g in groups:
                rw = rows[rows['label'].map(repr) == repr(lab[g])]
                exp_content = sorted(set(str(fresh[v]) for v in order.content[g] if v != obj.str_nan) | ({obj.str_nan} if obj.str_nan in order.content[g] else set()))
                got_content = sorted(map(str, rw.iloc[0]['content'])) if len(rw) == 1 else None
                rec('C16:summary#post.quantitative_row_content_is_current_interval_of_the_group', got_content == exp_content, 'feature %s group %r: summary content %r, current interval label(s) %r' % (f, g, got_content, exp_content), dict(feature=f))
            if nan_merged:
                g = order.get_group(obj.str_nan); rw = rows[rows['label'].map(repr) == repr(lab[g])]
                rec('C16:summary#post.nan_shown_in_the_group_it_was_merged_into', len(rw) == 1 and obj.str_nan in rw.iloc[0]['content'], 'feature %s: NaN merged into %r but not shown there' % (f, g), dict(feature=f))
    # the label the summary gives for a value is the label transform really outputs for a training row holding that value
    tr_out = outcome(lambda: obj.transform(case['X']))
    if tr_out[0] == 'ok':
        for f in feats:
            if f in obj.quantitative_features:
                # quantitative: every training row gets one of the labels the summary lists for the feature, and a larger value never gets an earlier row of the summary
                KL = lambda l: repr(float(l)) if isinstance(l, (int, float, np.integer, np.floating)) and not isinstance(l, bool) else repr(l)          # rank labels: 0 and 0.0 are the same label
                raw = ob.raw_feature_of(obj, f); rows = sm[sm['feature'] == f]; listed = [KL(l) for l in rows['label'].tolist()]
                pos = {}
                for i_, l_ in enumerate(listed): pos.setdefault(l_, i_)
                pairs = [(v, KL(o)) for v, o in zip(case['X'][raw].tolist(), tr_out[1][f].tolist()) if not isnan(v)]
                unknown = [(v, o) for v, o in pairs if o not in pos][:4]
                # (the summary rows are not listed in interval order; what must hold is that each listed label covers ONE interval of values: sorted by value, the
                # rows carrying a label form one block, and equal values carry one label)
                by_val = {}
                for v, o in pairs: by_val.setdefault(v, set()).add(o)
                seq = [sorted(by_val[v])[0] for v in sorted(by_val)]; blocks = [o for i_, o in enumerate(seq) if i_ == 0 or seq[i_ - 1] != o]
                one_block = len(blocks) == len(set(blocks)) and all(len(x) == 1 for x in by_val.values())
                rec('C16:summary#post.label_shown_is_the_label_transform_outputs', not unknown and one_block, 'feature %s: transform outputs labels the summary does not list %r / a label does not cover one interval of values (labels along increasing values: %r; summary labels %r)' % (f, unknown, blocks[:8], listed[:6]), dict(feature=f))
                continue
            if f not in obj.qualitative_features: continue
            raw = ob.raw_feature_of(obj, f); rows = sm[sm['feature'] == f]; shown = {}
            for _, rw in rows.iterrows():
                for v in rw['content']: shown[repr(v)] = rw['label']
            bad = []
            for v, o in zip(case['X'][raw].tolist(), tr_out[1][f].tolist()):
                key = repr(obj.str_nan) if isnan(v) else repr(S(v))
                if key in shown and not (isnan(o) and isnan(v) and not obj.features_dropna.get(f, obj.dropna)) and not (shown[key] == o): bad.append((v, shown[key], o))
            rec('C16:summary#post.label_shown_is_the_label_transform_outputs', not bad, 'feature %s: (value, label in summary, transform output) %r' % (f, bad[:4]), dict(feature=f))
    if 'Carver' in kind and kind != 'MulticlassCarver' and obj._history is not None:
        h = outcome(lambda: obj.history())
        rec('C16:history#raises.nothing', h[0] == 'ok', 'history() raised %s' % h[0])
        for f in feats:
            hist = obj._history.get(f, [])
            recs_ = [x for x in hist if 'combination' in x]
            rec('C16:history#post.holds_raw_distribution_and_tested_combinations', len(recs_) >= 2 and recs_[0].get('viability') is None, 'feature %s: %d records' % (f, len(recs_)), dict(feature=f))
            if recs_:
                # the raw distribution is the distribution over ALL base modalities: the missing values of the training column are one of them, every observed category is listed
                flat0 = [v for g in recs_[0]['combination'] for v in g]; raw_col = case['X'][ob.raw_feature_of(obj, f)]
                miss = []
                if raw_col.isna().any() and obj.str_nan not in flat0: miss.append(obj.str_nan)
                if f in obj.qualitative_features: miss += [v for v in pd.unique(raw_col.dropna()) if S(v) not in [S(u) for u in flat0] and ob.group_of(obj, f, v) is not None][:3]
                rec('C16:history#post.raw_distribution_lists_every_base_modality', not miss, 'feature %s: raw distribution %r lacks %r' % (f, recs_[0]['combination'], miss), dict(feature=f))
            viable = [x for x in recs_ if x.get('viability') is True]
            if not viable:
                rec('C16:history#post.last_viable_is_fitted_grouping', False, 'kept feature %s has no combination flagged viable' % f, dict(feature=f)); continue
            last = viable[-1]['combination']
            order = obj.values_orders[f]
            keyf = lambda v: ('n', float(v)) if isinstance(v, (int, float, np.number)) and not isinstance(v, bool) else ('s', str(v))
            fitted = sorted(sorted(map(keyf, vs)) for vs in order.content.values())
            fitted_nonan = sorted(sorted(keyf(v) for v in vs if v != obj.str_nan) for vs in order.content.values() if any(v != obj.str_nan for v in vs))
            got = sorted(sorted(map(keyf, g)) for g in last)
            if f in obj.quantitative_features:
                # the history of a quantitative feature lists interval labels, values_orders the quantiles: compare the shape of the partition
                # (a base bucket may itself hold several quantiles, so only the number of groups and the place of the missing values are compared)
                shape = lambda gs: (len(gs), sorted(len(g) > 1 for g in gs if any(v == ('s', obj.str_nan) for v in g)))
                okh = shape(got) == shape(fitted) or shape(got) == shape(fitted_nonan)
            else: okh = got == fitted or got == fitted_nonan
            rec('C16:history#post.last_viable_is_fitted_grouping', okh, 'feature %s: last viable %r, fitted %r' % (f, last, dict(order.content)), dict(feature=f))
            sort_by = obj.sort_by
            rec('C16:history#post.every_combination_has_its_measure', all(sort_by in x for x in recs_), 'missing measure', dict(feature=f))
            if f in obj.qualitative_features and len(case['X']) == len(case['y']):
                # recompute the association value of every tested combination from the training rows (qualitative features: combinations list raw values)
                from rtc import oracle_carver as oc
                col = case['X'][f].tolist(); yv = case['y'].tolist(); bad_m = []
                for x in recs_[1:]:
                    comb = x['combination']; where = {}
                    for gi, g in enumerate(comb):
                        for v in g: where[repr(S(v)) if not (isinstance(v, str) and v == obj.str_nan) else '__nan__'] = gi
                    cells = {}
                    ok_rows = True
                    for v, t in zip(col, yv):
                        key = '__nan__' if isnan(v) else repr(S(v))
                        if key not in where:
                            if isnan(v) and not x.get('grouping_nan'): continue          # first search: missing rows are left out
                            ok_rows = False; break
                        cells.setdefault(where[key], []).append(t)
                    if not ok_rows or len(cells) < 2: continue
                    tab = oc.Tab(case['target'], {})
                    cl = [[sum(1 for t in cells[g] if t == 0), sum(1 for t in cells[g] if t == 1)] if case['target'] == 'binary' else list(cells[g]) for g in sorted(cells)]
                    try: mval = oc.measure(tab, cl, sort_by)
                    except Exception: continue
                    rec_v = x.get(sort_by)
                    if rec_v is None or (isinstance(rec_v, float) and math.isnan(rec_v)) or math.isnan(mval): continue
                    if abs(mval - rec_v) > 1e-9 * max(1, abs(mval)): bad_m.append((comb, rec_v, mval))
                rec('C16:history#post.recorded_association_equals_recomputation', not bad_m, 'feature %s: (combination, recorded, recomputed) %r' % (f, bad_m[:2]), dict(feature=f))
    for f in ob.features_of(case):
        if f not in feats and f not in obj.features_casting and getattr(obj, '_history', None):
            hist = obj._history.get(f, [])
            if hist:
                rec('C16:history#post.dropped_feature_marked_removed', any(x.get('removed') for x in hist), 'dropped feature %s has no removal marker' % f, dict(feature=f))


# --------------------------------------------------------------------------------------------------------- driver
def one(arg):
    kind, case, cfg, props, seed = arg
    if cfg.get('n_jobs', 1) > 1:
        # the parallel branches (fit and transform) run with an in-process pool completing in arbitrary order; a real Pool cannot be started from a pool worker
        from rtc.c10_independence import patch_pools, unpatch
        saved = patch_pools()
        try: return _one(arg)
        finally: unpatch(saved)
    return _one(arg)


def _one(arg):
    kind, case, cfg, props, seed = arg
    import random
    rng = random.Random(seed)
    recs = []
    lit = dict(kind=kind, cfg=cfg, case=zoo.case_literal(case))
    def rec(clause, ok, msg, extra=None):
        recs.append((clause, bool(ok), dict(lit, **(extra or {})) if not ok else dict(kind=kind, cfg=cfg, extra=extra, h=hash(json.dumps(lit['case'], sort_keys=True, default=str))), msg))
    if 'C07' in props:
        try: c07_fit(kind, copy.deepcopy(case), cfg, rec)
        except Exception as e: recs.append(('X:battery_crash', False, lit, 'c07_fit: ' + traceback.format_exc()[-500:]))
    try:
        obj = ob.build(kind, case, cfg)
    except AssertionError as e:
        return recs + [('skip.fit_rejects', True, None, str(e)[:80])]
    except Exception as e:
        recs.append(('C08:fit#raises.only_AssertionError', False, lit, '%s.fit raised %s: %s | %s' % (kind, type(e).__name__, str(e)[:200], traceback.format_exc()[-500:].replace('\n', ' / '))))
        return recs
    recs.append(('C08:fit#raises.only_AssertionError', True, dict(kind=kind, cfg=cfg, h=hash(json.dumps(lit['case'], sort_keys=True, default=str))), ''))
    for p, fn in (('C04', lambda: c04(obj, kind, case, cfg, rec)), ('C03', lambda: (c03(obj, kind, case, cfg, rec), c03_categorical(obj, kind, case, cfg, rec))),
                  ('C05', lambda: c05(obj, kind, case, cfg, rec, rng)), ('C07', lambda: c05(obj, kind, case, cfg, (lambda c, ok, m, e=None: rec(c, ok, m, e) if c.startswith('C07:') else None), rng) if 'C05' not in props else None), ('C06', lambda: c06(obj, kind, case, cfg, rec, rng)), ('C07', lambda: c07(obj, kind, case, cfg, rec, rng)),
                  ('C08', lambda: c08(obj, kind, case, cfg, rec)), ('C16', lambda: c16(obj, kind, case, cfg, rec))):
        if p not in props: continue
        try: fn()
        except Exception as e:
            recs.append(('X:battery_crash', False, lit, '%s clause group crashed: %s' % (p, traceback.format_exc()[-700:])))
    if ('C04' in props or 'C06' in props or 'C16' in props or 'C05' in props or 'C03' in props) and kind in ('BinaryCarver', 'ContinuousCarver', 'Discretizer'):
        # the same clauses on a manually edited object (update_discretizer), as the quantifiers of C04 / C06 say
        try:
            from rtc.c17_edits import candidate_edits
            eo = ob.build(kind, case, cfg); done = []
            for _ in range(2):
                cands = candidate_edits(eo, case, rng)
                if not cands: break
                nan_edits = [c_ for c_ in cands if isnan(c_[2])]          # edits that attach the missing values to a modality (both modes) are tried half of the time when possible
                e = rng.choice(nan_edits) if (nan_edits and rng.random() < 0.5) else rng.choice(cands)
                eo.update_discretizer(*e); done.append([None if isnan(x) else x for x in e])
            if done:
                rec_e = lambda c, ok, m, ex=None: rec(c + '.after_edit', ok, m, dict(ex or {}, edits=done))
                if 'C04' in props:
                    c04(eo, kind, case, cfg, rec_e)
                    try: c04(reload(eo, kind), kind, case, cfg, lambda c, ok, m, ex=None: rec(c + '.after_edit.reloaded_from_json', ok, m, dict(ex or {}, edits=done)))
                    except Exception: recs.append(('C04:transform#post.training_rows_accepted.after_edit.reloaded_from_json', False, lit, 'reload of the edited object raised ' + traceback.format_exc()[-300:]))
                if 'C06' in props: c06(eo, kind, case, cfg, rec_e, rng)
                if 'C03' in props:
                    c03(eo, kind, case, cfg, rec_e)
                    try: c03(reload(eo, kind), kind, case, cfg, lambda c, ok, m, ex=None: rec(c + '.after_edit.reloaded_from_json', ok, m, dict(ex or {}, edits=done)))
                    except Exception: pass
                if 'C05' in props: c05(eo, kind, case, dict(cfg, min_freq_edited=True), rec_e, rng)
                if 'C16' in props:
                    c16(eo, kind, case, cfg, lambda c, ok, m, ex=None: rec_e(c, ok, m, ex) if 'history' not in c else None)
                    try: c16(reload(eo, kind), 'BaseDiscretizer', case, cfg, lambda c, ok, m, ex=None: rec(c + '.after_edit.reloaded_from_json', ok, m, dict(ex or {}, edits=done)) if 'history' not in c else None)
                    except Exception: pass
        except Exception as e:
            recs.append(('X:battery_crash', False, lit, 'edited-object clauses crashed: %s' % traceback.format_exc()[-600:]))
    if 'C04' in props and kind != 'MulticlassCarver':
        # a refused second fit -- with the same sample, then with ANOTHER one (every other row, target reversed) -- leaves the mapping untouched
        yv = case['y']; y_rev = (1 - yv) if case['target'] == 'binary' else (-yv if case['target'] == 'continuous' else yv.iloc[::-1].set_axis(yv.index))
        for Xs, ys in ((case['X'], yv), (case['X'].iloc[::2], y_rev.iloc[::2])):
            r2 = outcome(lambda: obj.fit(Xs, ys))
            if r2[0] == 'reject': c04(obj, kind, case, cfg, lambda c, ok, m, ex=None: rec(c + '.after_refused_second_fit', ok, m, ex))
    if 'C05' in props:
        try: c05(reload(obj, kind), kind, case, cfg, lambda c, ok, m, e=None: rec(c + '.reloaded_from_json', ok, m, e), rng, ref_obj=obj)
        except Exception: recs.append(('X:battery_crash', False, lit, 'C05 on the reloaded object crashed: ' + traceback.format_exc()[-500:]))
    if 'C04' in props:
        # reloaded object and re-indexed frame obey the same mapping
        try:
            re = reload(obj, kind); c04(re, kind, case, cfg, rec, tag='.reloaded_from_json')
            Xr = case['X'].copy(); idx = list(range(len(Xr))); rng.shuffle(idx); Xr = Xr.iloc[idx]
            c04(obj, kind, case, cfg, rec, X=Xr, tag='.shuffled_rows')
        except Exception as e:
            recs.append(('C04:transform#post.training_rows_accepted.reloaded_from_json', False, lit, 'reload/transform raised %s' % (traceback.format_exc()[-400:],)))
    return recs


def direct_objects(rng, n):
    """BaseDiscretizer objects built directly from hand-made values_orders (boundaries that differ only beyond 4 significant digits, tiny / huge magnitudes,
    numeric-valued categories) -- no fit of data involved"""
    out = []
    one_ = 1.0; n1 = float(np.nextafter(one_, 2)); n2 = float(np.nextafter(n1, 2))
    pools = [[one_, n1, n2], [1.00001, 1.00002, 1.00003], [202301.0, 202302.0, 202303.0, 202312.0], [1e-300, 1e-9, 1.0, 1e9, 1e300], [0.1, 0.2, 0.30000000000000004], [-5.0, 0.0, 5.0], [1.5]]
    for i in range(n):
        qs = pools[i % len(pools)]; cats = rng.choice([['a', 'b', 'c'], ['x', '1', '2.5'], ['low', 'high']])
        for od in ('float', 'str'):
            for dn in (True, False):
                out.append(dict(quantiles=qs, cats=cats, output_dtype=od, dropna=dn, nan=(i % 2 == 0)))
    return out


def one_direct(arg):
    spec, props, seed = arg
    import random
    from AutoCarver.discretizers import BaseDiscretizer, GroupedList
    rng = random.Random(seed); recs = []
    qs, cats = spec['quantiles'], spec['cats']; nanv = '__NAN__'
    vo = {'q': GroupedList(list(qs) + [float('inf')] + ([nanv] if spec['nan'] else [])), 'c': GroupedList(list(cats) + ([nanv] if spec['nan'] else []))}
    if len(cats) > 2: vo['c'].group(cats[1], cats[0])
    xs = []
    for v in qs: xs += [v, float(np.nextafter(v, np.inf)), float(np.nextafter(v, -np.inf))]
    xs += [qs[0] - 1, qs[-1] * 2 + 1]
    if spec['nan']: xs.append(np.nan)
    X = pd.DataFrame({'q': pd.Series(xs, dtype=float), 'c': pd.Series([(cats + ([np.nan] if spec['nan'] else []))[i % (len(cats) + (1 if spec['nan'] else 0))] for i in range(len(xs))], dtype=object)})
    case = dict(X=X, y=pd.Series([i % 2 for i in range(len(xs))]), X_dev=None, y_dev=None, quantitative=['q'], qualitative=['c'], ordinal=[], values_orders={}, target='binary')
    lit = dict(kind='BaseDiscretizer', spec=spec)
    def rec(clause, ok, msg, extra=None): recs.append((clause, bool(ok), dict(lit, **(extra or {})), msg))
    try:
        obj = BaseDiscretizer(features=['q', 'c'], values_orders=vo, input_dtypes={'q': 'float', 'c': 'str'}, output_dtype=spec['output_dtype'], dropna=spec['dropna'], str_nan=nanv, str_default='__OTHER__', copy=True, verbose=False)
        obj.fit(X, case['y'])
    except Exception as e:
        return [('C08:fit#raises.only_AssertionError', isinstance(e, AssertionError), lit, 'BaseDiscretizer.fit raised %s %s' % (type(e).__name__, str(e)[:150]))]
    cfg = dict(output_dtype=spec['output_dtype'], dropna=spec['dropna'])
    for p, fn in (('C04', lambda: c04(obj, 'BaseDiscretizer', case, cfg, rec)), ('C03', lambda: c03(obj, 'BaseDiscretizer', case, cfg, rec)), ('C06', lambda: c06(obj, 'BaseDiscretizer', case, cfg, rec, rng)),
                  ('C16', lambda: c16(obj, 'BaseDiscretizer', case, cfg, rec)), ('C05', lambda: c05(obj, 'BaseDiscretizer', case, cfg, rec, rng))):
        if p in props:
            try: fn()
            except Exception: recs.append(('X:battery_crash', False, lit, '%s on a direct object crashed: %s' % (p, traceback.format_exc()[-600:])))
    if 'C04' in props:
        try: c04(reload(obj, 'BaseDiscretizer'), 'BaseDiscretizer', case, cfg, rec, tag='.reloaded_from_json')
        except Exception: recs.append(('C04:transform#post.training_rows_accepted.reloaded_from_json', False, lit, 'reload raised ' + traceback.format_exc()[-300:]))
    return recs


def run_battery(ctx, props, kinds=None, n_random=None):
    n_random = n_random or (90 if ctx.tier == 'quick' else 900)
    specs = ob.object_specs(ctx.rng, n_random, ctx.tier, kinds=kinds)
    ctx.bound('fitted objects', '%d fits: seeded random multi-feature frames (30-90 rows; discrete/continuous/spiked quantitative, categorical, numeric-looking categories, ordinal with '
              'never-observed values; optional NaN and dev sample) over %r x configurations, plus single-feature count-table frames' % (len(specs), kinds or 'all classes'))
    args = [(k, c, cfg, set(props), ctx.seed * 100003 + i) for i, (k, c, cfg) in enumerate(specs)]
    allrecs = zoo.pmap(one, args)
    if set(props) & {'C03', 'C04', 'C05', 'C06', 'C16'}:
        dspecs = direct_objects(ctx.rng, 6 if ctx.tier == 'quick' else 12)
        ctx.bound('direct objects', '%d BaseDiscretizer objects built from hand-made values_orders (boundaries equal up to 4 significant digits, 1e-300..1e300, numeric-valued categories)' % len(dspecs))
        allrecs += zoo.pmap(one_direct, [(d, set(props), ctx.seed + i) for i, d in enumerate(dspecs)])
    skips = {}
    for recs in allrecs:
        for clause, ok, wit, msg in recs:
            if clause.startswith('skip.'): skips[clause] = skips.get(clause, 0) + 1; continue
            p, cl = clause.split(':', 1)
            if p == 'X':
                ctx.notes.append('battery problem: ' + msg[:300]); ctx.fail('battery#crash', 'battery', wit, msg); continue
            if p not in props: continue
            ctx.check(cl, cl.split('#')[0], ok, wit, msg)
    ctx.notes.append('not judged: %r' % (skips,))
