"""Brute-force oracle for the carvers, written from the statement of C01/C02 (not from the code):
candidates = contiguous partitions of the ordered base modalities, viability from the property text, measure from the text-book
formula with scipy's chi2 / Kruskal-Wallis as trusted statistic."""
import itertools, math
import numpy as np
import pandas as pd
from scipy.stats import chi2_contingency, kruskal

NAN = '__NAN__'


def partitions(n, kmin, kmax):
    """contiguous partitions of range(n) into kmin..kmax non-empty groups, as lists of lists of positions"""
    out = []
    for k in range(kmin, min(kmax, n) + 1):
        for cuts in itertools.combinations(range(1, n), k - 1):
            b = (0,) + cuts + (n,)
            out.append([list(range(b[i], b[i + 1])) for i in range(k)])
    return out


class Tab:
    """per base modality: binary target -> [n0, n1]; continuous -> list of y values"""
    def __init__(self, target, data): self.target, self.data = target, data
    def merge(self, labels):
        if self.target == 'binary':
            return [sum(self.data.get(l, [0, 0])[0] for l in labels), sum(self.data.get(l, [0, 0])[1] for l in labels)]
        return [v for l in labels for v in self.data.get(l, [])]
    def n(self, cell): return (cell[0] + cell[1]) if self.target == 'binary' else len(cell)
    def rate(self, cell):
        n = self.n(cell)
        if n == 0: return float('nan')
        return cell[1] / n if self.target == 'binary' else float(np.mean(cell))


def measure(tab, cells, sort_by):
    if tab.target == 'binary':
        arr = np.array(cells, dtype=float)
        n = arr.sum(); k = arr.shape[0]
        chi2 = chi2_contingency(arr)[0]
        v = math.sqrt(chi2 / n)
        return v if sort_by == 'cramerv' else v / (k - 1) ** 0.25
    return kruskal(*[tuple(c) for c in cells])[0]


def viability(tab, cells, min_freq_mod):
    """-> (ok, indeterminate_rank_info) on one sample: frequencies and order-adjacent distinct rates"""
    total = sum(tab.n(c) for c in cells)
    freqs = [tab.n(c) / total for c in cells] if total else [0 for _ in cells]
    rates = [tab.rate(c) for c in cells]
    ok_freq = all(f >= min_freq_mod for f in freqs)
    ok_rates = not any(np.isclose(rates[1:], rates[:-1]))
    return ok_freq and ok_rates, rates


def rank_of(rates):
    return list(np.argsort(np.array(rates), kind='stable'))


def has_rate_tie(rates):
    r = [x for x in rates]
    for i in range(len(r)):
        for j in range(i + 1, len(r)):
            if (math.isnan(r[i]) and math.isnan(r[j])) or np.isclose(r[i], r[j]): return True
    return False


def evaluate(groups, tab, tab_dev, cfg, sort_by):
    """groups: list of lists of base labels (order-contiguous).  -> dict(viable, measure, indeterminate)"""
    cells = [tab.merge(g) for g in groups]
    ok, rates = viability(tab, cells, cfg['min_freq_mod'])
    ind = False
    if ok and tab_dev is not None:
        dcells = [tab_dev.merge(g) for g in groups]
        okd, drates = viability(tab_dev, dcells, cfg['min_freq_mod'])
        if not okd: ok = False                                             # rejected on dev whatever the ranking
        else:
            if has_rate_tie(rates) or has_rate_tie(drates): ind = True     # (non-adjacent) equal rates: ranking by rate not determined
            ok = rank_of(rates) == rank_of(drates)
    try:
        m = measure(tab, cells, sort_by)
    except Exception as e:
        m = float('nan')
    return dict(viable=bool(ok), measure=m, indeterminate=ind or (isinstance(m, float) and math.isnan(m)))


def search(order, has_nan, tab, tab_dev, cfg, sort_by, tol=1e-9):
    """-> dict(kept, finals: list of acceptable final groupings' (measure), indeterminate, detail)
    order: base labels without the missing-value label"""
    m = len(order); mx = cfg['max_n_mod']
    res = dict(kept=False, best=[], indeterminate=False, stage1=None, stage2=None)
    if m < 2: return res
    def restrict(t):
        if t is None: return None
        return Tab(t.target, {k: v for k, v in t.data.items() if k != NAN})
    t1, t1d = restrict(tab), restrict(tab_dev)
    cands = [[[order[i] for i in g] for g in p] for p in partitions(m, 2, mx)]
    evs = [(c, evaluate(c, t1, t1d, cfg, sort_by)) for c in cands]
    if any(e['indeterminate'] for _, e in evs): res['indeterminate'] = True
    viable = [(c, e) for c, e in evs if e['viable']]
    res['stage1'] = dict(n_candidates=len(cands), n_viable=len(viable))
    if not viable: return res
    best = max(e['measure'] for _, e in viable)
    winners = [c for c, e in viable if e['measure'] >= best - tol * max(1, abs(best))]
    if not (cfg['dropna'] and has_nan):
        res['kept'] = True; res['best'] = [(best, w) for w in winners]; return res
    # stage 2: place the missing-value modality (groups of the stage-1 winner possibly re-merged)
    finals = []; any_viable = False; n2 = 0
    for w in winners:
        k = len(w)
        c2 = []
        for p in partitions(k, 2, mx):
            h = [[l for gi in g for l in w[gi]] for g in p]
            for j in range(len(h)): c2.append([list(g) + [NAN] if i == j else list(g) for i, g in enumerate(h)])
            if len(h) < mx: c2.append([list(g) for g in h] + [[NAN]])
        ev2 = [(c, evaluate(c, tab, tab_dev, cfg, sort_by)) for c in c2]; n2 += len(c2)
        if any(e['indeterminate'] for _, e in ev2): res['indeterminate'] = True
        v2 = [(c, e) for c, e in ev2 if e['viable']]
        if v2:
            any_viable = True; b2 = max(e['measure'] for _, e in v2)
            finals += [(b2, c) for c, e in v2 if e['measure'] >= b2 - tol * max(1, abs(b2))]
        else:
            finals.append((None, None))                       # with this stage-1 winner the feature would be dropped
    res['stage2'] = dict(n_candidates=n2)
    res['best'] = finals; res['kept'] = any_viable
    res['all_winners_agree'] = all(f[0] is not None for f in finals) or all(f[0] is None for f in finals)
    return res


def base_view(case, cfg):
    """base modalities from a Discretizer with the same parameters (as the property says) -> per feature: order (labels), has_nan,
    train/dev tables keyed by label, per-row base label"""
    from rtc.zoo import make_discretizer
    disc = make_discretizer(case, cfg['min_freq'])
    disc.fit(case['X'], case['y'])
    # base modality of every row, read off the fitted orders row by row (NOT through Discretizer.transform, so that the oracle does not inherit its row alignment)
    from rtc import objects as ob
    def base_rows(X):
        out = {}
        for f in disc.features:
            lab = disc.labels_per_values[f]; col = []
            for v in X[f].tolist():
                g = ob.group_of(disc, f, v)
                if g is None: raise AssertionError('value %r of %s has no base modality' % (v, f))
                col.append(lab[g])
            out[f] = pd.Series(col, dtype=object)
        return out
    xb = base_rows(case['X'])
    xbd = base_rows(case['X_dev']) if case['X_dev'] is not None else None
    out = {}
    for f in disc.features:
        leaders = list(disc.values_orders[f]); lab = disc.labels_per_values[f]
        order = []
        for l in leaders:
            ll = lab[l]
            if ll not in order: order.append(ll)
        has_nan = NAN in order
        order_nn = [l for l in order if l != NAN]
        def tab_of(col, y):
            data = {}
            for v, t in zip(col.tolist(), y.tolist()):
                k = NAN if (isinstance(v, float) and math.isnan(v)) else v
                if case['target'] == 'binary': data.setdefault(k, [0, 0])[int(t)] += 1
                else: data.setdefault(k, []).append(t)
            return Tab(case['target'], data)
        out[f] = dict(order=order_nn, has_nan=has_nan or any(k == NAN for k in tab_of(xb[f], case['y']).data), tab=tab_of(xb[f], case['y']),
                      tab_dev=tab_of(xbd[f], case['y_dev']) if xbd is not None else None, rows=xb[f].tolist(), rows_dev=xbd[f].tolist() if xbd is not None else None)
    return disc, out


def carver_grouping(carver, case, f, base_rows):
    """partition of the base labels induced by the carver's transform of the training data: list of groups in the carver's order"""
    xt = carver.transform(case['X'])
    fin = xt[f].tolist(); mapping = {}
    for b, l in zip(base_rows, fin):
        b = NAN if (isinstance(b, float) and math.isnan(b)) else b
        l = '__MISSING_OUT__' if (isinstance(l, float) and math.isnan(l)) else l
        mapping.setdefault(b, set()).add(l)
    return mapping
