"""Bounded contracts for C01 / C02 (and the contiguity clause of C03) on the real BinaryCarver / ContinuousCarver `fit`,
against the brute-force oracle of rtc/oracle_carver.py.  One fit serves several clauses; each property's check reports only its own."""
import math, itertools, traceback
import numpy as np
import pandas as pd
from rtc import zoo, oracle_carver as oc

PAIRS = [(4, 1), (1, 4), (3, 3), (5, 5), (2, 2), (8, 2), (1, 1), (2, 6)]


def table_cases(rng, n_tables, tier):
    cases = []
    kinds = ['ordinal', 'categorical', 'quantitative']
    for t in range(n_tables):
        k = rng.choice([2, 3, 3, 4, 4, 5] if tier == 'thorough' else [2, 3, 3, 4, 4])
        counts = [rng.choice(PAIRS) for _ in range(k)]
        if sum(c[1] for c in counts) == 0 or sum(c[0] for c in counts) == 0: continue
        kind = kinds[t % 3]
        nanc = rng.choice([None, None, (2, 1), (1, 3), (3, 3)])
        dev = None; devnan = None
        if rng.random() < 0.4:
            dev = [rng.choice(PAIRS) if rng.random() < 0.6 else c for c in counts]
            if nanc: devnan = rng.choice([(1, 1), (2, 1), (1, 3)])
        cont = (t % 5 == 4)
        names = list(zoo.NAMES[:k]);
        if rng.random() < 0.3: rng.shuffle(names)
        if t % 7 == 3: names = ['segment_of_customers_with_a_very_long_common_prefix_' + nm for nm in names]          # names that differ only after 50 characters
        case = zoo.table_case(counts, kind=kind, nan_counts=nanc, dev_counts=dev, dev_nan=devnan, names=names, continuous=cont)
        # thresholds placed ON observed group frequencies
        N = sum(a + b for a, b in counts) + (sum(nanc) if nanc else 0); Nn = sum(a + b for a, b in counts)
        sizes = sorted(set([a + b for a, b in counts] + [counts[i][0] + counts[i][1] + counts[i + 1][0] + counts[i + 1][1] for i in range(k - 1)]))
        mfm = rng.choice([sizes[0] / Nn, sizes[0] / N, sizes[min(1, len(sizes) - 1)] / Nn, 0.01, sizes[-1] / N, 0.0, 0])          # incl. an explicit 0 (falsy)
        # ... or a hair above / below one (less than 5e-5 away: decisions are taken on the exact frequencies, not on rounded ones)
        near = [(f + round(f, 4)) / 2 for f in [s_ / d_ for s_ in sizes for d_ in (N, Nn)] if round(f, 4) != f]
        if near and t % 4 == 1: mfm = rng.choice(near)
        cfg = dict(min_freq=0.04, min_freq_mod=mfm, max_n_mod=rng.choice([2, 3, 4]), sort_by=rng.choice(['tschuprowt', 'cramerv']),
                   dropna=rng.choice([True, True, False]), output_dtype=rng.choice(['float', 'str']))
        if t % 9 == 4: cfg['verbose'] = True          # (output silenced by the harness)
        if t % 5 == 2: cfg['str_nan'] = 'MISSING'; cfg['str_default'] = 'AUTRES'          # custom markers (the oracle's Discretizer keeps the default ones)
        reindex(case, rng, t)
        cases.append((case, cfg))
    return cases


def reindex(case, rng, t):
    """every third frame gets a non-default index (rows of a split / shuffled sample): offset, shuffled integers or strings; y follows X"""
    if t % 3 == 0: return
    def relabel(X, y, kind):
        n = len(X)
        idx = [i * 3 + 100 for i in range(n)] if kind == 1 else None
        if kind == 2:
            idx = list(range(n)); rng.shuffle(idx)
        X.index = idx; y.index = idx
    relabel(case['X'], case['y'], t % 3)
    if case['X_dev'] is not None: relabel(case['X_dev'], case['y_dev'], t % 3)


def continuous_tie_cases(rng, n):
    """ContinuousCarver: an ordinal feature whose modalities are NOT in alphabetical order, two NON-adjacent modalities with exactly the same target values (equal
    means): they may stay apart because they are not neighbours in the feature's order"""
    out = []
    for t in range(n):
        names = list(zoo.NAMES[:4]); rng.shuffle(names); r = rng.choice([4, 6, 8])
        lv = [[1.0, 2.0, 3.0], [6.0, 7.0, 8.5], [11.0, 12.0, 13.5]]; a, b = rng.sample(range(3), 2)
        pattern = [lv[a], lv[b], lv[a], lv[3 - a - b]]          # positions 0 and 2 tie exactly
        xs, ys = [], []
        for nm, vals in zip(names, pattern):
            xs += [nm] * (len(vals) * r); ys += vals * r
        idx = list(range(len(xs))); rng.shuffle(idx)
        X = pd.DataFrame({'f': pd.Series([xs[i] for i in idx], dtype=object)}); y = pd.Series([ys[i] for i in idx])
        case = dict(X=X, y=y, X_dev=None, y_dev=None, quantitative=[], qualitative=[], ordinal=['f'], values_orders={'f': list(names)}, target='continuous', origin=dict(kind='continuous_tie', names=names))
        cfg = dict(min_freq=0.04, min_freq_mod=rng.choice([None, 0.05]), max_n_mod=rng.choice([3, 4]), sort_by='tschuprowt', dropna=True, output_dtype=rng.choice(['float', 'str']))
        out.append((case, cfg))
    return out


def random_cases(rng, n):
    out = []
    for _ in range(n):
        case = zoo.random_case(rng)
        cfg = dict(rng.choice(zoo.CONFIGS)); cfg['min_freq_mod'] = rng.choice([None, None, cfg['min_freq'], 0.05, 0.0])
        if len(out) % 4 == 1: cfg['str_nan'] = 'MISSING'; cfg['str_default'] = 'AUTRES'
        if len(out) % 5 == 2: cfg['verbose'] = True
        reindex(case, rng, len(out))
        out.append((case, cfg))
    return out


def c02_output_clauses(recs, w, f, xt, xtd, case, eff):
    labels = None
    # C02 on transform output
    out = xt[f]; nn_in = case['X'][f].notna()
    labels = [l for l in pd.unique(out[out.notna()])]
    if eff['dropna']:
        recs.append(('C02:transform#post.no_missing_output_when_dropna', bool(out.notna().all()), w, 'missing output with dropna=True', True))
        denom = len(out)
    else:
        recs.append(('C02:transform#post.missing_preserved_when_not_dropna', bool((out.isna() == ~nn_in).all()), w, 'missing rows not preserved in place', True))
        denom = int(nn_in.sum())
    fr = out[out.notna()].value_counts() / max(denom, 1)
    recs.append(('C02:transform#post.label_frequency_at_least_min_freq_mod', bool((fr >= eff['min_freq_mod']).all()), w, 'label frequencies %r < %r' % (fr.to_dict(), eff['min_freq_mod']), True))
    recs.append(('C02:transform#post.at_most_max_n_mod_labels', len(labels) <= eff['max_n_mod'], w, '%d labels' % len(labels), True))
    if xtd is not None:
        outd = xtd[f]; dl = set(pd.unique(outd[outd.notna()])); tl = set(labels)
        if eff['min_freq_mod'] > 0:          # (with an explicit threshold of 0 a label may legitimately be absent from the dev sample)
            recs.append(('C02:transform#post.dev_same_label_set', dl == tl, w, 'dev labels %r != train labels %r' % (dl, tl), True))
        dd = len(outd) if eff['dropna'] else int(case['X_dev'][f].notna().sum())
        frd = outd[outd.notna()].value_counts() / max(dd, 1)
        recs.append(('C02:transform#post.dev_label_frequency', bool((frd >= eff['min_freq_mod']).all()), w, 'dev frequencies %r' % (frd.to_dict(),), True))
        rt = case['y'].groupby(out).mean(); rd = case['y_dev'].groupby(outd).mean()
        if not oc.has_rate_tie(rt.tolist()) and not oc.has_rate_tie(rd.tolist()) and dl == tl:
            recs.append(('C02:transform#post.dev_same_rate_ranking', list(rt.sort_values().index) == list(rd.sort_values().index), w, 'rank train %r dev %r' % (rt.to_dict(), rd.to_dict()), True))


def one(arg):
    """-> list of records (clause, ok, witness, message, nontrivial)"""
    case, cfg = arg
    recs = []
    lit = dict(case=zoo.case_literal(case), cfg=cfg)
    eff = dict(cfg); eff['min_freq_mod'] = cfg['min_freq_mod'] if cfg.get('min_freq_mod') is not None else cfg['min_freq'] / 2
    sort_by = cfg.get('sort_by', 'tschuprowt') if case['target'] == 'binary' else 'kruskal'
    try:
        disc, base = oc.base_view(case, cfg)
    except AssertionError as e:
        return [('skip.discretizer_rejects', True, None, str(e)[:100], False)]
    except Exception as e:
        return [('C08:fit#raises.only_AssertionError', False, lit, 'Discretizer.fit raised %s: %s' % (type(e).__name__, str(e)[:200]), True)]
    try:
        carver = zoo.fit_carver(case, cfg)
    except AssertionError as e:
        # the Discretizer with the same parameters (default markers) accepted this sample: the carver has no reason to refuse it
        return [('C01:fit#raises.nothing_on_a_sample_the_base_discretizer_accepts', False, lit, 'carver.fit raised AssertionError: %s' % str(e)[:300], True)]
    except Exception as e:
        return [('C08:fit#raises.only_AssertionError', False, lit, 'carver.fit raised %s: %s\n%s' % (type(e).__name__, str(e)[:200], traceback.format_exc()[-600:]), True)]
    try:
        xt = carver.transform(case['X'])
        xtd = carver.transform(case['X_dev']) if case['X_dev'] is not None else None
    except Exception as e:
        return [('C05:transform#train_accepted', False, lit, 'transform of the training data raised %s: %s' % (type(e).__name__, str(e)[:200]), True)]
    all_feats = case['quantitative'] + case['qualitative'] + case['ordinal']
    for f in all_feats:
        if f not in base:
            recs.append(('skip.feature_dropped_by_discretizer', True, None, '', False)); continue
        b = base[f]; w = dict(lit, feature=f)
        try:
            res = oc.search(b['order'], b['has_nan'], b['tab'], b['tab_dev'], eff, sort_by)
        except Exception as e:
            recs.append(('skip.oracle_error', True, None, str(e)[:100], False)); continue
        kept = f in carver.features
        if kept: c02_output_clauses(recs, w, f, xt, xtd, case, eff)          # judged on every kept feature, whatever the oracle says
        if res['indeterminate']:
            recs.append(('skip.indeterminate_ranking_or_measure', True, None, '', False)); continue
        if res.get('stage2') is not None and not res.get('all_winners_agree', True):
            recs.append(('skip.stage1_tie_changes_outcome', True, None, '', False)); continue
        recs.append(('C01:fit#post.kept_iff_viable_candidate', kept == res['kept'], w,
                     'feature %s: carver kept=%s, oracle has viable candidate=%s (stage1 %s, stage2 %s)' % (f, kept, res['kept'], res['stage1'], res['stage2']), True))
        if not kept or not res['kept']: continue
        # grouping fitted by the carver, in terms of base modalities
        mapping = {}
        for bl, l in zip(b['rows'], xt[f].tolist()):
            bl = oc.NAN if (isinstance(bl, float) and math.isnan(bl)) else bl
            l = '__MISSING_OUT__' if (isinstance(l, float) and math.isnan(l)) else l
            mapping.setdefault(bl, set()).add(l)
        ok_fn = all(len(v) == 1 for v in mapping.values())
        recs.append(('C01:fit#post.groups_are_unions_of_base_modalities', ok_fn, w, 'a base modality is split over several labels: %r' % ({k: sorted(map(str, v)) for k, v in mapping.items()},), True))
        if not ok_fn: continue
        lab_of = {k: next(iter(v)) for k, v in mapping.items()}
        order_full = b['order'] + ([oc.NAN] if (b['has_nan'] and oc.NAN in lab_of) else [])
        groups = []; seen = {}
        for bl in order_full:
            if bl not in lab_of: continue           # base modality without training rows
            l = lab_of[bl]
            if l == '__MISSING_OUT__': continue
            if l not in seen: seen[l] = len(groups); groups.append([])
            groups[seen[l]].append(bl)
        # contiguity (C03) of the non-missing part
        pos = {bl: i for i, bl in enumerate(b['order'])}
        contig = all((lambda ps: ps == list(range(ps[0], ps[0] + len(ps))) if ps else True)([pos[x] for x in g if x != oc.NAN]) for g in groups)
        recs.append(('C03:fit#post.groups_contiguous', contig, w, 'groups %r are not contiguous runs of %r' % (groups, b['order']), True))
        stage2 = eff['dropna'] and b['has_nan']
        tab = b['tab'] if stage2 else oc.Tab(b['tab'].target, {k: v for k, v in b['tab'].data.items() if k != oc.NAN})
        tabd = b['tab_dev'] if (stage2 or b['tab_dev'] is None) else oc.Tab(b['tab_dev'].target, {k: v for k, v in b['tab_dev'].data.items() if k != oc.NAN})
        ev = oc.evaluate(groups, tab, tabd, eff, sort_by)
        recs.append(('C01:fit#post.fitted_grouping_is_viable', ev['viable'], w, 'fitted grouping %r is not viable by the oracle (min_freq_mod=%r)' % (groups, eff['min_freq_mod']), True))
        recs.append(('C02:fit#post.at_most_max_n_mod_groups', len(groups) <= eff['max_n_mod'], w, '%d groups > max_n_mod=%d' % (len(groups), eff['max_n_mod']), True))
        bests = [m for m, _ in res['best'] if m is not None]
        okm = any(abs(ev['measure'] - m) <= 1e-9 * max(1, abs(m)) for m in bests) if not math.isnan(ev['measure']) else False
        recs.append(('C01:fit#post.measure_is_maximal_over_viable', okm, w,
                     'feature %s: fitted grouping %r has %s=%.12g, oracle optimum %r e.g. %r' % (f, groups, sort_by, ev['measure'], bests[:3], [g for _, g in res['best'][:1]]), True))
    return recs


def run_battery(ctx, props):
    n_tab = 700 if ctx.tier == 'quick' else 6000
    n_rnd = 150 if ctx.tier == 'quick' else 1500
    cases = table_cases(ctx.rng, n_tab, ctx.tier) + continuous_tie_cases(ctx.rng, n_tab // 50) + random_cases(ctx.rng, n_rnd)
    ctx.bound('carver.fit', '%d single-feature count-table frames (2-5 modalities, per-modality (n0,n1) from %r, optional missing-value rows, optional dev table, thresholds '
              'placed on observed group frequencies, label names whose order differs from alphabetical order) and %d random multi-feature frames; seeded' % (n_tab, PAIRS, n_rnd))
    allrecs = zoo.pmap(one, cases)
    skips = {}
    for recs in allrecs:
        for clause, ok, wit, msg, nontrivial in recs:
            if clause.startswith('skip.'):
                skips[clause] = skips.get(clause, 0) + 1; continue
            p, cl = clause.split(':', 1)
            if p not in props: continue
            key = dict(feature=wit.get('feature'), cfg=wit['cfg'], case=wit['case']) if isinstance(wit, dict) else wit
            ctx.check(cl, 'carver.fit', ok, key, msg)
    ctx.notes.append('cases not judged: %r' % (skips,))


def run(ctx):
    run_battery(ctx, {ctx.prop})
