"""Small-scope data generators shared by the bounded checks (engine R).

A *case* is a dict: X, y, X_dev, y_dev (or None), quantitative / qualitative / ordinal feature lists, values_orders (for the
ordinal ones), target kind.  Two families:
  * table cases  : one feature built from an explicit count table (per modality: number of y=0 rows, number of y=1 rows), so that
                   exact rate ties, frequencies exactly on a threshold and label orders that differ from alphabetical order occur;
  * random cases : several features of different archetypes (discrete / continuous / categorical / numeric-looking categories /
                   ordinal with never-observed values), optional NaN, optional dev sample.
Everything is derived from the seed, nothing else.
"""
import itertools, math
import numpy as np
import pandas as pd

NAMES = ['zeta', 'alpha', 'mid', 'kilo', 'beta', 'omega', 'delta']          # first-appearance order != alphabetical order


def table_case(counts, kind='ordinal', nan_counts=None, dev_counts=None, dev_nan=None, names=None, continuous=False, quant_values=None):
    """counts: list of (n0, n1) per modality, in the feature's natural order"""
    names = names or NAMES[:len(counts)]
    def rows(cnts, nanc):
        xs, ys = [], []
        for i, (n0, n1) in enumerate(cnts):
            v = names[i] if kind != 'quantitative' else (quant_values[i] if quant_values else float(i + 1))
            xs += [v] * (n0 + n1); ys += [0] * n0 + [1] * n1
        if nanc:
            xs += [np.nan] * (nanc[0] + nanc[1]); ys += [0] * nanc[0] + [1] * nanc[1]
        return xs, ys
    xs, ys = rows(counts, nan_counts)
    X = pd.DataFrame({'f': pd.Series(xs, dtype=object if kind != 'quantitative' else float)}); y = pd.Series(ys)
    if continuous:
        # continuous target: class 1 rows get larger values, spread deterministically
        y = pd.Series([float(v) * 10 + (i % 7) * 0.5 for i, v in enumerate(ys)])
    case = dict(X=X, y=y, X_dev=None, y_dev=None, quantitative=[], qualitative=[], ordinal=[], values_orders={}, target='continuous' if continuous else 'binary',
                origin=dict(kind='table', counts=[list(c) for c in counts], feature_kind=kind, nan=list(nan_counts) if nan_counts else None,
                            dev=[list(c) for c in dev_counts] if dev_counts else None, dev_nan=list(dev_nan) if dev_nan else None, names=list(names), continuous=continuous))
    if kind == 'ordinal': case['ordinal'] = ['f']; case['values_orders'] = {'f': list(names)}
    elif kind == 'categorical': case['qualitative'] = ['f']
    else: case['quantitative'] = ['f']
    if dev_counts:
        dx, dy = rows(dev_counts, dev_nan)
        case['X_dev'] = pd.DataFrame({'f': pd.Series(dx, dtype=object if kind != 'quantitative' else float)})
        case['y_dev'] = pd.Series(dy) if not continuous else pd.Series([float(v) * 10 + (i % 5) * 0.7 for i, v in enumerate(dy)])
    return case


DEGENERATE = ['q_const', 'q_allnan', 'o_many', 'c_id', 'q_unique', 'c_const', 'q_two', 'q_dates', 'q_zero_nan', 'q_ulp']


def random_case(rng, n=None, with_dev=None, target=None, allow_nan=True, degenerate=False, variants=False):
    n = n or rng.choice([30, 40, 60, 90])
    target = target or rng.choice(['binary', 'binary', 'continuous'])
    with_dev = rng.random() < 0.4 if with_dev is None else with_dev
    nd = n if with_dev else 0
    N = n + nd
    cols = {}; quantitative, qualitative, ordinal, vo = [], [], [], {}
    latent = [rng.random() for _ in range(N)]
    def maybe_nan(vals, p):
        return [np.nan if (allow_nan and rng.random() < p) else v for v in vals]
    arche = rng.sample(['q_disc', 'q_cont', 'c_cat', 'c_num', 'o_ord', 'q_spike'], rng.choice([2, 3, 3, 4]))
    if variants and rng.random() < 0.5 and 'c_cat' in arche: arche = arche + ['c_cat2']          # a second categorical feature sharing its modality names with the first
    if variants and rng.random() < 0.3: arche = arche + ['c_int']
    if variants and rng.random() < 0.3: arche = arche + ['c_float']                                                    # categorical codes stored in a FLOAT column (codes 1.0 .. 5.0, rare ones, missing values)                                                      # a categorical feature stored in an int64 column
    if degenerate: arche = arche[:2] + [degenerate if isinstance(degenerate, str) else rng.choice(DEGENERATE)]
    for a in arche:
        pn = rng.choice([0, 0, 0.08, 0.2])
        if a == 'q_disc':
            k = rng.choice([3, 4, 6]); cols[a] = maybe_nan([float(min(k - 1, int(l * k + rng.random() * 0.8))) for l in latent], pn); quantitative.append(a)
        elif a == 'q_cont':
            cols[a] = maybe_nan([round(l * 10 + rng.gauss(0, 2), 2) for l in latent], pn); quantitative.append(a)
        elif a == 'q_spike':
            cols[a] = maybe_nan([0.0 if rng.random() < 0.5 else round(rng.random() * 5, 1) for l in latent], pn); quantitative.append(a)
        elif a == 'c_cat':
            k = rng.choice([3, 4, 5]); w = [rng.random() ** 2 + 0.05 for _ in range(k)]
            cols[a] = maybe_nan([NAMES[min(k - 1, int(l * k + rng.random() * 1.2))] if rng.random() < 0.8 else rng.choices(NAMES[:k], w)[0] for l in latent], pn); qualitative.append(a)
        elif a == 'c_cat2':
            k = rng.choice([4, 5, 6]); cols[a] = maybe_nan([NAMES[(int(l * 3 + rng.random() * 1.5) + i) % k] for i, l in enumerate(latent)], pn); qualitative.append(a)
        elif a == 'c_int':
            k = rng.choice([3, 4]); cols[a] = [1 + min(k - 1, int(l * k + rng.random() * 0.9)) for l in latent]; qualitative.append(a)
        elif a == 'c_float':
            codes = [1.0, 2.0, 3.0, 4.0, 5.0]; w_ = [0.4, 0.3, 0.2, 0.07, 0.03]
            cols[a] = maybe_nan([codes[min(4, int(l * 3 + rng.random() * 1.2))] if rng.random() < 0.7 else rng.choices(codes, w_)[0] for l in latent], 0.1); qualitative.append(a)
        elif a == 'c_num':
            pool = [1, 2.0, '3', 4.5, 'x']; k = rng.choice([3, 4, 5])
            cols[a] = maybe_nan([pool[min(k - 1, int(l * k + rng.random()))] for l in latent], pn); qualitative.append(a)
        elif a == 'o_ord':
            rank = ['low', 'mid', 'high', 'top', 'never'][:rng.choice([3, 4, 5])]; k = len(rank) - (1 if rank[-1] == 'never' else 0)
            cols[a] = maybe_nan([rank[min(k - 1, int(l * k + rng.random() * 0.9))] for l in latent], pn); ordinal.append(a); vo[a] = list(rank)
        elif a == 'q_dates':
            # dates coded YYYYMMDD / large ids: quantiles that differ only from the 6th-8th significant digit on, with a spike (ties -> rare quantiles that get regrouped)
            base = rng.choice([20230100.0, 1700000000.0, 1000000.0]); spike = base + rng.choice([1, 15]); step = rng.choice([1.0, 1.0, 0.01])
            cols[a] = maybe_nan([spike if rng.random() < 0.45 else base + step * (1 + int(l * 27 + rng.random() * 3)) for l in latent], pn); quantitative.append(a)
        elif a == 'q_ulp':
            # floating-point noise: values a few ulps apart (1.0, 1.0000000000000002, ...) or 0.125 apart around 1e15; one of them rare
            base, step = rng.choice([(1.0, 2.220446049250313e-16), (1e15, 0.125)])
            cols[a] = maybe_nan([base + step * (2 if rng.random() < 0.04 else rng.choice([0, 1, 3, 4, 5])) for l in latent], pn); quantitative.append(a)
        elif a == 'q_zero_nan':
            # an 'amount' column: a spike on 0.0 that is its own quantile, nothing below it, and missing values that behave like the zeros
            cols[a] = [np.nan if (l < 0.45 and rng.random() < 0.4 and allow_nan) else 0.0 if l < 0.45 else round(l * 10 + rng.random(), 1) for l in latent]; quantitative.append(a)
        elif a == 'q_const': cols[a] = maybe_nan([3.5] * N, pn); quantitative.append(a)
        elif a == 'q_allnan': cols[a] = [np.nan] * N; quantitative.append(a)
        elif a == 'q_unique': cols[a] = maybe_nan([round(l * 100 + i * 1e-3, 4) for i, l in enumerate(latent)], pn); quantitative.append(a)
        elif a == 'q_two': cols[a] = maybe_nan([0.0 if l < 0.93 else 1.0 for l in latent], pn); quantitative.append(a)
        elif a == 'c_const': cols[a] = maybe_nan(['only'] * N, pn); qualitative.append(a)
        elif a == 'c_id': cols[a] = ['id_%d' % (i % max(2, N - 3)) for i in range(N)]; qualitative.append(a)
        elif a == 'o_many':
            rank = ['lvl_%02d' % i for i in range(30)]
            cols[a] = maybe_nan([rank[min(29, int(l * 30))] for l in latent], pn); ordinal.append(a); vo[a] = list(rank)
    if variants and 'c_cat' in cols and rng.random() < 0.35:
        # a category whose NAME looks like a special float / JSON literal (it is a string and must stay one through every conversion)
        present = [v for v in dict.fromkeys(cols['c_cat']) if isinstance(v, str)]
        if present:
            old_name = rng.choice(present); new_name = rng.choice(['inf', 'Infinity', '-inf', 'NaN', 'null', 'None', '1e5', 'nan'])
            cols['c_cat'] = [new_name if v == old_name else v for v in cols['c_cat']]
    if variants:
        for a in list(qualitative):
            if a == 'c_cat' and rng.random() < 0.5:
                seen = [v for v in dict.fromkeys(cols[a]) if isinstance(v, str)]; rng.shuffle(seen); vo[a] = seen          # user-supplied modalities for a NON-ordinal feature
    if target == 'binary':
        yv = [1 if l + rng.gauss(0, 0.35) > 0.55 else 0 for l in latent]
        if len(set(yv[:n])) < 2: yv[0], yv[1] = 0, 1
        if nd and len(set(yv[n:])) < 2: yv[n], yv[n + 1] = 0, 1
    elif variants and rng.random() < 0.4:
        yv = [min(0.999, max(0.0, round(l * 0.8 + rng.gauss(0, 0.08), 4))) for l in latent]                                 # ratio-like continuous target in [0, 1)
    else:
        yv = [round(l * 20 + rng.gauss(0, 4), 3) for l in latent]
    f32 = [c for c in cols if c.startswith('q_') and variants and rng.random() < 0.3]
    df = pd.DataFrame({c: pd.Series(v, dtype=('float32' if c in f32 else float if (c.startswith('q_') or c == 'c_float') else 'int64' if c == 'c_int' else object)) for c, v in cols.items()})
    y = pd.Series(yv)
    case = dict(X=df.iloc[:n].reset_index(drop=True), y=y.iloc[:n].reset_index(drop=True), X_dev=None, y_dev=None, quantitative=quantitative, qualitative=qualitative,
                ordinal=ordinal, values_orders=vo, target=target, origin=dict(kind='random', n=n, dev=with_dev))
    if with_dev:
        case['X_dev'] = df.iloc[n:].reset_index(drop=True); case['y_dev'] = y.iloc[n:].reset_index(drop=True)
        if degenerate and rng.random() < 0.5 and (qualitative or ordinal):
            # a small development sample in which one modality of the training sample never occurs
            f = rng.choice(qualitative + ordinal); seen = [v for v in pd.unique(case['X'][f]) if isinstance(v, str)]
            if seen:
                v = rng.choice(seen); keep = case['X_dev'][f] != v
                if keep.sum() >= 12 and (target != 'binary' or case['y_dev'][keep].nunique() == 2):
                    case['X_dev'] = case['X_dev'][keep].reset_index(drop=True); case['y_dev'] = case['y_dev'][keep].reset_index(drop=True); case['origin']['dev_without'] = [f, v]
    return case


def case_literal(case):
    """JSON-able literal from which the case can be rebuilt exactly (rebuild_case)"""
    def col(s): return [None if (isinstance(v, float) and math.isnan(v)) else (v.item() if hasattr(v, 'item') else v) for v in s.tolist()]
    out = dict(X={c: col(case['X'][c]) for c in case['X'].columns}, y=col(case['y']), quantitative=case['quantitative'], qualitative=case['qualitative'],
               ordinal=case['ordinal'], values_orders=case['values_orders'], target=case['target'], float32=[c for c in case['X'].columns if str(case['X'][c].dtype) == 'float32'], float64=[c for c in case['X'].columns if str(case['X'][c].dtype) == 'float64' and c not in case['quantitative']], int64=[c for c in case['X'].columns if str(case['X'][c].dtype) == 'int64'], index=[str(i) if not isinstance(i, (int, float)) else i for i in case['X'].index.tolist()])
    if case['X_dev'] is not None:
        out['X_dev'] = {c: col(case['X_dev'][c]) for c in case['X_dev'].columns}; out['y_dev'] = col(case['y_dev'])
    return out


def rebuild_case(lit):
    def frame(d): return pd.DataFrame({c: pd.Series([np.nan if v is None else v for v in vs], dtype=('float32' if c in lit.get('float32', []) else 'int64' if c in lit.get('int64', []) and None not in vs else float if (c in lit['quantitative'] or c in lit.get('float64', [])) else object)) for c, vs in d.items()})
    case = dict(X=frame(lit['X']), y=pd.Series(lit['y']), X_dev=None, y_dev=None, quantitative=lit['quantitative'], qualitative=lit['qualitative'], ordinal=lit['ordinal'],
                values_orders=lit['values_orders'], target=lit['target'], origin=dict(kind='literal'))
    if 'X_dev' in lit: case['X_dev'] = frame(lit['X_dev']); case['y_dev'] = pd.Series(lit['y_dev'])
    return case


def values_orders_arg(case):
    from AutoCarver.discretizers import GroupedList
    # a ranking is accepted as list or numpy array (same GroupedList whatever the container): the container is picked by the length of the ranking
    def seq(v): return [list(v), np.array(list(v), dtype=object)][len(v) % 2]
    return {f: (GroupedList({k: list(m) for k, m in v.items()}) if isinstance(v, dict) else GroupedList(seq(v))) for f, v in case['values_orders'].items()}


def make_carver(case, cfg):
    """cfg: dict(min_freq, max_n_mod, sort_by, dropna, output_dtype, min_freq_mod=None, copy=True)"""
    from AutoCarver.carvers.binary_carver import BinaryCarver
    from AutoCarver.carvers.continuous_carver import ContinuousCarver
    kw = dict(min_freq=cfg['min_freq'], quantitative_features=list(case['quantitative']), qualitative_features=list(case['qualitative']), ordinal_features=list(case['ordinal']),
              values_orders=values_orders_arg(case), max_n_mod=cfg['max_n_mod'], min_freq_mod=cfg.get('min_freq_mod'), output_dtype=cfg.get('output_dtype', 'float'),
              dropna=cfg.get('dropna', True), copy=cfg.get('copy', True), verbose=bool(cfg.get('verbose', False)), n_jobs=cfg.get('n_jobs', 1), **extra_kwargs(cfg))
    if cfg.get('verbose'): kw['pretty_print'] = False          # plain-text tables (the HTML ones need jinja2, which is not installed here)
    if case['target'] == 'binary': return BinaryCarver(sort_by=cfg.get('sort_by', 'tschuprowt'), **kw)
    return ContinuousCarver(**kw)


def fit_carver(case, cfg):
    c = make_carver(case, cfg)
    import contextlib, io
    with (contextlib.redirect_stdout(io.StringIO()) if cfg.get('verbose') else contextlib.nullcontext()), (contextlib.redirect_stderr(io.StringIO()) if cfg.get('verbose') else contextlib.nullcontext()):
        # verbose=True prints tables and progress bars: what is printed must not change what is fitted
        if case['X_dev'] is not None: c.fit(case['X'], case['y'], X_dev=case['X_dev'], y_dev=case['y_dev'])
        else: c.fit(case['X'], case['y'])
    return c


def extra_kwargs(cfg):
    return {k: cfg[k] for k in ('str_nan', 'str_default') if k in cfg}


def make_discretizer(case, min_freq, copy=True, cfg=None):
    from AutoCarver.discretizers import Discretizer
    return Discretizer(quantitative_features=list(case['quantitative']), qualitative_features=list(case['qualitative']), ordinal_features=list(case['ordinal']),
                       values_orders=values_orders_arg(case), min_freq=min_freq, copy=copy, verbose=False, **extra_kwargs(cfg or {}))


CONFIGS = [dict(min_freq=mf, max_n_mod=mx, sort_by=sb, dropna=dn, output_dtype=od)
           for mf in (0.1, 0.2) for mx in (2, 3, 4) for sb in ('tschuprowt', 'cramerv') for dn in (True, False) for od in ('float', 'str')]


def pmap(fn, items, procs=14):
    """parallel map with a process pool (fork); fn must be a module-level function"""
    import multiprocessing as mp
    if len(items) < 8 or procs <= 1: return [fn(x) for x in items]
    with mp.get_context('fork').Pool(procs) as pool:
        return pool.map(fn, items, chunksize=max(1, len(items) // (procs * 8)))
