"""Bounded contracts for C14 (select against a recomputation oracle) and C15 (relational: re-encodings leave the selection unchanged;
a copy / strictly monotone image of the target is returned)."""
import math, random, traceback, itertools
import numpy as np
import pandas as pd
from scipy.stats import chi2_contingency, kruskal, spearmanr
from rtc import zoo
from rtc.battery import outcome, frame_equal, series_list


# ------------------------------------------------------------------------------------------------ data
def make_frame(rng, target, n=None, ties=False):
    n = n or rng.choice([60, 90, 120])
    z1 = np.array([rng.gauss(0, 1) for _ in range(n)]); z2 = np.array([rng.gauss(0, 1) for _ in range(n)]); z3 = np.array([rng.gauss(0, 1) for _ in range(n)])
    noise = lambda s: np.array([rng.gauss(0, s) for _ in range(n)])
    if target == 'binary': y = pd.Series(((z1 + 0.6 * z2 + noise(0.7)) > 0).astype(int))
    elif target == 'multiclass': y = pd.Series(pd.qcut(pd.Series(z1 + 0.5 * z2 + noise(0.8)).rank(method='first'), 3, labels=False).astype(int))
    else: y = pd.Series(np.round(2 * z1 + z2 + noise(0.8), 4))
    Q = {'qa': z1 + noise(0.3), 'qa_dup': z1 + noise(0.05), 'qa_neg': -(z1 + noise(0.05)), 'qb': z2 + noise(0.5), 'qnoise': z3, 'qhalf': 0.5 * z1 + noise(1.0),
         'qconst': np.full(n, 2.0), 'qnan': np.where(np.array([rng.random() for _ in range(n)]) < 0.3, np.nan, z2 + noise(0.2))}
    z4 = np.array([rng.gauss(0, 1) for _ in range(n)])
    Q['qchain_b'] = 0.75 * Q['qa'] + z4 + noise(0.1); Q['qchain_c'] = z4 + noise(0.1)          # qa ~ qchain_b ~ qchain_c, but qa and qchain_c unrelated
    # missing values on OTHER rows than qnan (pairwise-complete correlations differ from correlations of separately ranked columns), and a feature whose observed
    # values are concentrated on one value but which is mostly missing (its mode is frequent among the observed values only)
    Q['qnan2'] = np.where(np.array([rng.random() for _ in range(n)]) < 0.35, np.nan, z2 + noise(0.4))
    Q['qmodenan'] = np.where(np.array([rng.random() for _ in range(n)]) < 0.6, np.nan, np.where(np.array([rng.random() for _ in range(n)]) < 0.97, 1.0, z1 + 3))
    X = pd.DataFrame({k: np.round(v, 4) for k, v in Q.items()})
    if ties: X['qa_x2'] = X['qa'] * 2.0                                                          # exact positive rescaling: exactly tied with qa on every rank-based measure
    def cat(v, k, names):
        r = pd.qcut(pd.Series(v).rank(method='first'), k, labels=False); return pd.Series([names[int(i)] for i in r], dtype=object)
    X['ca'] = cat(z1 + noise(0.4), 3, ['m', 'a', 'z']); X['ca_dup'] = cat(z1 + noise(0.1), 3, ['u', 'v', 'w']); X['cb'] = cat(z2 + noise(0.6), 4, ['p', 'q', 'r', 's'])
    X['cnoise'] = cat(z3, 3, ['x1', 'x2', 'x3']); X['cconst'] = pd.Series(['only'] * n, dtype=object)
    # two-category features (2x2 tables against a binary target or against each other: scipy applies Yates' continuity correction there)
    X['cbin_a'] = pd.Series(np.where(z1 + noise(0.5) > 0, 'yes', 'no'), dtype=object); X['cbin_b'] = pd.Series(np.where(z1 + noise(0.9) > 0.3, 'up', 'down'), dtype=object); X['cbin_c'] = pd.Series(np.where(z2 + noise(0.5) > -0.2, 'in', 'out'), dtype=object)
    cz = cat(np.array([rng.gauss(0, 1) for _ in range(n)]), 3, ['g', 'h', 'i'])
    X['cchain_b'] = X['ca'] + '|' + cz; X['cchain_c'] = cz                                        # ca ~ cchain_b ~ cchain_c, but ca and cchain_c unrelated
    cn = cat(z2 + noise(0.3), 3, ['k1', 'k2', 'k3']); X['cnan_full'] = cn.map(lambda v: 'full_' + v)                 # the same categories without missing values (fully redundant with cnan)
    cn = cn.copy(); cn[np.array([rng.random() for _ in range(n)]) < 0.25] = np.nan; X['cnan'] = cn
    # a strongly associated feature WITH missing values and a weaker near-duplicate of it without any (the better-ranked one is the one holding missing values)
    cs = cat(z1 + noise(0.2), 3, ['s1', 's2', 's3']); cs[np.array([rng.random() for _ in range(n)]) < 0.3] = np.nan; X['cnanb'] = cs
    X['cnanb_weak'] = cat(z1 + noise(0.7), 3, ['t1', 't2', 't3'])
    quant = ['qa', 'qa_dup', 'qa_neg', 'qb', 'qnoise', 'qhalf', 'qconst', 'qnan', 'qchain_b', 'qchain_c', 'qnan2', 'qmodenan']; qual = ['ca', 'ca_dup', 'cb', 'cnoise', 'cconst', 'cnan', 'cnan_full', 'cchain_b', 'cchain_c', 'cbin_a', 'cbin_b', 'cbin_c', 'cnanb', 'cnanb_weak']
    if ties:
        X['ca_ren'] = X['ca'].map(lambda v: 'ren_' + v); quant.append('qa_x2'); qual.append('ca_ren')
    return X, y, quant, qual


# ------------------------------------------------------------------------------------------------ oracle
def tschuprow(x, y):
    xt = pd.crosstab(x, y)
    if xt.shape[0] < 2 or xt.shape[1] < 2: return 0.0
    chi2 = chi2_contingency(xt)[0]; n = int((x.notna() & y.notna()).sum())
    return math.sqrt(chi2 / n / math.sqrt((x.nunique() - 1) * (y.nunique() - 1)))


def cramerv(x, y):
    xt = pd.crosstab(x, y); chi2 = chi2_contingency(xt)[0]; n = int((x.notna() & y.notna()).sum())
    return math.sqrt(chi2 / n / (min(x.nunique(), y.nunique()) - 1))


def kruskal_h(x, y):
    ok = x.notna(); groups = [x[ok & (y == c)] for c in y.unique()]
    return kruskal(*groups)[0]


def oracle_select(X, y, feats, dtype, n_best, thresh_corr, measure, thresh_nan=0.999, thresh_mode=0.999):
    """-> (list of expected features in order, ambiguous?)"""
    vals = {}
    for f in feats:
        x = X[f]
        if x.isna().mean() >= thresh_nan: continue
        mode = x.mode(dropna=True)
        if len(mode) and (x == mode.values[0]).mean() >= thresh_mode: continue
        try:
            v = measure(x, y)
        except Exception:
            continue
        if v is None or (isinstance(v, float) and (math.isnan(v) or math.isinf(v))): continue          # undefined (an infinite statistic: feature constant over its observed rows)
        vals[f] = v
    ranked = sorted(vals, key=lambda f: -vals[f])
    amb = any(abs(vals[a] - vals[b]) < 1e-12 for a, b in zip(ranked, ranked[1:]))
    kept = []
    for f in ranked:
        bad = False
        for g in kept:
            if dtype == 'float':
                c = abs(X[[f, g]].corr('spearman').iloc[0, 1]); c = 0.0 if math.isnan(c) else c
            else:
                c = tschuprow(X[f], X[g])
            if c > thresh_corr: bad = True; break
            if abs(c - thresh_corr) < 1e-9: amb = True
        if not bad: kept.append(f)
    return kept[:n_best], amb, vals


def make_selector(kind, quant, qual, n_best, **kw):
    from AutoCarver.selectors import ClassificationSelector, RegressionSelector
    cls = ClassificationSelector if kind == 'ClassificationSelector' else RegressionSelector
    return cls(n_best=n_best, quantitative_features=list(quant), qualitative_features=list(qual), verbose=False, **kw)


def one(arg):
    seed, prop = arg
    rng = random.Random(seed); recs = []
    kind = rng.choice(['ClassificationSelector', 'ClassificationSelector', 'RegressionSelector'])
    target = rng.choice(['binary', 'multiclass']) if kind == 'ClassificationSelector' else 'continuous'
    X, y, quant, qual = make_frame(rng, target, ties=(prop == 'C15' and seed % 2 == 0))
    n_best = rng.choice([1, 2, 3, 5]); tc = rng.choice([1, 0.9, 0.7, 0.5, round(rng.uniform(0.3, 0.95), 2), round(rng.uniform(0.3, 0.95), 2)])
    lit = dict(selector=kind, target=target, n_best=n_best, thresh_corr=tc, seed=seed, default_measures=True)
    def rec(clause, ok, msg, extra=None): recs.append((clause, bool(ok), dict(lit, **(extra or {})), msg))
    Xs, ys = X.copy(deep=True), y.copy(deep=True)
    r = outcome(lambda: make_selector(kind, quant, qual, n_best, thresh_corr=tc).select(X, y))
    if r[0] != 'ok':
        rec('select#raises.nothing_on_valid_input', False, 'select: %s' % r[0]); return recs
    sel = list(r[1])
    if prop == 'C14':
        rec('select#frame.X_and_y_unmodified', frame_equal(Xs, X) and series_list(ys) == series_list(y), 'X or y modified by select')
        rec('select#post.distinct_input_features', len(set(sel)) == len(sel) and all(f in quant + qual for f in sel), 'returned %r' % (sel,))
        for dtype, feats in (('float', quant), ('str', qual)):
            got = [f for f in sel if f in feats]
            rec('select#post.at_most_n_best_per_measure', len(got) <= n_best, '%d %s features returned, n_best=%d' % (len(got), dtype, n_best), dict(dtype=dtype))
            if kind == 'ClassificationSelector': meas = kruskal_h if dtype == 'float' else tschuprow
            else: meas = (lambda x, yy: 1 - abs(pd.concat([x, yy], axis=1).dropna().corr().iloc[0, 1])) if False else None
            if kind == 'RegressionSelector' and dtype == 'str': meas = lambda x, yy: kruskal(*[yy[x == c] for c in x.dropna().unique()])[0]
            if meas is None:
                # RegressionSelector / quantitative: the property's reading (decreasing association = |Pearson r| decreasing)
                meas = lambda x, yy: abs(pd.concat([x, yy], axis=1).dropna().corr().iloc[0, 1])
            exp, amb, vals = oracle_select(X, y, feats, dtype, n_best, tc, meas)
            if amb: continue
            extra_w = dict(dtype=dtype)
            if kind == 'RegressionSelector' and dtype == 'str' and got != exp:
                # known finding D25: with the reversed Kruskal measure a qualitative feature holding missing values gets an undefined measure
                meas_nan = lambda x, yy: float('nan') if x.isna().any() else meas(x, yy)
                exp_nan, _, _ = oracle_select(X, y, feats, dtype, n_best, tc, meas_nan)
                extra_w.update(returned=got, expected=exp, expected_if_features_with_missing_values_are_undefined=exp_nan)
            rec('select#post.best_ranked_mutually_unassociated_features', got == exp, '%s %s: returned %r, recomputation gives %r (measures %r)' % (kind, dtype, got, exp, {k: round(v, 4) for k, v in vals.items()}), extra_w)
            # no two returned features of a type associated above thresh_corr
            for a, b in itertools.combinations(got, 2):
                c = abs(X[[a, b]].corr('spearman').iloc[0, 1]) if dtype == 'float' else tschuprow(X[a], X[b])
                rec('select#post.no_two_returned_features_associated_above_thresh_corr', not (c > tc + 1e-9), '%s and %s: association %.4f > thresh_corr %.2f' % (a, b, c, tc), dict(dtype=dtype))
    else:
        # Exactly tied features (duplicates, negated / rescaled copies) have the SAME association with the target; the statistic of x and of -x is computed from
        # reversed ranks and may differ in its last bits, so which of two tied features comes first after a NEGATION is decided by rounding noise.  For that one
        # re-encoding -- and for ROW permutations, which change the order in which the classes of y are met and hence the order of a floating-point sum over the groups --
        # two selections are compared after replacing every feature by its tie class (features whose recomputed association agrees to 9 digits); the other
        # re-encodings (rescaling by a power of two, renaming, column permutation) leave the computation bit-identical and are compared exactly.
        def tie_classes():
            cls = {}
            for dtype, feats in (('float', quant), ('str', qual)):
                if kind == 'ClassificationSelector': meas = kruskal_h if dtype == 'float' else tschuprow
                elif dtype == 'str': meas = lambda x, yy: kruskal(*[yy[x == c_] for c_ in x.dropna().unique()])[0]
                else: meas = lambda x, yy: abs(pd.concat([x, yy], axis=1).dropna().corr().iloc[0, 1])
                for f in feats:
                    try: v = float(meas(X[f], y))
                    except Exception: v = float('nan')
                    cls[f] = f if v != v else (dtype, float('%.9g' % v))
            return cls
        _cls = tie_classes()
        class _Sel(list):
            def __eq__(self, other): return [_cls.get(f, f) for f in self] == [_cls.get(f, f) for f in other]
            def __ne__(self, other): return not self.__eq__(other)
        sel_exact = list(sel); sel_ties = _Sel(sel)          # tie classes are only used where the re-encoding changes the floating-point computation itself (negation reverses the ranks)
        def again(X2, quant2=quant, qual2=qual, ren=None):
            r2 = outcome(lambda: make_selector(kind, quant2, qual2, n_best, thresh_corr=tc).select(X2, y2 if False else y))
            return r2
        # (1) negate / rescale quantitative features
        for name, fn in (('negated', lambda v: -v), ('rescaled_x4', lambda v: v * 4.0), ('rescaled_x0.5', lambda v: v * 0.5), ('rescaled_x2^-33', lambda v: v * 2.0 ** -33), ('rescaled_x2^40', lambda v: v * 2.0 ** 40)):
            X2 = X.copy(); q = rng.choice([f for f in quant if f != 'qconst']); X2[q] = fn(X2[q])
            r2 = outcome(lambda: make_selector(kind, quant, qual, n_best, thresh_corr=tc).select(X2, y))
            rec('select#post.invariant_under_quantitative_%s' % ('negation' if name == 'negated' else 'positive_rescaling'), r2[0] == 'ok' and (sel_ties if name == 'negated' else sel) == list(r2[1]), 'feature %s %s: %r instead of %r' % (q, name, r2[1] if r2[0] == 'ok' else r2[0], sel), dict(reencoding=name, feature=q))
        # (2) rename categories
        X2 = X.copy(); c = rng.choice([f for f in qual if f != 'cconst']); X2[c] = X2[c].map(lambda v: v if isinstance(v, float) else 'renamed_' + str(v)[::-1])
        r2 = outcome(lambda: make_selector(kind, quant, qual, n_best, thresh_corr=tc).select(X2, y))
        rec('select#post.invariant_under_category_renaming', r2[0] == 'ok' and sel == list(r2[1]), 'categories of %s renamed: %r instead of %r' % (c, r2[1] if r2[0] == 'ok' else r2[0], sel), dict(feature=c))
        # (3) permute rows / columns / listing order
        p = list(range(len(X))); rng.shuffle(p)
        r2 = outcome(lambda: make_selector(kind, quant, qual, n_best, thresh_corr=tc).select(X.iloc[p], y.iloc[p]))
        rec('select#post.invariant_under_row_permutation', r2[0] == 'ok' and sel_ties == list(r2[1]), 'rows permuted: %r instead of %r' % (r2[1] if r2[0] == 'ok' else r2[0], sel))
        cols = list(X.columns); rng.shuffle(cols)
        r2 = outcome(lambda: make_selector(kind, quant, qual, n_best, thresh_corr=tc).select(X[cols], y))
        rec('select#post.invariant_under_column_permutation', r2[0] == 'ok' and sel == list(r2[1]), 'columns of X permuted (%r): %r instead of %r' % (cols, r2[1] if r2[0] == 'ok' else r2[0], sel))
        # (3b) X listed in another row order than y (same index labels): pandas aligns on labels, the selection must not change
        r2 = outcome(lambda: make_selector(kind, quant, qual, n_best, thresh_corr=tc).select(X.iloc[p], y))
        rec('select#post.invariant_under_row_permutation', r2[0] == 'ok' and sel_ties == list(r2[1]), 'rows of X listed in another order than y (same labels): %r instead of %r' % (r2[1] if r2[0] == 'ok' else r2[0], sel), dict(reencoding='X_rows_only'))
        # (3c) a user-supplied outlier measure in front of the association measure: negation must not change the selection
        if kind == 'ClassificationSelector':
            from AutoCarver.selectors.measures import zscore_measure, kruskal_measure
            Xz = X.copy(); Xz['qskew'] = np.round(np.exp(np.array([rng.gauss(0, 1.2) for _ in range(len(X))])), 4)          # outliers on one side only
            mk = lambda: make_selector(kind, quant + ['qskew'], [], len(quant) + 1, thresh_corr=1, quantitative_measures=[zscore_measure, kruskal_measure], thresh_zscore=0.005, thresh_kruskal=float('inf'))
            a = outcome(lambda: mk().select(Xz, y)); Xn = Xz.copy(); Xn['qskew'] = -Xn['qskew']; b = outcome(lambda: mk().select(Xn, y))
            rec('select#post.invariant_under_quantitative_negation', a[0] == b[0] and (a[0] != 'ok' or list(a[1]) == list(b[1])), 'user measures [zscore, kruskal]: %r vs %r after negating qskew' % (a[1] if a[0] == 'ok' else a[0], b[1] if b[0] == 'ok' else b[0]),
                dict(reencoding='negated', feature='qskew', default_measures=False))
        # (4b) a qualitative exact copy of a binary / multiclass target is returned
        if kind == 'ClassificationSelector':
            X2 = X.copy(); X2['ctarget'] = y.map(lambda v: 'cls_%s' % v)
            r2 = outcome(lambda: make_selector(kind, quant, qual + ['ctarget'], n_best, thresh_corr=tc).select(X2, y))
            rec('select#post.copy_of_target_is_returned', r2[0] == 'ok' and 'ctarget' in list(r2[1]), '%s: a qualitative copy of the %s target gives %r' % (kind, target, r2[1] if r2[0] == 'ok' else r2[0]), dict(feature='ctarget', what='qualitative_copy_of_target', dtype='str'))
        # (4) an exact copy / a strictly monotone image of the target is returned
        if target != 'multiclass':
            for name, col in (('copy_of_target', y.astype(float)), ('monotone_image_of_target', np.exp(y.astype(float) / (abs(y).max() + 1)) * 3 + 1)):
                X2 = X.copy(); X2['qtarget'] = col
                r2 = outcome(lambda: make_selector(kind, quant + ['qtarget'], qual, n_best, thresh_corr=tc).select(X2, y))
                rec('select#post.%s_is_returned' % name, r2[0] == 'ok' and 'qtarget' in list(r2[1]), '%s: a quantitative %s gives %r' % (kind, name, r2[1] if r2[0] == 'ok' else r2[0]), dict(feature='qtarget', what=name))
    if prop == 'C15' and kind == 'ClassificationSelector' and target == 'binary':
        from AutoCarver.selectors.measures import R_measure
        X2 = X.copy(); X2['qtarget'] = y.astype(float); X2['qtarget_mono'] = np.exp(y.astype(float)) * 2 - 1
        r2 = outcome(lambda: make_selector(kind, quant + ['qtarget', 'qtarget_mono'], qual, max(2, n_best), thresh_corr=1, quantitative_measures=[R_measure]).select(X2, y))
        rec('select#post.copy_of_target_is_returned', r2[0] == 'ok' and 'qtarget' in list(r2[1]) and 'qtarget_mono' in list(r2[1]), 'user-supplied R_measure: copy / monotone image of the target gives %r' % (r2[1] if r2[0] == 'ok' else r2[0],),
            dict(feature='qtarget', what='copy_of_target', default_measures=False, measure='R_measure'))
    if prop == 'C14' and kind == 'ClassificationSelector':
        # user-supplied Cramer's V as measure AND as filter (features holding NaN included)
        from AutoCarver.selectors.measures import cramerv_measure
        from AutoCarver.selectors.filters import cramerv_filter
        n_best0, tc0 = n_best, tc; n_best, tc = len(qual), (0.9 if seed % 2 else 0.8)          # (own configuration for this sub-check: every qualitative feature may be returned, threshold just below a full redundancy)
        r3 = outcome(lambda: make_selector(kind, [], qual, n_best, thresh_corr=tc, qualitative_measures=[cramerv_measure], qualitative_filters=[cramerv_filter]).select(X, y))
        def oracle_cv(feats):
            vals = {}
            for f in feats:
                x = X[f]
                if len(x.mode(dropna=True)) and (x == x.mode(dropna=True).values[0]).mean() >= 0.999: continue
                try: v = cramerv(x, y)
                except Exception: continue
                if not math.isnan(v): vals[f] = v
            ranked = sorted(vals, key=lambda f: -vals[f]); amb = any(abs(vals[a] - vals[b]) < 1e-12 for a, b in zip(ranked, ranked[1:])); kept = []
            for f in ranked:
                cs = [cramerv(X[f], X[g]) for g in kept]
                if any(abs(c - tc) < 1e-9 for c in cs): amb = True
                if not any(c > tc for c in cs): kept.append(f)
            return kept[:n_best], amb, vals
        if r3[0] == 'ok':
            e3, a3, v3 = oracle_cv(qual)
            if not a3: rec('select#post.best_ranked_mutually_unassociated_features', list(r3[1]) == e3, 'user-supplied cramerv measure + filter: returned %r, recomputation %r (V %r)' % (list(r3[1]), e3, {k: round(v, 4) for k, v in v3.items()}), dict(dtype='str', default_measures=False, measure='cramerv'))
        else: rec('select#raises.nothing_on_valid_input', False, 'cramerv measure/filter: %s' % r3[0], dict(default_measures=False))
        n_best, tc = n_best0, tc0
        # a feature type with ONE candidate whose measure is undefined / fails a threshold returns nothing for that type
        for lone, dt in (('qconst', 'float'), ('cconst', 'str')):
            r4 = outcome(lambda: make_selector(kind, [lone] if dt == 'float' else [], [lone] if dt == 'str' else [], 1, thresh_corr=tc).select(X, y))
            rec('select#post.feature_with_undefined_measure_is_left_out', r4[0] == 'ok' and lone not in list(r4[1]), 'a lone constant %s feature: %r' % (dt, r4[1] if r4[0] == 'ok' else r4[0]), dict(dtype=dt, feature=lone))
        # a user-set thresh_mode: the mode share of a feature is taken over ALL rows (a mostly-missing feature whose observed values are concentrated is not 'constant')
        if kind == 'ClassificationSelector':
            nb6 = len(quant)          # every feature that passes the thresholds is returned (n_best = number of features, thresh_corr = 1): a wrongly failed threshold shows
            r6 = outcome(lambda: make_selector(kind, quant, [], nb6, thresh_corr=1, thresh_mode=0.9).select(X, y))
            e6, a6, _ = oracle_select(X, y, quant, 'float', nb6, 1, kruskal_h, thresh_mode=0.9)
            if r6[0] == 'ok' and not a6:
                rec('select#post.best_ranked_mutually_unassociated_features', list(r6[1]) == e6, 'thresh_mode=0.9, n_best=%d, thresh_corr=1: returned %r, recomputation %r' % (nb6, list(r6[1]), e6), dict(dtype='float', thresh_mode=0.9))
            elif r6[0] != 'ok': rec('select#raises.nothing_on_valid_input', False, 'thresh_mode=0.9: %s' % r6[0], dict(thresh_mode=0.9))
        # thresholds placed just below and just above the TRUE association between two features that hold missing values (pairwise-complete Spearman rho / Tschuprow T):
        # just below, only the better-ranked one may be returned; just above, both are
        if kind == 'ClassificationSelector':
            for dtype_, (fa, fb), assoc in (('float', ('qnan', 'qnan2'), lambda: abs(X[['qnan', 'qnan2']].corr('spearman').iloc[0, 1])), ('str', ('cnan', 'cnan_full'), lambda: tschuprow(X['cnan'], X['cnan_full'])), ('str', ('cnanb', 'cnanb_weak'), lambda: tschuprow(X['cnanb'], X['cnanb_weak']))):
                true = assoc()
                if not (0.05 < true < 0.95): continue
                meas_ = kruskal_h if dtype_ == 'float' else tschuprow
                va, vb = meas_(X[fa], y), meas_(X[fb], y)
                if abs(va - vb) < 1e-9: continue
                best = fa if va > vb else fb
                for tc_, exp_ in ((true - 0.004, [best]), (true + 0.004, sorted([fa, fb], key=lambda f_: -meas_(X[f_], y)))):
                    r7 = outcome(lambda: make_selector(kind, [fa, fb] if dtype_ == 'float' else [], [fa, fb] if dtype_ == 'str' else [], 2, thresh_corr=tc_).select(X, y))
                    rec('select#post.best_ranked_mutually_unassociated_features', r7[0] == 'ok' and list(r7[1]) == exp_, 'features %s and %s (missing values on different rows), true association %.4f, thresh_corr %.4f: returned %r, expected %r' % (fa, fb, true, tc_, r7[1] if r7[0] == 'ok' else r7[0], exp_), dict(dtype=dtype_, pair=[fa, fb], thresh_corr=round(tc_, 4)))
        # two user-supplied association measures (thresholds set so that both are evaluated): at most n_best PER measure, i.e. the union of the per-measure selections
        from AutoCarver.selectors.measures import R_measure, kruskal_measure
        def eta(x, yy):
            ok = x.notna(); xs, ys = x[ok], yy[ok]; m = xs.mean(); ssb = sum(len(xs[ys == c]) * (xs[ys == c].mean() - m) ** 2 for c in ys.unique()); sst = ((xs - m) ** 2).sum()
            return math.sqrt(ssb / sst) if sst > 0 else float('nan')
        quant2 = [f_ for f_ in quant if f_ != 'qmodenan']          # (a feature whose second measure is undefined -- 1-2 distinct observed values -- is left out of both rankings: not judged here)
        r2 = outcome(lambda: make_selector(kind, quant2, [], n_best, thresh_corr=tc, quantitative_measures=[kruskal_measure, R_measure], thresh_kruskal=float('inf')).select(X, y))
        e1, a1, _ = oracle_select(X, y, quant2, 'float', n_best, tc, kruskal_h); e2, a2, _ = oracle_select(X, y, quant2, 'float', n_best, tc, eta)
        if r2[0] == 'ok' and not a1 and not a2:
            rec('select#post.union_of_the_n_best_of_each_measure', set(r2[1]) == set(e1) | set(e2), 'measures [kruskal, R]: returned %r, per-measure recomputation %r and %r' % (list(r2[1]), e1, e2), dict(default_measures=False, dtype='float'))
        elif r2[0] != 'ok':
            rec('select#raises.nothing_on_valid_input', False, 'two measures: %s' % r2[0], dict(default_measures=False))
        # the returned list is ordered by the LAST requested association measure ("Ranks features based on last provided measure of the list")
        if r2[0] == 'ok' and not a1 and not a2 and len(r2[1]) > 1:
            _, _, v_eta = oracle_select(X, y, quant2, 'float', len(quant2), 1, eta)
            seq = [v_eta.get(f) for f in r2[1]]
            if all(v is not None for v in seq) and all(abs(a - b) > 1e-9 for a, b in zip(seq, seq[1:])):
                rec('select#post.ordered_by_the_last_requested_measure', all(a > b for a, b in zip(seq, seq[1:])), 'measures [kruskal, R]: returned %r with R values %r (not decreasing)' % (list(r2[1]), [round(v, 4) for v in seq]), dict(default_measures=False, dtype='float'))
        # user-supplied filter lists: [pearson_filter] alone, and the chain [spearman_filter, pearson_filter] (each filter works on what the previous one left)
        from AutoCarver.selectors.filters import pearson_filter, spearman_filter
        def greedy(ranked, kind_):
            kept = []; amb = False
            for f in ranked:
                bad = False
                for g in kept:
                    c = abs(X[[f, g]].corr(kind_).iloc[0, 1]); c = 0.0 if math.isnan(c) else c
                    if abs(c - tc) < 1e-9: amb = True
                    if c > tc: bad = True; break
                if not bad: kept.append(f)
            return kept, amb
        measure0 = kruskal_h if kind == 'ClassificationSelector' else None
        if measure0 is not None and tc < 1:
            ranked_all, amb0, _ = oracle_select(X, y, quant, 'float', len(quant), 1, measure0)
            for flist, kinds in (([pearson_filter], ['pearson']), ([spearman_filter, pearson_filter], ['spearman', 'pearson'])):
                r5 = outcome(lambda: make_selector(kind, quant, [], n_best, thresh_corr=tc, quantitative_filters=flist).select(X, y))
                cur = list(ranked_all); amb = amb0
                for kd in kinds:
                    cur, a_ = greedy(cur, kd); amb = amb or a_
                if r5[0] == 'ok' and not amb:
                    rec('select#post.best_ranked_mutually_unassociated_features', list(r5[1]) == cur[:n_best], 'user-supplied filters %r: returned %r, recomputation %r' % (kinds, list(r5[1]), cur[:n_best]), dict(dtype='float', default_measures=False, filters=kinds))
                elif r5[0] != 'ok':
                    rec('select#raises.nothing_on_valid_input', False, 'filters %r: %s' % (kinds, r5[0]), dict(default_measures=False))
    return recs


def fence_cases(seed):
    """C15, user-supplied [iqr_measure, kruskal_measure]: values lying EXACTLY on a Tukey fence (q3 + 1.5 iqr) are inside for x and, mirrored, for -x:
    negating the feature must not change the selection.  Small frames built so that quartiles and fences are exact."""
    from AutoCarver.selectors import ClassificationSelector
    from AutoCarver.selectors.measures import iqr_measure, kruskal_measure
    recs = []; rng = random.Random(seed)
    for (k, m, t, top) in ((5, 7, 2, 6), (5, 9, 2, 6), (5, 4, 1, 6), (6, 2, 2, 10)):
        v = [float(i) for i in range(k)] * m + [float(top)] * t; rng.shuffle(v); n = len(v)
        q1, q3 = pd.Series(v).quantile(.25), pd.Series(v).quantile(.75)
        if q3 + 1.5 * (q3 - q1) != top: continue
        X = pd.DataFrame({'qfence': v, 'qother': [round(rng.random(), 3) for _ in range(n)]}); y = pd.Series([int(a >= k // 2) for a in v])
        share = t / n
        for thr in (share / 2, share * 2):
            mk = lambda: ClassificationSelector(n_best=2, quantitative_features=['qfence', 'qother'], qualitative_features=[], verbose=False, quantitative_measures=[iqr_measure, kruskal_measure], thresh_iqr=thr, thresh_kruskal=float('inf'))
            a = outcome(lambda: mk().select(X, y)); Xn = X.copy(); Xn['qfence'] = -Xn['qfence']; b = outcome(lambda: mk().select(Xn, y))
            w = dict(selector='ClassificationSelector', reencoding='negated', feature='qfence', default_measures=False, measures=['iqr', 'kruskal'], thresh_iqr=thr, values=v, target=y.tolist())
            recs.append(('select#post.invariant_under_quantitative_negation', a[0] == b[0] and (a[0] != 'ok' or list(a[1]) == list(b[1])), w,
                         'user measures [iqr, kruskal], %d of %d values exactly on the upper fence %g, thresh_iqr=%.4f: %r vs %r after negation' % (t, n, top, thr, a[1] if a[0] == 'ok' else a[0], b[1] if b[0] == 'ok' else b[0])))
    return recs


def run(ctx):
    n = 40 if ctx.tier == 'quick' else 400
    ctx.bound('select', '%d seeded frames (60-120 rows; quantitative: correlated pair, near-duplicate, negated duplicate, noise, constant, 30%% NaN; qualitative: associated pair, noise, constant, NaN), '
              'binary / 3-class / continuous targets, n_best in {1,2,3,5}, thresh_corr in {1,0.9,0.7,0.5}, default measures and filters' % n)
    for recs in zoo.pmap(one, [(ctx.seed * 101 + i, ctx.prop) for i in range(n)]):
        for clause, ok, wit, msg in recs: ctx.check(clause, 'select', ok, wit, msg)
    if ctx.prop == 'C15':
        for j in range(2 if ctx.tier == 'quick' else 10):
            for clause, ok, wit, msg in fence_cases(ctx.seed * 7 + j): ctx.check(clause, 'select', ok, wit, msg)
