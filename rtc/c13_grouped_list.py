"""Bounded cross-check for C13: the real GroupedList against a plain reference model (ordered list of (leader, members))
over ALL sequences of valid operations up to a depth bound on a small universe, then seeded random longer sequences.
The universe contains the falsy atoms 0.0 and "" on purpose."""
import copy, itertools
from rtc.harness import Ctx

FN = 'GroupedList'


def GLcls():
    from AutoCarver.discretizers.utils.grouped_list import GroupedList
    return GroupedList


# ----------------------------------------------------------------------------- reference model
class Model:
    def __init__(self, groups):            # list of [leader, members]
        self.g = [[l, list(m)] for l, m in groups]
    def leaders(self): return [l for l, _ in self.g]
    def members(self, l): return next(m for x, m in self.g if x == l)
    def all_values(self): return [v for _, m in self.g for v in m]
    def copy(self): return Model(self.g)
    def key(self): return repr(self.g)


def model_from_dict(d):
    keys = list(d); out = []
    for k in keys:
        elsewhere = [v for k2, vs in d.items() for v in vs if k2 != k]
        if k in elsewhere: continue
        m = list(d[k]);
        if k not in m: m = m + [k]
        out.append([k, m])
    return Model(out)


def apply_model(m, op):
    name = op[0]
    if name == 'group':
        d, k = op[1], op[2]
        if d == k: return None
        md, mk = m.members(d), m.members(k)
        for g in m.g:
            if g[0] == k: g[1] = md + mk
        m.g = [g for g in m.g if g[0] != d]
    elif name == 'group_list':
        for d in op[1]: apply_model(m, ('group', d, op[2]))
    elif name == 'append': m.g.append([op[1], [op[1]]])
    elif name == 'update':
        for k, vs in op[1].items():
            if k in m.leaders():
                for g in m.g:
                    if g[0] == k: g[1] = list(vs)
            else: m.g.append([k, list(vs)])
    elif name == 'remove': m.g = [g for g in m.g if g[0] != op[1]]
    elif name == 'pop':
        l = m.leaders()[op[1]]; m.g = [g for g in m.g if g[0] != l]
    elif name == 'sort':
        ls = m.leaders(); ks = sorted([l for l in ls if isinstance(l, str)]) + sorted([l for l in ls if not isinstance(l, str)])
        return Model([[l, m.members(l)] for l in ks])
    elif name == 'sort_by':
        seen = []
        for l in op[1]:
            if l not in seen: seen.append(l)
        return Model([[l, m.members(l)] for l in seen])
    elif name == 'replace_group_leader':
        ld, mb = op[1], op[2]
        for g in m.g:
            if g[0] == ld: g[0] = mb
    elif name == 'copy': return m.copy()
    return None


def apply_real(g, op):
    name = op[0]
    if name == 'copy': return GLcls()(g)
    if name == 'sort': return g.sort()
    if name == 'sort_by': return g.sort_by(list(op[1]))
    if name == 'group_list': g.group_list(list(op[1]), op[2]); return None
    if name == 'update': g.update({k: list(v) for k, v in op[1].items()}); return None
    getattr(g, name)(*op[1:]); return None


def valid_ops(m, U, rng=None, wide=False):
    ls = m.leaders(); known = m.all_values(); ops = []
    for d in ls:
        for k in ls: ops.append(('group', d, k))
    for k in ls:
        others = [l for l in ls if l != k]
        for r in (1, 2):
            for ds in itertools.permutations(others, r):
                if r == 2 or wide: ops.append(('group_list', list(ds), k))
        if len(ls) <= 3: ops.append(('group_list', list(ls), k))       # keep among the discarded
    for v in U:
        if v not in known: ops.append(('append', v)); ops.append(('update', {v: [v]}))
    for l in ls: ops.append(('remove', l))
    for i in range(-len(ls), len(ls)): ops.append(('pop', i))
    if ls: ops.append(('sort',)); ops.append(('copy',))
    if len(ls) >= 2: ops.append(('sort_by', list(reversed(ls)))); ops.append(('sort_by', ls[1:] + ls[:1] + ls[1:2]))
    for l in ls:
        for mb in m.members(l): ops.append(('replace_group_leader', l, mb))
    return ops


def wf_real(g):
    L = list(g); Kc = list(g.content.keys()); errs = []
    if len(set(map(repr_key, L))) != len(L): errs.append('duplicate leaders')
    if sorted(map(repr_key, L)) != sorted(map(repr_key, Kc)): errs.append('list != content keys')
    allv = [v for vs in g.content.values() for v in vs]
    if len(set(map(repr_key, allv))) != len(allv): errs.append('groups not disjoint / duplicate member')
    for k, vs in g.content.items():
        if k not in vs: errs.append('leader %r not in own group' % (k,))
    return errs


def repr_key(v):
    # 1 and 1.0 are the same dict key in Python: compare by equality class
    import numbers
    if isinstance(v, numbers.Number) and not isinstance(v, bool): return ('n', float(v))
    return ('s', str(v))


def same_view(g, m):
    if [repr_key(x) for x in g] != [repr_key(x) for x in m.leaders()]: return 'leaders %r != model %r' % (list(g), m.leaders())
    for l in m.leaders():
        got = g.content.get(l)
        if got is None or [repr_key(x) for x in got] != [repr_key(x) for x in m.members(l)]: return 'members of %r: %r != model %r' % (l, got, m.members(l))
    return None


def observers(ctx, g, m, U, hist):
    for v in U + ['zz_unknown']:
        exp = m.members(v) if v in m.leaders() else []
        got = g.get(v)
        ctx.check('GroupedList.get#post.members_or_empty', 'GroupedList.get', [repr_key(x) for x in got] == [repr_key(x) for x in exp], dict(history=hist, arg=v), 'get(%r)=%r model %r' % (v, got, exp))
        owner = next((l for l in m.leaders() if v in m.members(l)), None)
        exp_g = owner if owner is not None else v
        got_g = g.get_group(v)
        ctx.check('GroupedList.get_group#post.leader_of_containing_group', 'GroupedList.get_group', repr_key(got_g) == repr_key(exp_g), dict(history=hist, arg=v), 'get_group(%r)=%r model %r' % (v, got_g, exp_g))
        ctx.check('GroupedList.contains#post.iff_member_of_some_group', 'GroupedList.contains', bool(g.contains(v)) == (owner is not None), dict(history=hist, arg=v), 'contains(%r)' % (v,))
    # values() = concatenation of the groups in `content` order (the property says: agrees with `content`); same members as the model
    flat = [repr_key(x) for vs in g.content.values() for x in vs]
    ctx.check('GroupedList.values#post.all_members', 'GroupedList.values', [repr_key(x) for x in g.values()] == flat and sorted(flat) == sorted(repr_key(x) for x in m.all_values()), dict(history=hist), 'values()=%r' % (g.values(),))


def step(ctx, g, m, op, hist, U):
    """apply op to both; returns (g', m') or None on failure"""
    h2 = hist + [op]
    before_vals = set(map(repr_key, m.all_values()))
    try:
        r = apply_real(g, op)
    except Exception as e:
        ctx.check('GroupedList.%s#raises' % op[0], 'GroupedList.' + op[0], False, dict(history=h2), 'valid operation raised %s: %s' % (type(e).__name__, e)); return None
    rm = apply_model(m, op)
    if rm is not None: g, m = r, rm
    errs = wf_real(g)
    ok = ctx.check('GroupedList.%s#post.wf' % op[0], 'GroupedList.' + op[0], not errs, dict(history=h2), '; '.join(errs))
    d = same_view(g, m)
    ok2 = ctx.check('GroupedList.%s#post.view_equals_model' % op[0], 'GroupedList.' + op[0], d is None, dict(history=h2), d or '')
    if op[0] not in ('remove', 'pop'):
        after = set(map(repr_key, [v for vs in g.content.values() for v in vs]))
        ctx.check('GroupedList.%s#post.no_value_lost' % op[0], 'GroupedList.' + op[0], before_vals <= after, dict(history=h2), 'lost %r' % (before_vals - after,))
    if not (ok and ok2): return None
    return g, m


def build(init):
    GL = GLcls()
    kind, arg = init
    if kind == 'list': return GL(list(arg)), Model([[v, [v]] for v in arg])
    if kind == 'dict': return GL({k: list(v) for k, v in arg.items()}), model_from_dict(arg)
    raise ValueError(kind)


def replay_history(history):
    """used by rtc.replay: re-run a stored history and return the list of violated clauses"""
    ctx = Ctx('C13', 'replay', 0)
    g, m = build(tuple(history[0][1:]) if history[0][0] == 'init' else ('list', []))
    U = ['a', 'b', 1, 0.0, '']
    for op in history[1:]:
        op = tuple(op)
        if op[0] == 'update': op = ('update', {_unkey(k): v for k, v in op[1].items()})
        r = step(ctx, g, m, op, [], U)
        if r is None: break
        g, m = r
        observers(ctx, g, m, U, [])
    return ctx.failures


def _unkey(k):
    return k


def run(ctx):
    U = ['a', 'b', 1, 0.0, '']
    inits = [('list', ['a', 'b', 1]), ('list', [0.0, 'a', '']), ('list', []), ('dict', {'a': ['a', 'b'], 1: [1, 0.0]}),
             ('dict', {'': ['a'], 'b': ['b', 0.0]}), ('dict', {'a': ['b'], 'b': [], 1: [1]}), ('list', ['b', '', 0.0, 1])]
    depth = 3 if ctx.tier == 'quick' else 4
    ctx.bound('GroupedList.*', 'all sequences of valid operations up to depth %d from %d initial objects over the universe %r (exhaustive tree search with state copies); '
              'thorough adds seeded random sequences of length <= 25' % (depth, len(inits), U))
    GL = GLcls()
    for init in inits:
        try:
            g0, m0 = build(init)
        except Exception as e:
            ctx.check('GroupedList.__init__#raises', 'GroupedList.__init__', False, dict(history=[('init',) + init]), 'constructor raised %s' % e); continue
        errs = wf_real(g0); d = same_view(g0, m0)
        ctx.check('GroupedList.__init__#post.wf', 'GroupedList.__init__', not errs and d is None, dict(history=[('init',) + init]), '; '.join(errs) + (d or ''))
        stack = [(g0, m0, [('init',) + init], 0)]
        seen = set()
        while stack:
            g, m, hist, dpt = stack.pop()
            observers(ctx, g, m, U, hist)
            if dpt == depth: continue
            key = (m.key(), repr(list(g.content.keys())), dpt)
            if key in seen: continue
            seen.add(key)
            for op in valid_ops(m, U, wide=(dpt == 0)):
                g2 = GL(g); g2.content = {k: list(v) for k, v in g.content.items()}; m2 = m.copy()
                r = step(ctx, g2, m2, op, hist, U)
                if r is not None: stack.append((r[0], r[1], hist + [op], dpt + 1))
    # constructor must reject overlapping groups
    for bad in ({'a': ['a', 'b'], 'c': ['b']}, {'a': ['a', 'a']}):
        try:
            GL(bad); ok = False
        except AssertionError: ok = True
        except Exception: ok = False
        ctx.check('GroupedList.__init__#raises.AssertionError', 'GroupedList.__init__', ok, dict(history=[('init', 'dict', bad)]), 'overlapping groups accepted')
    # missing-value objects: a NaN stored as member must be found through ANY NaN object (is_equal is NaN-insensitive)
    import numpy as np
    for stored, probe in ((float('nan'), np.nan), (np.nan, float('nan')), (np.float64('nan'), float('nan'))):
        for build_ in (lambda s_: GL({'__NAN__': ['__NAN__', s_], 'a': ['a']}), lambda s_: GL({'a': ['a', s_], 'b': ['b']})):
            g = build_(stored); leader = next(k for k, vs in g.content.items() if any(isinstance(v, float) and v != v for v in vs))
            w = dict(history=[('init', 'dict', repr(dict(g.content)))], arg='NaN object')
            ctx.check('GroupedList.get_group#post.nan_member_found', 'GroupedList.get_group', g.get_group(probe) == leader, w, 'get_group(NaN) = %r, expected leader %r' % (g.get_group(probe), leader))
            ctx.check('GroupedList.contains#post.nan_member_found', 'GroupedList.contains', bool(g.contains(probe)), w, 'contains(NaN) is False')
            g2 = g.sort_by(list(reversed(list(g))))
            ctx.check('GroupedList.get_group#post.nan_member_found', 'GroupedList.get_group', g2.get_group(probe) == leader, dict(w, after='sort_by'), 'after sort_by')
    # the container of the initial sequence does not matter: list, numpy array (object / str / float dtype: converted to a list first), GroupedList give the same object, in the given order
    for xs in (['b', 'a', 'c'], ['zeta', 'alpha', 'mid', 'beta'], [3.0, 1.0, 2.0], ['x'], []):
        ref = GL(list(xs)); refv = (list(map(repr, ref)), {repr(k): list(map(repr, v)) for k, v in ref.content.items()})
        for cname, mk in (('ndarray_object', lambda v: np.array(v, dtype=object)), ('ndarray', lambda v: np.array(v)), ('GroupedList', lambda v: GL(list(v)))):
            w = dict(history=[('init', cname, repr(xs))])
            try:
                g = GL(mk(xs)); got = ([repr(x.item() if hasattr(x, 'item') else x) for x in g], {repr(k.item() if hasattr(k, 'item') else k): [repr(x.item() if hasattr(x, 'item') else x) for x in v] for k, v in g.content.items()})
                ctx.check('GroupedList.__init__#post.same_object_whatever_the_container', 'GroupedList.__init__', got == refv, w, 'GroupedList(%s(%r)) is %r, GroupedList(list) is %r' % (cname, xs, got, refv))
            except Exception as e:
                ctx.check('GroupedList.__init__#post.same_object_whatever_the_container', 'GroupedList.__init__', False, w, 'GroupedList(%s(%r)) raised %s' % (cname, xs, e))
    # a missing-value LEADER grouped with itself (the library's idiom group_list([..., kept], kept)) is a no-op
    for nan_ in (float('nan'), np.nan):
        g = GL(['a', nan_, 'b']); before = (list(map(repr, g)), {repr(k): list(map(repr, v)) for k, v in g.content.items()})
        w = dict(history=[('init', 'list', "['a', nan, 'b']"), ('group', 'nan', 'nan')])
        try:
            g.group(nan_, nan_); after = (list(map(repr, g)), {repr(k): list(map(repr, v)) for k, v in g.content.items()})
            ctx.check('GroupedList.group#post.noop_when_equal', 'GroupedList.group', before == after, w, 'group(nan, nan) changed the object: %r -> %r' % (before, after))
        except Exception as e:
            ctx.check('GroupedList.group#post.noop_when_equal', 'GroupedList.group', False, w, 'group(nan, nan) raised %s' % e)
        g = GL(['a', nan_, 'b'])
        try:
            g.group_list(['a', nan_], nan_)
            ok = len(g) == 2 and any(isinstance(k, float) and k != k for k in g) and 'a' in [x for vs in g.content.values() for x in vs]
            ctx.check('GroupedList.group_list#post.state_after_all', 'GroupedList.group_list', ok, dict(history=[('init', 'list', "['a', nan, 'b']"), ('group_list', "['a', nan]", 'nan')]), 'group_list([a, nan], nan) -> %r %r' % (list(g), dict(g.content)))
        except Exception as e:
            ctx.check('GroupedList.group_list#post.state_after_all', 'GroupedList.group_list', False, dict(history=[('group_list', "['a', nan]", 'nan')]), 'raised %s' % e)
    # a missing-value leader replaced by itself is a no-op; missing-value sentinels of different spelling (nan / None) denote the same value
    for nan_ in (float('nan'), np.nan):
        g = GL(['a', nan_, 'b']); g.group('b', nan_)
        before = (list(map(repr, g)), {repr(k): list(map(repr, v)) for k, v in g.content.items()})
        w = dict(history=[('init', 'list', "['a', nan, 'b']"), ('group', 'b', 'nan'), ('replace_group_leader', 'nan', 'nan')])
        try:
            g.replace_group_leader(nan_, nan_); after = (list(map(repr, g)), {repr(k): list(map(repr, v)) for k, v in g.content.items()})
            ctx.check('GroupedList.replace_group_leader#post.noop_when_equal', 'GroupedList.replace_group_leader', before == after, w, 'replace_group_leader(nan, nan) changed the object: %r -> %r' % (before, after))
        except Exception as e:
            ctx.check('GroupedList.replace_group_leader#post.noop_when_equal', 'GroupedList.replace_group_leader', False, w, 'replace_group_leader(nan, nan) raised %s' % e)
        for held, asked in ((nan_, None), (None, nan_), (nan_, float('nan')), (None, None)):
            g = GL(['a', held, 'b']); g.group('b', held); w = dict(history=[('init', 'list', "['a', %r, 'b']" % (held,)), ('group', 'b', repr(held)), ('observe', repr(asked))])
            try:
                lead = g.get_group(asked); ok = bool(g.contains(asked)) and (lead is held or (lead != lead and held != held) or (lead is None and held is None))
                ctx.check('GroupedList.get_group#post.agrees_with_content', 'GroupedList.get_group', ok, w, 'list holds the missing value %r: contains(%r) = %r, get_group(%r) = %r' % (held, asked, g.contains(asked), asked, lead))
            except Exception as e:
                ctx.check('GroupedList.get_group#post.agrees_with_content', 'GroupedList.get_group', False, w, 'raised %s' % e)
    if ctx.thorough():
        for n in range(3000):
            init = ctx.rng.choice(inits); g, m = build(init); hist = [('init',) + init]
            for _ in range(ctx.rng.randint(4, 25)):
                ops = valid_ops(m, U + ['c', 2.5, 7], wide=True)
                if not ops: break
                op = ctx.rng.choice(ops)
                r = step(ctx, g, m, op, hist, U)
                if r is None: break
                g, m = r; hist = hist + [op]
            observers(ctx, g, m, U, hist)


def dump_traces(path, n, seed=0):
    """concrete executions of the real class (pre-state, operation, post-state, result) for the contract/implementation cross-check of engine P
    (pyvc/trace_check.py): the sidecar contracts must be TRUE of what the code does"""
    import json, random
    rng = random.Random(seed); GL = GLcls(); out = []
    U = ['a', 'b', 1, 0.0, '', 'c', 2.5]
    inits = [('list', ['a', 'b', 1]), ('list', [0.0, 'a', '']), ('dict', {'a': ['a', 'b'], 1: [1, 0.0]}), ('dict', {'': ['a'], 'b': ['b', 0.0]}), ('list', ['b', '', 0.0, 1, 'c'])]
    def snap(g): return dict(list=list(g), content=[[k, list(v)] for k, v in g.content.items()])
    def lit(x):
        import numbers
        if isinstance(x, numbers.Number) and not isinstance(x, bool): return float(x)
        return str(x)
    def norm(o):
        if isinstance(o, dict): return {k: norm(v) for k, v in o.items()}
        if isinstance(o, (list, tuple)): return [norm(v) for v in o]
        return lit(o)
    while len(out) < n:
        init = rng.choice(inits); g, m = build(init)
        out.append(dict(op='__init__@' + init[0], args=[norm(init[1]) if init[0] == 'list' else [[lit(k), norm(v)] for k, v in init[1].items()]], pre=None, post=norm(snap(g)), result=None))
        for _ in range(rng.randint(2, 8)):
            ops = valid_ops(m, U[:5], wide=True)
            if not ops: break
            op = rng.choice(ops); pre = snap(g)
            try: r = apply_real(g, op)
            except Exception: break
            rm = apply_model(m, op)
            args = list(op[1:])
            if op[0] == 'update': args = [[[lit(k), norm(v)] for k, v in op[1].items()]]
            rec = dict(op=op[0], args=norm(args) if op[0] != 'update' else args, pre=norm(pre), post=norm(snap(g)), result=norm(snap(r)) if r is not None else None)
            out.append(rec)
            if rm is not None: g, m = r, rm
            # observers on the current object
            v = rng.choice(U)
            out.append(dict(op='get', args=[lit(v)], pre=norm(snap(g)), post=norm(snap(g)), result=norm(list(g.get(v)))))
            out.append(dict(op='get_group', args=[lit(v)], pre=norm(snap(g)), post=norm(snap(g)), result=lit(g.get_group(v))))
            out.append(dict(op='contains', args=[lit(v)], pre=norm(snap(g)), post=norm(snap(g)), result=bool(g.contains(v))))
            out.append(dict(op='values', args=[], pre=norm(snap(g)), post=norm(snap(g)), result=norm(g.values())))
    json.dump(out[:n], open(path, 'w'))
    return len(out[:n])


if __name__ == '__main__':
    import sys
    print(dump_traces(sys.argv[1], int(sys.argv[2]), int(sys.argv[3]) if len(sys.argv) > 3 else 0))
