"""Bounded contract for C12: MulticlassCarver.fit/transform == independent one-vs-rest BinaryCarvers (same parameters) on 1[y = c]."""
import traceback
import numpy as np
import pandas as pd
from rtc import zoo, objects as ob
from rtc.battery import series_list


LABELSETS = [[0, 1, 2], ['a', 'b', 'c'], [9, 10, 11], [10, 2, 33, 4], ['x', 'y', 'z', 'w']]


def mc_case(rng, i):
    case = zoo.random_case(rng, target='continuous', variants=(i % 2 == 1), n=rng.choice([60, 90, 120]))
    if i % 3 == 2 and 'c_cat' in case['qualitative']:
        # a previous discretization of a plain (non-ordinal) qualitative feature: pre-grouped modalities handed over through values_orders
        seen = [v for v in dict.fromkeys(case['X']['c_cat'].tolist() + (case['X_dev']['c_cat'].tolist() if case['X_dev'] is not None else [])) if isinstance(v, str)]
        if len(seen) >= 3: case['values_orders']['c_cat'] = {seen[0]: [seen[1], seen[0]], **{v: [v] for v in seen[2:]}}
    labels = LABELSETS[i % len(LABELSETS)]
    def to_cls(y):
        r = y.rank(method='first'); q = pd.qcut(r, len(labels), labels=False)
        return pd.Series([labels[int(k)] for k in q])
    case['y'] = to_cls(case['y'])
    if case['y_dev'] is not None: case['y_dev'] = to_cls(case['y_dev'])
    case['target'] = 'multiclass'
    if i % 4 == 1:
        # raw feature names that already end with '_<class label>' (x_1, g_b, ...): the per-class columns are <name>_<class>, whatever the name
        feats = ob.features_of(case); ren = {f: '%s_%s' % (f, labels[(j + 1) % len(labels)]) for j, f in enumerate(feats[:2])}
        for k in ('X', 'X_dev'):
            if case[k] is not None: case[k] = case[k].rename(columns=ren)
        for k in ('quantitative', 'qualitative', 'ordinal'): case[k] = [ren.get(f, f) for f in case[k]]
        case['values_orders'] = {ren.get(f, f): v for f, v in case['values_orders'].items()}
    return case


def table_mc_case(rng, i):
    """one ordinal feature; per modality the counts of three classes.  Class 'b' has the SAME rate in every modality (dropped by its carver),
    class 'c' does not (kept): a feature dropped for an earlier class must still be carved as an ORDINAL feature for the later one."""
    names = ['low', 'mid', 'high', 'top'][:rng.choice([3, 4])]
    rows = [];
    cs = [1, 2, 3, 4, 5]; rng.shuffle(cs)          # non-monotone rates of 'c' so that a re-sorted (non-ordinal) treatment groups differently
    for j, m in enumerate(names):
        nb = 2; nc = cs[j]; na = 8 - nb - nc + rng.choice([0, 0])
        rows += [(m, 'a')] * max(1, na) + [(m, 'b')] * nb + [(m, 'c')] * nc
    # equalise the rate of 'b': same count and same modality size
    size = max(sum(1 for r in rows if r[0] == m) for m in names)
    out = []
    for m in names:
        mine = [r for r in rows if r[0] == m]; out += mine + [(m, 'a')] * (size - len(mine))
    rng.shuffle(out)
    X = pd.DataFrame({'o': pd.Series([r[0] for r in out], dtype=object)}); y = pd.Series([r[1] for r in out])
    return dict(X=X, y=y, X_dev=None, y_dev=None, quantitative=[], qualitative=[], ordinal=['o'], values_orders={'o': list(names)}, target='multiclass', origin=dict(kind='mc-table'))


def one(arg):
    case, cfg, seed = arg
    from AutoCarver.carvers.multiclass_carver import MulticlassCarver
    from AutoCarver.carvers.binary_carver import BinaryCarver
    recs = []; lit = dict(cfg=cfg, case=zoo.case_literal(case))
    def rec(clause, ok, msg, extra=None): recs.append((clause, bool(ok), dict(lit, **(extra or {})) if not ok else dict(cfg=cfg, h=hash(str(lit['case'])), extra=extra), msg))
    common = dict(min_freq=cfg['min_freq'], sort_by=cfg['sort_by'], max_n_mod=cfg['max_n_mod'], output_dtype=cfg['output_dtype'], dropna=cfg['dropna'], verbose=False, **zoo.extra_kwargs(cfg))
    if cfg.get('defaults'):
        # "the same parameters" includes the ones nobody passes: both carvers are built with their documented defaults (max_n_mod, output_dtype, dropna, min_freq_mod)
        common = dict(min_freq=cfg['min_freq'], sort_by=cfg['sort_by'], verbose=False)
    if cfg.get('min_freq_mod') is not None: common['min_freq_mod'] = cfg['min_freq_mod']
    mkfeats = lambda: dict(quantitative_features=list(case['quantitative']), qualitative_features=list(case['qualitative']), ordinal_features=list(case['ordinal']))   # fresh lists per object
    X, y = case['X'], case['y']
    try:
        mc = MulticlassCarver(values_orders=zoo.values_orders_arg(case), copy=True, **mkfeats(), **common)
        if case['X_dev'] is not None: mc.fit(X, y, X_dev=case['X_dev'], y_dev=case['y_dev'])
        else: mc.fit(X, y)
        out = mc.transform(X)
    except AssertionError: return recs
    except Exception as e:
        rec('MulticlassCarver.fit#raises.only_AssertionError', False, 'MulticlassCarver raised %s: %s | %s' % (type(e).__name__, str(e)[:150], traceback.format_exc()[-400:].replace('\n', ' / '))); return recs
    # transforming an already transformed frame gives the same columns (they are rebuilt from the unchanged raw columns)
    try:
        again = mc.transform(out)
        same = all(series_list(again[c_]) == series_list(out[c_]) for c_ in out.columns)
        rec('MulticlassCarver.transform#post.class_columns_rebuilt_from_raw_columns', same, 'transform(transform(X)) differs from transform(X)')
    except Exception as e:
        rec('MulticlassCarver.transform#post.class_columns_rebuilt_from_raw_columns', False, 'transform of an already transformed frame raised %s: %s' % (type(e).__name__, str(e)[:120]))
    # the object rebuilt from its JSON export builds the same class columns from the raw ones
    try:
        import json as _json
        from AutoCarver.carvers.base_carver import load_carver
        re_ = load_carver(_json.loads(_json.dumps(mc.to_json()))); out_re = re_.transform(X)
        same = list(out_re.columns) == list(out.columns) and all(series_list(out_re[c_]) == series_list(out[c_]) for c_ in out.columns)
        rec('MulticlassCarver.transform#post.class_columns_rebuilt_from_raw_columns', same, 'the carver reloaded from JSON transforms X differently (columns %r vs %r)' % (list(out_re.columns)[:8], list(out.columns)[:8]), dict(reloaded=True))
    except Exception as e:
        rec('MulticlassCarver.transform#post.class_columns_rebuilt_from_raw_columns', False, 'the carver reloaded from JSON: %s: %s' % (type(e).__name__, str(e)[:150]), dict(reloaded=True))
    classes = sorted(str(c) for c in pd.unique(y))[1:]
    raw = ob.features_of(case)
    for f in raw:
        rec('MulticlassCarver.transform#post.raw_columns_unchanged', f in out.columns and series_list(out[f]) == series_list(X[f]), 'raw column %s %s' % (f, 'modified' if f in out.columns else 'is missing from the output (columns %r)' % list(out.columns)), dict(feature=f))
    expected_cols = set()
    for c in classes:
        ind = (y.astype(str) == c).astype(int); ind_dev = (case['y_dev'].astype(str) == c).astype(int) if case['y_dev'] is not None else None
        try:
            bc = BinaryCarver(values_orders=zoo.values_orders_arg(case), copy=True, **mkfeats(), **common)
            if case['X_dev'] is not None: bc.fit(X, ind, X_dev=case['X_dev'], y_dev=ind_dev)
            else: bc.fit(X, ind)
            bout = bc.transform(X)
        except Exception as e:
            rec('skip', True, ''); continue
        # a frame with a modality never seen at fit: both must treat it alike (default group or rejection)
        quali = [f for f in case['qualitative'] if all(isinstance(v, str) for v in X[f].dropna())]
        if quali:
            Xu = X.iloc[:3].copy(); Xu.loc[Xu.index[0], quali[0]] = 'never_seen_modality'
            from rtc.battery import outcome
            a = outcome(lambda: bc.transform(Xu)); b = outcome(lambda: mc.transform(Xu)); colu = '%s_%s' % (quali[0], c)
            if quali[0] in bc.features and colu in mc.features:
                ok_u = a[0] == b[0] and (a[0] != 'ok' or series_list(a[1][quali[0]]) == series_list(b[1][colu]))
                rec('MulticlassCarver.transform#post.unseen_modality_treated_like_the_binary_carver', ok_u, 'class %s feature %s: BinaryCarver %s, MulticlassCarver %s' % (c, quali[0], a[0], b[0]), dict(feature=quali[0], cls=c))
        for f in raw:
            col = '%s_%s' % (f, c); kept_b = f in bc.features; kept_m = col in mc.features
            rec('MulticlassCarver.fit#post.class_column_kept_iff_binary_carver_keeps_feature', kept_b == kept_m, 'class %s feature %s: BinaryCarver keeps=%s, MulticlassCarver has %s=%s' % (c, f, kept_b, col, kept_m), dict(feature=f, cls=c))
            if kept_b and kept_m:
                expected_cols.add(col)
                rec('MulticlassCarver.transform#post.class_column_equals_binary_carver_output', col in out.columns and series_list(out[col]) == series_list(bout[f]),
                    'column %s differs from the BinaryCarver on 1[y=%s] (first rows: %r vs %r)' % (col, c, series_list(out[col])[:6] if col in out.columns else None, series_list(bout[f])[:6]), dict(feature=f, cls=c))
    extra = [f for f in mc.features if f not in expected_cols and not any(f == '%s_%s' % (r, c) for r in raw for c in classes)]
    rec('MulticlassCarver.fit#post.only_non_reference_classes', not extra, 'unexpected casted features %r (classes expected: %r)' % (extra, classes))
    return recs


def run(ctx):
    n = 40 if ctx.tier == 'quick' else 300
    specs = []
    for i in range(n):
        case = mc_case(ctx.rng, i)
        cfg = dict(ctx.rng.choice(zoo.CONFIGS)); cfg['min_freq_mod'] = ctx.rng.choice([None, None, cfg['min_freq'], 0.15])
        if i % 3 == 1: cfg['str_nan'] = 'MISSING'; cfg['str_default'] = 'AUTRES'          # custom markers for a third of the frames
        if i % 6 == 3: cfg = dict(min_freq=0.06, sort_by='cramerv', defaults=True, min_freq_mod=None, max_n_mod=5, output_dtype='float', dropna=True)        # optional parameters left to their defaults in both carvers
        specs.append((case, cfg, i))
    for i in range(12 if ctx.tier == 'quick' else 80):
        cfg = dict(min_freq=0.05, max_n_mod=ctx.rng.choice([2, 3, 4]), sort_by=ctx.rng.choice(['tschuprowt', 'cramerv']), dropna=True, output_dtype=('float' if i % 4 else 'str'), min_freq_mod=None)
        specs.append((table_mc_case(ctx.rng, i), cfg, 1000 + i))
    ctx.bound('MulticlassCarver.fit', '%d seeded random frames, 3-4 classes with label sets %r (numeric labels whose string order differs from numeric order included), optional dev sample, '
              'all BinaryCarver parameters incl. min_freq_mod and custom str_nan/str_default' % (n, LABELSETS))
    for recs in zoo.pmap(one, specs):
        for clause, ok, wit, msg in recs:
            if clause == 'skip': continue
            ctx.check(clause, clause.split('#')[0], ok, wit, msg)
