"""Bounded contracts for C19: each malformed input of the listed classes, injected at a seeded position into an otherwise valid sample,
is refused with AssertionError by every carver / discretizer class, before and after a successful fit; a rejected call leaves an
already fitted object's values_orders, JSON export and transform unchanged."""
import copy, json, traceback, random
import numpy as np
import pandas as pd
from rtc import zoo, objects as ob
from rtc.battery import frame_equal, outcome

KINDS = ['BinaryCarver', 'ContinuousCarver', 'MulticlassCarver', 'Discretizer', 'QuantitativeDiscretizer', 'QualitativeDiscretizer']


def valid_case(rng, kind):
    target = {'BinaryCarver': 'binary', 'ContinuousCarver': 'continuous', 'MulticlassCarver': 'multiclass'}.get(kind, rng.choice(['binary', 'continuous']))
    for _ in range(20):
        case = ob.multiclass_case(rng) if target == 'multiclass' else zoo.random_case(rng, target=target, allow_nan=rng.random() < 0.5, with_dev=rng.random() < 0.5)
        if kind == 'QuantitativeDiscretizer' and not case['quantitative']: continue
        if kind == 'QualitativeDiscretizer' and not (case['qualitative'] or case['ordinal']): continue
        if not case['quantitative'] or not (case['qualitative'] or case['ordinal']): continue
        return case
    return case


def constructor(kind, case, cfg, **over):
    """unfitted object with optional overrides of constructor arguments"""
    from AutoCarver.discretizers import Discretizer, QualitativeDiscretizer, QuantitativeDiscretizer
    from AutoCarver.carvers.binary_carver import BinaryCarver
    from AutoCarver.carvers.continuous_carver import ContinuousCarver
    from AutoCarver.carvers.multiclass_carver import MulticlassCarver
    q = over.get('quantitative', list(case['quantitative'])); c = over.get('qualitative', list(case['qualitative'])); o = over.get('ordinal', list(case['ordinal']))
    vo = zoo.values_orders_arg(dict(case, values_orders=over.get('values_orders', case['values_orders'])))
    if kind == 'Discretizer': return Discretizer(quantitative_features=q, qualitative_features=c, ordinal_features=o, values_orders=vo, min_freq=cfg['min_freq'], copy=True)
    if kind == 'QuantitativeDiscretizer': return QuantitativeDiscretizer(quantitative_features=q, min_freq=cfg['min_freq'], copy=True)
    if kind == 'QualitativeDiscretizer': return QualitativeDiscretizer(qualitative_features=c, ordinal_features=o, values_orders=vo, min_freq=cfg['min_freq'], copy=True)
    kw = dict(min_freq=cfg['min_freq'], quantitative_features=q, qualitative_features=c, ordinal_features=o, values_orders=vo, max_n_mod=cfg['max_n_mod'], output_dtype=cfg['output_dtype'], dropna=cfg['dropna'], copy=True)
    if kind == 'ContinuousCarver':
        if 'sort_by' in over: kw['sort_by'] = over['sort_by']
        return ContinuousCarver(**kw)
    cls = BinaryCarver if kind == 'BinaryCarver' else MulticlassCarver
    return cls(sort_by=over.get('sort_by', cfg['sort_by']), **kw)


def do_fit(obj, kind, X, y, X_dev=None, y_dev=None):
    if 'Carver' in kind and X_dev is not None: return obj.fit(X, y, X_dev=X_dev, y_dev=y_dev)
    return obj.fit(X, y)


def malformations(kind, case, rng):
    """-> list of (name, builder) ; builder() -> (ctor_overrides, X, y, X_dev, y_dev)"""
    X, y, Xd, yd = case['X'], case['y'], case['X_dev'], case['y_dev']
    pos = rng.randrange(len(X)); out = []
    def mk(name, **kw): out.append((name, kw))
    yn = y.astype(float).copy() if case['target'] != 'multiclass' or all(isinstance(v, (int, float, np.integer)) for v in y) else y.astype(object).copy()
    yn.iloc[pos] = np.nan
    mk('y_with_missing_value', y=yn)
    ysh = y.copy(); ysh.index = [i + 5 for i in range(len(y))]
    mk('y_indexed_differently_from_X', y=ysh)
    perm = list(range(len(y))); rng.shuffle(perm)
    if perm != sorted(perm):
        yp = y.copy(); yp.index = [y.index[i] for i in perm]
        mk('y_index_same_labels_in_another_order', y=yp)
    mk('X_not_a_DataFrame', X=X.values)
    if Xd is not None and 'Carver' in kind:
        ydn = yd.astype(float).copy() if all(isinstance(v, (int, float, np.integer, np.floating)) for v in yd) else yd.astype(object).copy()
        ydn.iloc[rng.randrange(len(yd))] = np.nan
        mk('y_dev_with_missing_value', y_dev=ydn)
        mk('y_dev_not_a_Series', y_dev=yd.tolist())
        yds = yd.copy(); yds.index = [i + 3 for i in range(len(yd))]
        mk('y_dev_indexed_differently_from_X_dev', y_dev=yds)
        if kind == 'ContinuousCarver':
            ys_ = yd.astype(object).copy(); ys_.iloc[0] = 'oops'; mk('continuous_dev_target_with_a_string', y_dev=ys_)
        if kind == 'BinaryCarver':
            y3 = yd.copy(); y3.iloc[0] = 2; mk('binary_dev_target_with_three_classes', y_dev=y3)
            mk('binary_dev_target_constant', y_dev=pd.Series([1] * len(yd)))
    mk('y_not_a_Series', y=y.tolist())
    f_any = ob.features_of(case)[rng.randrange(len(ob.features_of(case)))]
    if kind == 'QuantitativeDiscretizer': f_any = case['quantitative'][0]
    if kind == 'QualitativeDiscretizer': f_any = (case['qualitative'] + case['ordinal'])[0]
    mk('missing_feature_column_in_X', X=X.drop(columns=[f_any]), column=f_any)
    if Xd is not None and 'Carver' in kind: mk('missing_feature_column_in_X_dev', X_dev=Xd.drop(columns=[f_any]))
    if kind == 'BinaryCarver':
        y3 = y.copy(); y3.iloc[pos] = 2; mk('binary_target_with_three_classes', y=y3)
        mk('binary_target_constant', y=pd.Series([1] * len(y)))
    if kind == 'ContinuousCarver':
        mk('continuous_carver_with_binary_target', y=pd.Series([i % 2 for i in range(len(y))]))
        lo_, hi_ = rng.choice([(1, 2), (-1, 1), (0, 100), (3.5, 7.25), (0.0, 1.0)])          # two classes, whatever their coding
        mk('continuous_carver_with_binary_target', y=pd.Series([[lo_, hi_][i % 2] for i in range(len(y))]))
    if kind == 'MulticlassCarver': mk('multiclass_carver_with_binary_target', y=pd.Series([['a', 'b'][i % 2] for i in range(len(y))]))
    if kind in ('BinaryCarver', 'ContinuousCarver', 'MulticlassCarver', 'Discretizer') and case['quantitative'] and (case['qualitative'] or case['ordinal']):
        q0 = case['quantitative'][0]
        mk('feature_both_quantitative_and_qualitative', ctor=dict(qualitative=list(case['qualitative']) + [q0]))
        if kind != 'Discretizer' or True:
            mk('feature_both_quantitative_and_ordinal', ctor=dict(ordinal=list(case['ordinal']) + [q0], values_orders=dict(case['values_orders'], **{q0: sorted(set(v for v in X[q0].tolist() if v == v))})))
    if case['quantitative'] and kind != 'QualitativeDiscretizer':
        q0 = case['quantitative'][0]; Xs = X.copy(); Xs[q0] = Xs[q0].astype(object); Xs.loc[Xs.index[pos], q0] = 'oops'
        mk('string_in_quantitative_feature', X=Xs)
    if case['ordinal'] and kind != 'QuantitativeDiscretizer':
        o0 = case['ordinal'][0]; Xo = X.copy(); Xo.loc[Xo.index[pos], o0] = 'not_in_ranking'
        mk('value_absent_from_ordinal_ranking', X=Xo)
    if kind in ('BinaryCarver', 'MulticlassCarver', 'ContinuousCarver'): mk('unsupported_sort_by', ctor=dict(sort_by='gini'))
    if kind in ('BinaryCarver', 'MulticlassCarver'):
        # near misses of the two supported names, the empty string, None
        mk('unsupported_sort_by', ctor=dict(sort_by=rng.choice(['cramer', 'tschuprow', 'v', '', None, 'Cramerv', 'tschuprowt '])))
    if kind == 'MulticlassCarver':
        # two classes only once the labels are read as strings (what the carver works on): 0, 1, '0', '1'
        ym = pd.Series([[0, 1, '0', '1'][i % 4] for i in range(len(y))], dtype=object, index=y.index)
        mk('multiclass_carver_with_binary_target', y=ym)
    return out


def state_of(obj, X):
    t = outcome(lambda: obj.transform(X))
    return dict(values_orders={f: (list(o), {repr(k): list(map(repr, v)) for k, v in o.content.items()}) for f, o in obj.values_orders.items()},
                json=json.dumps(obj.to_json(), sort_keys=True, default=str), transform=(t[0], t[1].astype(str).values.tolist() if t[0] == 'ok' else None), features=sorted(obj.features))


def one(arg):
    kind, seed = arg
    rng = random.Random(seed); recs = []
    case = valid_case(rng, kind); cfg = dict(rng.choice(zoo.CONFIGS)); cfg['min_freq_mod'] = None
    lit = dict(kind=kind, cfg=cfg, case=zoo.case_literal(case))
    def rec(clause, ok, msg, extra=None): recs.append((clause, bool(ok), dict(lit, **(extra or {})) if not ok else dict(kind=kind, seed=seed, extra=extra), msg))
    # a valid fit first (if the valid sample itself is rejected nothing is judged)
    try:
        fitted = constructor(kind, case, cfg); do_fit(fitted, kind, case['X'], case['y'], case['X_dev'], case['y_dev'])
    except Exception:
        return recs
    for name, kw in malformations(kind, case, rng):
        args = dict(X=case['X'], y=case['y'], X_dev=case['X_dev'], y_dev=case['y_dev']); args.update({k: v for k, v in kw.items() if k not in ('ctor', 'column')})
        # (a) on a fresh object
        try:
            o = constructor(kind, case, cfg, **kw.get('ctor', {})); do_fit(o, kind, args['X'], args['y'], args['X_dev'], args['y_dev'])
            rec('fit#raises.AssertionError.' + name, False, '%s: malformed input accepted (fresh object)' % name, dict(malformation=name))
        except AssertionError: rec('fit#raises.AssertionError.' + name, True, '')
        except Exception as e:
            rec('fit#raises.AssertionError.' + name, False, '%s: rejected with %s instead of AssertionError: %s' % (name, type(e).__name__, str(e)[:150]), dict(malformation=name))
        # (b) on the fitted object: refit with the malformed input, and transform of malformed X; state must be unchanged
        if 'ctor' in kw: continue
        before = state_of(fitted, case['X'])
        r = outcome(lambda: do_fit(fitted, kind, args['X'], args['y'], args['X_dev'], args['y_dev']))
        rec('fit#raises.AssertionError.on_fitted_object', r[0] == 'reject', '%s on an already fitted object: %s' % (name, r[0]), dict(malformation=name))
        after = state_of(fitted, case['X'])
        diff = [k for k in before if before[k] != after[k]]
        rec('fit#frame.rejected_call_leaves_fitted_state_unchanged', not diff, 'after a rejected fit (%s): %r changed' % (name, diff), dict(malformation=name))
        if isinstance(args['X'], pd.DataFrame) and not frame_equal(args['X'], case['X']):
            t = outcome(lambda: fitted.transform(args['X']))
            still_used = kw.get('column') is None or kw['column'] in fitted.features or bool(fitted.features_casting.get(kw['column']))     # (a column of a feature the fit dropped -- all of its per-class versions for a multiclass carver -- is no longer needed)
            if name in ('missing_feature_column_in_X', 'value_absent_from_ordinal_ranking') and still_used and (name != 'value_absent_from_ordinal_ranking' or case['ordinal'][0] in fitted.features):
                rec('transform#raises.AssertionError.' + name, t[0] == 'reject', 'transform of X with %s: %s' % (name, t[0]), dict(malformation=name))
            after2 = state_of(fitted, case['X'])
            rec('transform#frame.rejected_call_leaves_fitted_state_unchanged', before == after2 or after == after2, 'after transform of malformed X (%s) the fitted state changed' % name, dict(malformation=name))
            if after != after2: break
        if diff: fitted = None; break
    # an object rebuilt from JSON is a fitted object too: fitting it must be refused and must leave it unchanged
    try:
        from rtc.battery import reload
        re_ = reload(fitted if fitted is not None else constructor(kind, case, cfg), kind) if fitted is not None else None
        if re_ is not None:
            b0 = state_of(re_, case['X']); r = outcome(lambda: re_.fit(case['X'], case['y']))
            rec('fit#raises.AssertionError.second_fit_of_reloaded_object', r[0] == 'reject', 'fit of an object reloaded from JSON: %s' % r[0])
            rec('fit#frame.rejected_call_leaves_fitted_state_unchanged', b0 == state_of(re_, case['X']), 'after fitting a reloaded object its state changed', dict(malformation='fit_of_reloaded'))
    except Exception as e:
        pass
    # a second fit of a fitted object with VALID data
    if fitted is not None:
        before = state_of(fitted, case['X'])
        r = outcome(lambda: do_fit(fitted, kind, case['X'], case['y'], case['X_dev'], case['y_dev']))
        rec('fit#raises.AssertionError.second_fit_of_fitted_object', r[0] == 'reject', 'second fit: %s' % r[0])
        after = state_of(fitted, case['X'])
        diff = [k for k in before if before[k] != after[k]]
        rec('fit#frame.rejected_call_leaves_fitted_state_unchanged', not diff, 'after the second fit: %r changed' % (diff,), dict(malformation='second_fit'))
        if not diff:
            # ... and with ANOTHER valid sample: missing values in every feature column (also where the first sample had none), every other row
            X2 = case['X'].iloc[::2].copy()
            for j, f in enumerate(ob.features_of(case)):
                col = X2[f].astype(object) if X2[f].dtype != float and str(X2[f].dtype) != 'float32' else X2[f].copy()
                col.iloc[j % len(col)] = np.nan; col.iloc[(j + 3) % len(col)] = np.nan; X2[f] = col
            r = outcome(lambda: do_fit(fitted, kind, X2, case['y'].iloc[::2], None, None))
            rec('fit#raises.AssertionError.second_fit_of_fitted_object', r[0] == 'reject', 'second fit with another sample: %s' % r[0], dict(malformation='second_fit_other_sample'))
            after = state_of(fitted, case['X']); diff = [k for k in before if before[k] != after[k]]
            rec('fit#frame.rejected_call_leaves_fitted_state_unchanged', not diff, 'after the second fit with another sample (new missing values): %r changed' % (diff,), dict(malformation='second_fit_other_sample'))
    return recs


def one_utility(arg):
    """the utility discretizers used directly: a second fit -- here with a sample that holds missing values the first one did not -- is refused and changes nothing"""
    kind, seed = arg
    rng = random.Random(seed); recs = []
    case = zoo.random_case(rng, target='binary', allow_nan=False, with_dev=False, variants=True); cfg = dict(rng.choice(zoo.CONFIGS)); cfg['min_freq_mod'] = None
    if not ob.applicable(kind, case): return recs
    lit = dict(kind=kind, cfg=cfg, case=zoo.case_literal(case))
    def rec(clause, ok, msg, extra=None): recs.append((clause, bool(ok), dict(lit, **(extra or {})) if not ok else dict(kind=kind, seed=seed, extra=extra), msg))
    try: obj = ob.build(kind, case, cfg)
    except Exception: return recs
    X = case['X']; before = state_of(obj, X)
    X2 = X.copy()
    for j, f in enumerate(obj.features):
        if f in X2.columns:
            col = X2[f].astype(object) if X2[f].dtype != float else X2[f].copy()
            col.iloc[(j * 3) % len(col)] = np.nan; col.iloc[(j * 3 + 1) % len(col)] = np.nan; X2[f] = col
    for name, Xs in (('same_sample', X), ('sample_with_new_missing_values', X2)):
        r = outcome(lambda: obj.fit(Xs, case['y']))
        rec('fit#raises.AssertionError.second_fit_of_fitted_object', r[0] == 'reject', '%s: second fit (%s): %s' % (kind, name, r[0]), dict(malformation='second_fit_' + name))
        after = state_of(obj, X); diff = [k for k in before if before[k] != after[k]]
        rec('fit#frame.rejected_call_leaves_fitted_state_unchanged', not diff, '%s: after the second fit (%s): %r changed' % (kind, name, diff), dict(malformation='second_fit_' + name))
        if diff: break
    return recs


def run(ctx):
    nu = 12 if ctx.tier == 'quick' else 100
    for recs in zoo.pmap(one_utility, [(k, ctx.seed * 31 + i) for i in range(nu) for k in ('OrdinalDiscretizer', 'CategoricalDiscretizer', 'ContinuousDiscretizer')]):
        for clause, ok, wit, msg in recs: ctx.check(clause, clause.split('#')[0], ok, wit, msg)
    n = 8 if ctx.tier == 'quick' else 60
    args = [(k, ctx.seed * 1009 + i * 17 + j) for i in range(n) for j, k in enumerate(KINDS)]
    ctx.bound('malformed inputs', '%d valid seeded samples per class x every malformation of the property list, injected at a seeded row; before and after a successful fit' % n)
    for recs in zoo.pmap(one, args):
        for clause, ok, wit, msg in recs: ctx.check(clause, clause.split('#')[0], ok, wit, msg)
