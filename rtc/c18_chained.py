"""Bounded contracts for C18: ChainedDiscretizer.fit / transform on small hierarchies (2-3 levels, uneven fan-out, never-observed members),
frequency profiles placed around min_freq, unknown_handling in {raise, drop}."""
import random, traceback, json
import numpy as np
import pandas as pd
from rtc import zoo
from rtc.battery import outcome, series_list
from rtc.objects import isnan


def make_hierarchy(rng):
    """-> (leaves, levels) ; levels: list of dict parent -> children (children are leaves or parents of the previous level)"""
    n_l1 = rng.choice([2, 3]); leaves = []; l1 = {}
    for g in range(n_l1):
        k = rng.choice([1, 2, 3]); ch = ['v%d%d' % (g, j) for j in range(k)]; leaves += ch; l1['G%d' % g] = ch
    levels = [l1]
    if rng.random() < 0.6:
        gs = list(l1); cut = rng.choice(range(1, len(gs))) if len(gs) > 1 else 1
        l2 = {'TopA': gs[:cut]}
        if gs[cut:]: l2['TopB'] = gs[cut:]
        levels.append(l2)
    return leaves, levels


def chained_orders_arg(levels):
    return [{p: list(ch) + [p] for p, ch in lvl.items()} for lvl in levels]


def ancestors(levels, v):
    out = []; cur = v
    for lvl in levels:
        for p, ch in lvl.items():
            if cur in ch: out.append(p); cur = p; break
    return out


def gen_rows(rng, seed, leaves, mf, n, handling, second=False):
    """one column: -> (rows, counts, unknown)"""
    thr = int(round(mf * n)); counts = {}
    pool = [0, 0, 1, max(0, thr - 1), thr, thr + 1, 2 * thr, 3]
    for v in leaves: counts[v] = rng.choice(pool)
    if sum(counts.values()) == 0: counts[leaves[0]] = thr + 1
    exact_max = (seed % 6 == 0) and thr >= 1 and not second
    if exact_max:
        # the most frequent value sits EXACTLY on min_freq
        counts = {v: min(c, thr) for v, c in counts.items()}; counts[leaves[0]] = thr
    rows = [v for v, c in counts.items() for _ in range(c)]
    nan_rows = rng.choice([0, 0, 2]); unknown = rng.choice([[], [], ['zz1'], ['zz1', 'zz2']])
    if second and handling == 'raise': unknown = []
    rows += [np.nan] * nan_rows + [u for u in unknown for _ in range(rng.choice([1, 2]))]
    if exact_max:
        n = len(rows) if len(rows) >= int(round(thr / mf)) else int(round(thr / mf))
        spare = [v for v in leaves if counts[v] < thr]
        while len(rows) < n and spare:
            v = rng.choice(spare); rows.append(v); counts[v] += 1; spare = [u for u in leaves if counts[u] < thr]
        while len(rows) < n: rows.append(np.nan)
    while len(rows) < n: rows.append(rng.choice([v for v in leaves if counts[v] > 0]))
    rng.shuffle(rows)
    return rows


def one(arg):
    seed, tier = arg
    from AutoCarver.discretizers.utils.qualitative_discretizers import ChainedDiscretizer
    rng = random.Random(seed); recs = []
    leaves, levels = make_hierarchy(rng)
    # every fifth hierarchy has numeric codes as leaves ('1000001', ...), given as strings in the hierarchy and stored as floats in the column (a code column with missing values)
    float_codes = (seed % 5 == 3)
    if float_codes:
        base = rng.choice([0, 100, 1000000, 20000000]); code = {v: str(base + i + 1) for i, v in enumerate(leaves)}
        leaves = [code[v] for v in leaves]; levels = [{p: [code.get(c, c) for c in ch] for p, ch in lvl.items()} for lvl in levels]
    n = rng.choice([20, 40, 50]); mf = rng.choice([0.1, 0.2, 0.25, 0.3])
    handling = rng.choice(['raise', 'drop'])
    rows = gen_rows(rng, seed, leaves, mf, n, handling); n = len(rows)
    cols = {'f': rows}
    if seed % 2 == 1:
        # a second chained feature over the same hierarchy with its own frequencies (each feature is grouped according to ITS OWN frequencies)
        r2 = gen_rows(rng, seed, leaves, mf, n, handling, second=True)[:n]
        present = [v for v in r2 if not isnan(v)] or [leaves[0]]
        while len(r2) < n: r2.append(rng.choice(present))
        cols['f2'] = r2
    def column(rs):
        if float_codes: return pd.Series([np.nan if isnan(v) else (float(v) if v in leaves else 9.0e8 + len(v)) for v in rs], dtype=float)
        return pd.Series(rs, dtype=object)
    X = pd.DataFrame(dict({f: column(rs) for f, rs in cols.items()}, other=range(n))); y = pd.Series([i % 2 for i in range(n)])
    idx_kind = seed % 3
    if idx_kind == 1: X.index = [i * 2 + 100 for i in range(n)]; y.index = X.index           # an index that is not 0..n-1 (e.g. rows of a train/test split)
    if idx_kind == 2: X.index = ['r%03d' % i for i in range(n)]; y.index = X.index
    lit = dict(levels=levels, columns={f: [None if isnan(v) else v for v in rs] for f, rs in cols.items()}, min_freq=mf, unknown_handling=handling, float_codes=float_codes, str_nan=('MISSING' if seed % 4 == 2 else '__NAN__'))
    def rec(clause, ok, msg, extra=None): recs.append((clause, bool(ok), dict(lit, **(extra or {})) if not ok else dict(seed=seed), msg))
    try:
        kw = dict(str_nan='MISSING') if seed % 4 == 2 else {}          # a custom missing-value marker every fourth case
        d = ChainedDiscretizer(qualitative_features=list(cols), chained_orders=chained_orders_arg(levels), min_freq=mf, unknown_handling=handling, copy=True, **kw)
    except Exception as e:
        rec('ChainedDiscretizer.__init__#raises.nothing_on_valid_hierarchy', False, '__init__ raised %s: %s' % (type(e).__name__, str(e)[:150])); return recs
    all_values = leaves + [p for lvl in levels for p in lvl]
    rec('ChainedDiscretizer.__init__#post.known_values_complete_and_unique', sorted(d.known_values) == sorted(all_values), 'known_values %r vs hierarchy %r' % (d.known_values, all_values))
    r = outcome(lambda: d.fit(X, y))
    unknowns = {f: sorted(set(v for v in rs if not isnan(v) and v not in leaves)) for f, rs in cols.items()}
    freqs = {f: pd.Series(rs, dtype=object).fillna('__NAN__').value_counts(normalize=True).to_dict() for f, rs in cols.items()}
    discretizable = {f: max(v for k, v in freqs[f].items() if k != '__NAN__') >= mf for f in cols}
    if not all(discretizable.values()): return recs          # a feature is not discretized at all (largest modality rarer than min_freq): nothing to judge
    if any(unknowns.values()) and handling == 'raise':
        rec('ChainedDiscretizer.fit#raises.AssertionError.unknown_value_with_handling_raise', r[0] == 'reject', 'unknown values %r with unknown_handling=raise: %s' % (unknowns, r[0])); return recs
    if r[0] == 'reject':
        # unknown_handling=drop must not refuse unknown values; a hierarchy-only sample must not be refused at all
        if any(unknowns.values()) and handling == 'drop':
            rec('ChainedDiscretizer.fit#post.unknown_values_merged_with_missing_values_when_drop', False, 'unknown values %r with unknown_handling=drop: fit raised AssertionError' % (unknowns,))
        elif not any(unknowns.values()):
            rec('ChainedDiscretizer.fit#raises.nothing_when_every_value_is_known_to_the_hierarchy', False, 'every observed value is known to the hierarchy, a value reaches min_freq, but fit raised AssertionError')
        return recs
    if r[0] != 'ok':
        rec('ChainedDiscretizer.fit#raises.only_AssertionError', False, 'fit: %s' % r[0]); return recs
    out = outcome(lambda: d.transform(X))
    for f, rows in cols.items():
        unknown = unknowns[f]; freq = freqs[f]; F = dict(feature=f)
        counts = {v: sum(1 for x in rows if x == v) for v in leaves}
        if f not in d.features:
            rec('ChainedDiscretizer.fit#post.feature_discretized_when_a_value_reaches_min_freq', False, 'largest modality has frequency %.4f >= min_freq %.2f but the feature was dropped' % (max(v for k, v in freq.items() if k != '__NAN__'), mf), F); continue
        order = d.values_orders[f]
        present = order.values()
        rec('ChainedDiscretizer.fit#post.every_hierarchy_value_still_present', all(v in present for v in all_values), 'missing from values_orders: %r' % ([v for v in all_values if v not in present],), F)
        if not all(v in present for v in all_values): continue
        for v in leaves:
            fv = freq.get(v, 0.0); g = order.get_group(v)
            if counts[v] > 0:
                own = (g == v)
                rec('ChainedDiscretizer.fit#post.own_modality_iff_frequent', own == (fv >= mf), 'value %r: frequency %.4f, min_freq %.2f, group leader %r' % (v, fv, mf, g), dict(value=v, feature=f))
                if own: rec('ChainedDiscretizer.fit#post.frequent_value_keeps_a_group_of_its_own', [x for x in order.content[v] if isinstance(x, str)] == [v], 'group of %r is %r' % (v, order.content[v]), dict(value=v, feature=f))
            if g != v:
                rec('ChainedDiscretizer.fit#post.rare_value_merged_into_an_ancestor', g in ancestors(levels, v), 'value %r merged into %r, ancestors are %r' % (v, g, ancestors(levels, v)), dict(value=v, feature=f))
        # reference model of the whole merge (from the property text): level by level, every member of the level whose CURRENT frequency among all rows is below
        # min_freq moves to its parent; frequencies are re-counted after each level
        parent = [{c: p for p, ch in lvl.items() for c in ch} for lvl in levels]
        lab_rows = [('__NAN__' if isnan(v) or v in unknown else v) for v in rows]; final = {v: v for v in all_values}
        for li, lvl in enumerate(levels):
            cnt = {}
            for l in lab_rows: cnt[l] = cnt.get(l, 0) + 1
            members = set(parent[li]) | set(lvl)
            move = {m: parent[li].get(m, m) for m in members if cnt.get(m, 0) / n < mf}
            lab_rows = [move.get(l, l) for l in lab_rows]
            final = {v: move.get(g, g) for v, g in final.items()}
        wrong = [(v, order.get_group(v), final[v]) for v in all_values if order.get_group(v) != final[v]]
        rec('ChainedDiscretizer.fit#post.grouping_equals_reference_model', not wrong, '(value, fitted leader, expected leader): %r' % (wrong[:5],), F)
        # an intermediate ancestor group that is itself rarer than min_freq is merged further up
        if out[0] != 'ok':
            rec('ChainedDiscretizer.transform#post.accepts_training_data', False, 'transform of the training data: %s' % out[0]); return recs
        col = out[1][f]; lab_freq = col.fillna('__NAN__').value_counts(normalize=True).to_dict()
        for lvl_i, lvl in enumerate(levels[:-1]):
            for p in lvl:
                if p in list(order) and ancestors(levels, p):
                    rec('ChainedDiscretizer.fit#post.rare_intermediate_group_merged_further_up', lab_freq.get(p, 0.0) >= mf, 'intermediate group %r keeps its own modality with frequency %.4f < min_freq %.2f' % (p, lab_freq.get(p, 0.0), mf), dict(value=p, feature=f))
        # transform outputs each value's group leader (missing values stay missing: dropna=False); unknown values merged with the missing ones come out exactly as they do
        bad = []; merged_out = set()
        for v, o in zip(rows, col.tolist()):
            if isnan(v) or v in unknown:
                ok = isnan(o) or o == d.str_nan; merged_out.add('nan' if isnan(o) else repr(o))
            else: ok = (o == order.get_group(v))
            if not ok: bad.append((v, o))
        rec('ChainedDiscretizer.transform#post.outputs_group_leader', not bad, 'rows (value, output) %r' % (bad[:5],), F)
        if unknown and handling == 'drop':
            got = [order.get_group(X[f].iloc[i]) for i, v in enumerate(rows) if v in unknown]
            rec('ChainedDiscretizer.fit#post.unknown_values_merged_with_missing_values_when_drop', all(g == d.str_nan for g in got), 'groups of unknown values: %r' % (got,), F)
            rec('ChainedDiscretizer.transform#post.unknown_and_missing_values_share_one_output', len(merged_out) <= 1, 'unknown values were merged with the missing values but transform outputs %r for them' % (sorted(merged_out),), F)
    # a value outside the hierarchy that was NOT seen at fit, in a new frame: refused (whatever unknown_handling: it has no group), never passed through or blanked
    if r[0] == 'ok' and d.features:
        f0 = d.features[0]; Xn = X.iloc[:3].copy()
        Xn[f0] = pd.Series([9.0e8 + 77] * 3, dtype=float, index=Xn.index) if float_codes else pd.Series(['never_in_hierarchy'] * 3, dtype=object, index=Xn.index)
        t2 = outcome(lambda: d.transform(Xn))
        rec('ChainedDiscretizer.transform#raises.AssertionError.value_outside_the_hierarchy_unseen_at_fit', t2[0] == 'reject', 'transform of a frame holding a value outside the hierarchy (unseen at fit): %s%s' % (t2[0], (' -> %r' % t2[1][f0].tolist()) if t2[0] == 'ok' else ''), dict(feature=f0))
    if out[0] == 'ok': rec('ChainedDiscretizer.transform#frame.other_columns_untouched', series_list(out[1]['other']) == list(range(n)), 'other column changed')
    return recs


def run(ctx):
    n = 400 if ctx.tier == 'quick' else 4000
    ctx.bound('ChainedDiscretizer', '%d seeded hierarchies (2-3 levels, 2-3 first-level groups with fan-out 1-3, optional second level), 20-50 rows, leaf counts from {0, 1, thr-1, thr, thr+1, 2thr, 3} '
              'with thr = min_freq*rows, min_freq in {0.1,0.2,0.25,0.3}, 0-2 unknown values, unknown_handling in {raise, drop}, optional NaN; every second case has a second chained feature over the same hierarchy with its own frequencies, every fifth has numeric codes stored as a float column (up to 8 digits)' % n)
    for recs in zoo.pmap(one, [(ctx.seed * 7 + i, ctx.tier) for i in range(n)]):
        for clause, ok, wit, msg in recs: ctx.check(clause, clause.split('#')[0], ok, wit, msg)
