"""bounded clauses of C08 on fitted objects (see rtc/battery.py)"""
from rtc import battery
ALL = ['Discretizer', 'QuantitativeDiscretizer', 'QualitativeDiscretizer', 'BinaryCarver', 'ContinuousCarver', 'MulticlassCarver', 'OrdinalDiscretizer', 'CategoricalDiscretizer', 'ContinuousDiscretizer']
import random, traceback
import numpy as np
import pandas as pd
from rtc import zoo
from rtc.battery import wf_order, outcome


def special(arg):
    """inputs the general battery does not build: (a) a PRE-GROUPED ordinal ranking in which the user already attached the missing-value marker to a modality,
    handed to OrdinalDiscretizer / QualitativeDiscretizer / Discretizer; (b) ChainedDiscretizer with features whose most frequent modality is rarer than min_freq
    (dropped) next to ordinary ones"""
    which, seed = arg; rng = random.Random(seed); recs = []
    def rec(clause, ok, msg, wit): recs.append(('C08:' + clause, bool(ok), wit if not ok else dict(which=which, seed=seed), msg))
    n = rng.choice([40, 60, 80])
    if which == 'pregrouped':
        rank = ['low', 'mid', 'high', 'top'][:rng.choice([3, 4])]
        col = [rank[min(len(rank) - 1, int(rng.random() * len(rank)))] if rng.random() > 0.15 else np.nan for _ in range(n)]
        X = pd.DataFrame({'o': pd.Series(col, dtype=object), 'q': [round(rng.random() * 5, 1) for _ in range(n)]}); y = pd.Series([int(rng.random() < 0.4) for _ in range(n)])
        host = rng.choice(rank); marker = rng.choice(['__NAN__', 'MISSING'])
        content = {r_: ([marker, r_] if r_ == host else [r_]) for r_ in rank}
        wit = dict(which=which, ranking=content, column=[None if v != v else v for v in col], str_nan=marker)
        from AutoCarver.discretizers import GroupedList, Discretizer, QualitativeDiscretizer
        from AutoCarver.discretizers.utils.qualitative_discretizers import OrdinalDiscretizer
        for name, mk in (('OrdinalDiscretizer', lambda: OrdinalDiscretizer(ordinal_features=['o'], values_orders={'o': GroupedList(content)}, min_freq=0.1, str_nan=marker, copy=True)),
                         ('QualitativeDiscretizer', lambda: QualitativeDiscretizer(qualitative_features=[], ordinal_features=['o'], values_orders={'o': GroupedList(content)}, min_freq=0.1, str_nan=marker, copy=True)),
                         ('Discretizer', lambda: Discretizer(quantitative_features=['q'], qualitative_features=[], ordinal_features=['o'], values_orders={'o': GroupedList(content)}, min_freq=0.1, str_nan=marker, copy=True))):
            w = dict(wit, kind=name)
            try: o = mk(); o.fit(X, y)
            except AssertionError: continue
            except Exception as e:
                rec('fit#raises.only_AssertionError', False, '%s.fit raised %s: %s' % (name, type(e).__name__, str(e)[:200]), w); continue
            rec('fit#raises.only_AssertionError', True, '', w)
            if 'o' in o.features:
                errs = wf_order(o.values_orders['o'])
                rec('fit#post.values_orders_well_formed', not errs, '%s: %s (order %r)' % (name, '; '.join(errs), dict(o.values_orders['o'].content)), w)
                t = outcome(lambda: o.transform(X))
                rec('transform#post.training_rows_accepted', t[0] == 'ok', '%s: transform of the training data: %s' % (name, t[0]), w)
    elif which == 'int_ranking':
        # an ordinal feature stored as integer codes whose ranking is given as NUMBERS (not as their string forms)
        from AutoCarver.discretizers import GroupedList, Discretizer, QualitativeDiscretizer
        k = rng.choice([3, 4, 5]); codes = list(range(k)); rng.shuffle(codes); col = [rng.choice(codes) for _ in range(n)]
        X = pd.DataFrame({'o': pd.Series(col, dtype=object), 'q': [round(rng.random() * 5, 1) for _ in range(n)]}); rk = {c: i for i, c in enumerate(codes)}
        y = pd.Series([int(rng.random() < 0.15 + 0.2 * rk[c]) for c in col])
        wit = dict(which=which, ranking=codes, column=col)
        for name, mk in (('QualitativeDiscretizer', lambda: QualitativeDiscretizer(qualitative_features=[], ordinal_features=['o'], values_orders={'o': GroupedList(list(codes))}, min_freq=0.05, copy=True)),
                         ('Discretizer', lambda: Discretizer(quantitative_features=['q'], qualitative_features=[], ordinal_features=['o'], values_orders={'o': GroupedList(list(codes))}, min_freq=0.05, copy=True))):
            w = dict(wit, kind=name)
            try: o = mk(); o.fit(X, y)
            except AssertionError: continue
            except Exception as e:
                rec('fit#raises.only_AssertionError', False, '%s.fit raised %s: %s' % (name, type(e).__name__, str(e)[:200]), w); continue
            if 'o' in o.features:
                errs = wf_order(o.values_orders['o'])
                rec('fit#post.values_orders_well_formed', not errs, '%s: %s (order %r)' % (name, '; '.join(errs), dict(o.values_orders['o'].content)), w)
    elif which == 'pregrouped_default':
        # a categorical feature handed over with a PRE-GROUPED order in which the default marker already leads a group (a previous discretization), and a NEW rare value
        from AutoCarver.discretizers import GroupedList, Discretizer, QualitativeDiscretizer
        marker = rng.choice(['__OTHER__', 'AUTRES']); cats = ['a', 'b', 'c', 'd']; old_rare = ['x', 'w'][:rng.choice([1, 2])]
        col = [rng.choice(cats) for _ in range(n - 6)] + [old_rare[0]] * 3 + ['r'] * 3; rng.shuffle(col)
        X = pd.DataFrame({'c': pd.Series(col, dtype=object), 'q': [round(rng.random() * 5, 1) for _ in range(n)]}); y = pd.Series([int(rng.random() < 0.4) for _ in range(n)])
        content = {**{k_: [k_] for k_ in cats + ['r']}, marker: old_rare + [marker]}
        wit = dict(which=which, values_orders=content, column=col, str_default=marker)
        for name, mk in (('QualitativeDiscretizer', lambda: QualitativeDiscretizer(qualitative_features=['c'], values_orders={'c': GroupedList(content)}, min_freq=0.1, str_default=marker, copy=True)),
                         ('Discretizer', lambda: Discretizer(quantitative_features=['q'], qualitative_features=['c'], values_orders={'c': GroupedList(content)}, min_freq=0.1, str_default=marker, copy=True))):
            w = dict(wit, kind=name)
            try: o = mk(); o.fit(X, y)
            except AssertionError: continue
            except Exception as e:
                rec('fit#raises.only_AssertionError', False, '%s.fit raised %s: %s' % (name, type(e).__name__, str(e)[:200]), w); continue
            rec('fit#raises.only_AssertionError', True, '', w)
            if 'c' in o.features:
                order = o.values_orders['c']; errs = wf_order(order)
                rec('fit#post.values_orders_well_formed', not errs, '%s: %s (order %r)' % (name, '; '.join(errs), dict(order.content)), w)
                missing = [v for v in dict.fromkeys(col) if v not in order.values()]
                rec('fit#post.values_orders_cover_training_values', not missing, '%s: training values %r are no longer known to values_orders %r' % (name, missing, dict(order.content)), w)
    else:
        from AutoCarver.discretizers.utils.qualitative_discretizers import ChainedDiscretizer
        leaves = ['v%d%d' % (g, j) for g in range(3) for j in range(4)]; levels = [{'G%d' % g: ['v%d%d' % (g, j) for j in range(4)] + ['G%d' % g] for g in range(3)}]
        cols = {}
        for k in range(rng.choice([2, 3])):
            if k == 1 or rng.random() < 0.3: cols['h%d' % k] = [leaves[(j + k) % 12] for j in range(n)]                                                 # 12 equally rare values: dropped at min_freq 0.1
            else: cols['h%d' % k] = [leaves[0] if rng.random() < 0.4 else rng.choice(leaves) for _ in range(n)]
        if rng.random() < 0.5: cols['h0'] = [np.nan if rng.random() < 0.1 else v for v in cols['h0']]
        X = pd.DataFrame({c: pd.Series(v, dtype=object) for c, v in cols.items()}); y = pd.Series([j % 2 for j in range(n)])
        wit = dict(which=which, columns={c: [None if v != v else v for v in vs] for c, vs in cols.items()}, levels=levels)
        try:
            o = ChainedDiscretizer(qualitative_features=list(cols), chained_orders=levels, min_freq=0.1, unknown_handling=rng.choice(['raise', 'drop']), copy=True); o.fit(X, y)
        except AssertionError: return recs
        except Exception as e:
            rec('fit#raises.only_AssertionError', False, 'ChainedDiscretizer.fit raised %s: %s' % (type(e).__name__, str(e)[:200]), wit); return recs
        rec('fit#raises.only_AssertionError', True, '', wit)
        for name in ('values_orders', 'input_dtypes', 'labels_per_values', 'features_dropna'):
            rec('fit#post.attribute_keys_equal_kept_features', set(getattr(o, name)) == set(o.features), 'ChainedDiscretizer: %s has keys %r, features %r' % (name, sorted(getattr(o, name)), sorted(o.features)), dict(wit, attribute=name))
        for f in o.features:
            errs = wf_order(o.values_orders[f]); rec('fit#post.values_orders_well_formed', not errs, 'ChainedDiscretizer %s: %s' % (f, '; '.join(errs)), dict(wit, feature=f))
        t = outcome(lambda: o.transform(X))
        if t[0] == 'ok':
            for f in cols:
                if f not in o.features: rec('transform#post.dropped_features_untouched', [repr(v) for v in t[1][f].tolist()] == [repr(v) for v in X[f].tolist()], 'dropped chained feature %s modified by transform' % f, dict(wit, feature=f))
        else: rec('transform#post.training_rows_accepted', False, 'ChainedDiscretizer: transform of the training data: %s' % t[0], wit)
    return recs


def run(ctx):
    battery.run_battery(ctx, {'C08'}, kinds=ALL)
    n = 20 if ctx.tier == 'quick' else 200
    ctx.bound('special inputs', '%d pre-grouped ordinal rankings holding the missing-value marker (3 classes) and %d ChainedDiscretizer frames with dropped features' % (n, n))
    for recs in zoo.pmap(special, [(w, ctx.seed * 53 + i) for i in range(n) for w in ('pregrouped', 'pregrouped_default', 'chained')] + [('int_ranking', ctx.seed * 53 + i) for i in range(max(4, n // 5))]):
        for clause, ok, wit, msg in recs:
            if clause.startswith('C08:'): ctx.check(clause[4:], clause[4:].split('#')[0], ok, wit, msg)
