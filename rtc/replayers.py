def _c13(r):
    from rtc.c13_grouped_list import replay_history
    return replay_history(r['witness']['history'])
REPLAYERS = {'C13': _c13}
