"""ENGINE R: bounded run-time contract checking of the REAL functions (imported from the working tree under test).

Never counted as proved.  A module rtc/<name>.py exposes  run(ctx)  where ctx is a Ctx below; it evaluates stated
contract clauses of real functions on an enumerated small scope (exhaustive where said so) plus seeded random inputs in
the thorough tier, and records every failing input literally so that it can be replayed.
"""
import json, os, sys, time, random, traceback, warnings, hashlib

REPO = os.environ.get('VERIF_REPO', '/repo')
if REPO not in sys.path:
    sys.path.insert(0, REPO)
warnings.filterwarnings('ignore')


class Ctx:
    def __init__(self, prop, tier, seed):
        self.prop, self.tier, self.seed = prop, tier, seed
        self.rng = random.Random(seed)
        self.failures = []          # dict(clause, function, witness, message)
        self.stats = {}             # clause -> dict(evaluations, distinct(set of hashes), nontrivial)
        self.samples = []
        self.bounds = {}
        self.notes = []
        self.t0 = time.time()
        self.max_failures_per_clause = 3
        self._known = None

    def thorough(self):
        return self.tier == 'thorough'

    def bound(self, clause, text):
        self.bounds[clause] = text

    def count(self, clause, case, nontrivial=True):
        s = self.stats.setdefault(clause, dict(evaluations=0, distinct=set(), nontrivial=0))
        s['evaluations'] += 1
        if nontrivial:
            h = hashlib.md5(repr(case).encode()).hexdigest()[:12]
            if h not in s['distinct']:
                s['distinct'].add(h); s['nontrivial'] += 1
                if len(self.samples) < 12 and s['nontrivial'] in (1, 7):
                    self.samples.append({'clause': clause, 'case': _lit(case)})

    def known_id(self, clause, witness):
        if self._known is None:
            try:
                root = os.path.dirname(os.path.dirname(os.path.abspath(__file__)))
                self._known = json.load(open(os.path.join(root, 'known_findings.json'))).get('findings', [])
                if root not in sys.path: sys.path.insert(0, root)
            except Exception:
                self._known = []
        for f in self._known:
            if f.get('property') == self.prop and f.get('clause') == clause:
                cls = f.get('witness_class')
                if not cls: return f['id']
                try:
                    from vlib import finding_classes
                    if getattr(finding_classes, cls)(witness): return f['id']
                except Exception:
                    pass
        return None

    def fail(self, clause, function, witness, message):
        kid = self.known_id(clause, witness)
        if kid is not None:
            # a listed known finding: kept once, and it does not use up the per-clause quota of reported failures
            if any(f.get('known') == kid for f in self.failures): return
            self.failures.append(dict(clause=clause, function=function, witness=_lit(witness), message=str(message)[:600], known=kid)); return
        n = sum(1 for f in self.failures if f['clause'] == clause and not f.get('known'))
        if n >= self.max_failures_per_clause: return
        self.failures.append(dict(clause=clause, function=function, witness=_lit(witness), message=str(message)[:600]))

    def check(self, clause, function, ok, witness, message=''):
        """count + record"""
        self.count(clause, witness)
        if not ok: self.fail(clause, function, witness, message)
        return ok

    def result(self):
        return dict(property=self.prop, tier=self.tier, seed=self.seed, failures=self.failures, bounds=self.bounds, notes=self.notes,
                    stats={k: dict(evaluations=v['evaluations'], distinct_nontrivial=v['nontrivial']) for k, v in self.stats.items()},
                    samples=self.samples, wall_s=time.time() - self.t0)


def _lit(x):
    """JSON-able literal form of a witness"""
    try:
        json.dumps(x); return x
    except Exception:
        pass
    if isinstance(x, dict): return {str(k): _lit(v) for k, v in x.items()}
    if isinstance(x, (list, tuple)): return [_lit(v) for v in x]
    try:
        import numpy as np
        if isinstance(x, np.generic): return _lit(x.item())
    except Exception:
        pass
    if isinstance(x, float): return repr(x)
    return repr(x)


def run_module(modname, prop, tier, seed, out):
    import importlib
    ctx = Ctx(prop, tier, seed)
    try:
        mod = importlib.import_module(modname)
        mod.run(ctx)
        res = ctx.result(); res['crash'] = None
    except Exception:
        res = ctx.result(); res['crash'] = traceback.format_exc()[-3000:]
    json.dump(res, open(out, 'w'))


if __name__ == '__main__':
    # python -m rtc.harness <module> <prop> <tier> <seed> <out.json>
    run_module(sys.argv[1], sys.argv[2], sys.argv[3], int(sys.argv[4]), sys.argv[5])
