"""Prelude of engine P: polymorphic finite sequences (Python lists) as uninterpreted symbols with
triggered axioms (Dafny/Boogie style).  One instance per element sort.  z3 runs these with
auto_config=False, mbqi=False (pure E-matching); every axiom carries explicit patterns.

Every axiom below is mirrored by a theorem about Lean's `List` in /verif/lean/PreludeSound.lean
(the name of the Lean theorem is given in the trailing comment `-- lean: <name>`), and is evaluated
on all small concrete lists by `pyvc/prelude_selftest.py`.

Python operation  ->  symbol
  len(s)                Len(s)            s[i]                 At(s, i)   (0 <= i < len)
  s + t                 App(s, t)         [x]                  One(x)        []  Emp
  s[:n] / s[n:]         Take(s,n)/Drop(s,n)     s[a:b]         Slice(s,a,b)
  x in s                Has(s, x)         s.index(x)           Idx(s, x)  (first occurrence)
  s.remove(x)           Rm(s, x)          s[i] = x             Upd(s, i, x)
  len(set(s)) == len(s) Nodup(s)          [x] * n              Rep(x, n)
"""
from z3 import (DeclareSort, Function, Const, Consts, Ints, IntSort, BoolSort, ForAll, Implies, And, Or, Not,
                If, MultiPattern)

_cache = {}


def seq_theory(elem_sort):
    key = str(elem_sort)
    if key not in _cache:
        _cache[key] = SeqTh('S%d' % len(_cache), elem_sort)
    return _cache[key]


def all_theories():
    return list(_cache.values())


class SeqTh:
    def __init__(self, name, E):
        self.name, self.E = name, E
        S = self.S = DeclareSort(name + '_' + ''.join(ch for ch in str(E) if ch.isalnum()))
        I, B = IntSort(), BoolSort()
        f = lambda n, *sig: Function(name + '_' + n, *sig)
        self.Len = f('Len', S, I); self.At = f('At', S, I, E); self.App = f('App', S, S, S)
        self.Take = f('Take', S, I, S); self.Drop = f('Drop', S, I, S); self.Slice = f('Slice', S, I, I, S)
        self.Has = f('Has', S, E, B); self.Idx = f('Idx', S, E, I); self.One = f('One', E, S)
        self.Emp = Const(name + '_Emp', S); self.Upd = f('Upd', S, I, E, S); self.Rm = f('Rm', S, E, S)
        self.Prefix = f('Prefix', S, S, B); self.Nodup = f('Nodup', S, B); self.Disj = f('Disj', S, S, B)
        self.W1 = f('W1', S, I); self.W2 = f('W2', S, I); self.DW = f('DW', S, S, E)
        self.Rep = f('Rep', E, I, S); self.EqW = f('EqW', S, S, I); self.Ext = f('Ext', S, S, B)
        self.Perm = f('Perm', S, S, B)
        self._ax = None

    def lit(self, items):
        """term for the literal list [items...]"""
        if not items:
            return self.Emp
        t = self.One(items[0])
        for x in items[1:]:
            t = self.App(t, self.One(x))
        return t

    def axioms(self):
        if self._ax is not None:
            return self._ax
        S, E = self.S, self.E
        Len, At, App, Take, Drop, Has, Emp, One, Idx, Upd, Rm = (self.Len, self.At, self.App, self.Take, self.Drop,
                                                                  self.Has, self.Emp, self.One, self.Idx, self.Upd, self.Rm)
        Slice, Prefix, Nodup, Disj, W1, W2, DW, Rep = (self.Slice, self.Prefix, self.Nodup, self.Disj, self.W1, self.W2,
                                                       self.DW, self.Rep)
        s, t, u = Consts('s t u', S); x, y = Consts('x y', E); n, i, j, m, a, b = Ints('n i j m a b')
        A = []

        def ax(vs, body, *pats):
            A.append(ForAll(vs, body, patterns=list(pats)))
        # ---- length / indexing
        ax([s], Len(s) >= 0, Len(s))                                                    # -- lean: len_nonneg
        A.append(Len(Emp) == 0)                                                          # -- lean: len_nil
        ax([s], Implies(Len(s) == 0, s == Emp), Len(s))                                  # -- lean: len_zero_nil
        ax([x], And(Len(One(x)) == 1, At(One(x), 0) == x), One(x))                       # -- lean: one_len_at
        ax([s, t], Len(App(s, t)) == Len(s) + Len(t), App(s, t))                         # -- lean: len_append
        ax([s, t, n], And(Implies(And(0 <= n, n < Len(s)), At(App(s, t), n) == At(s, n)),
                          Implies(And(Len(s) <= n, n < Len(s) + Len(t)), At(App(s, t), n) == At(t, n - Len(s)))),
           At(App(s, t), n))                                                             # -- lean: at_append
        ax([s], App(s, Emp) == s, App(s, Emp)); ax([s], App(Emp, s) == s, App(Emp, s))   # -- lean: append_nil
        ax([s, t, u], App(App(s, t), u) == App(s, App(t, u)), App(App(s, t), u))         # -- lean: append_assoc
        # ---- membership / index
        ax([s, x], Implies(Has(s, x), And(0 <= Idx(s, x), Idx(s, x) < Len(s), At(s, Idx(s, x)) == x)), Has(s, x))  # -- lean: has_idx
        ax([s, x, j], Implies(And(0 <= j, j < Idx(s, x), Has(s, x)), At(s, j) != x), MultiPattern(Idx(s, x), At(s, j)))  # -- lean: idx_first
        ax([s, i], Implies(And(0 <= i, i < Len(s)), Has(s, At(s, i))), At(s, i))         # -- lean: at_has
        ax([x], Not(Has(Emp, x)), Has(Emp, x))                                           # -- lean: has_nil
        ax([x, y], Has(One(x), y) == (x == y), Has(One(x), y))                           # -- lean: has_one
        ax([s, t, x], Has(App(s, t), x) == Or(Has(s, x), Has(t, x)), Has(App(s, t), x))  # -- lean: has_append
        ax([s, t, x], Implies(Has(s, x), Idx(App(s, t), x) == Idx(s, x)), Idx(App(s, t), x))  # -- lean: idx_append_left
        ax([s, t, x], Implies(And(Not(Has(s, x)), Has(t, x)), Idx(App(s, t), x) == Len(s) + Idx(t, x)), Idx(App(s, t), x))  # -- lean: idx_append_right
        ax([x], Idx(One(x), x) == 0, Idx(One(x), x))
        # ---- take / drop / slice
        ax([s, n], Implies(And(0 <= n, n <= Len(s)), Len(Take(s, n)) == n), Take(s, n))  # -- lean: len_take
        ax([s, n, j], Implies(And(0 <= j, j < n, n <= Len(s)), At(Take(s, n), j) == At(s, j)), At(Take(s, n), j))  # -- lean: at_take
        ax([s, n], Implies(And(0 <= n, n <= Len(s)), Len(Drop(s, n)) == Len(s) - n), Drop(s, n))  # -- lean: len_drop
        ax([s, n, j], Implies(And(0 <= n, 0 <= j, j < Len(s) - n), At(Drop(s, n), j) == At(s, j + n)), At(Drop(s, n), j))  # -- lean: at_drop
        ax([s], Drop(s, 0) == s, Drop(s, 0))
        ax([s, n], Implies(n == Len(s), Take(s, n) == s), Take(s, n))
        ax([s, n], Implies(n == Len(s), Drop(s, n) == Emp), Drop(s, n))
        ax([s], Take(s, 0) == Emp, Take(s, 0))
        ax([s, n, x], Implies(And(0 <= n, n <= Len(s), Has(Take(s, n), x)), Has(s, x)), Has(Take(s, n), x))  # -- lean: has_take
        ax([s, n, j], Implies(And(0 <= j, j < n, n <= Len(s)), Has(Take(s, n), At(s, j))), MultiPattern(Take(s, n), At(s, j)))  # -- lean: has_take_at
        ax([s, n, x], Implies(And(0 <= n, n <= Len(s), Has(Drop(s, n), x)), Has(s, x)), Has(Drop(s, n), x))  # -- lean: has_drop
        ax([s, n], Implies(And(0 <= n, n <= Len(s)), App(Take(s, n), Drop(s, n)) == s), App(Take(s, n), Drop(s, n)))  # -- lean: take_append_drop
        ax([s, n], Implies(And(0 <= n, n < Len(s)), App(Take(s, n), One(At(s, n))) == Take(s, n + 1)), App(Take(s, n), One(At(s, n))))   # -- lean: take_succ
        ax([s, n], Implies(And(Nodup(s), 0 <= n, n < Len(s)), Not(Has(Take(s, n), At(s, n)))), MultiPattern(Nodup(s), Has(Take(s, n), At(s, n))))  # -- lean: nodup_not_mem_take
        ax([s, m, n, x], Implies(And(m == n + 1, 0 <= n, n < Len(s)), Has(Take(s, m), x) == Or(Has(Take(s, n), x), x == At(s, n))),
           MultiPattern(Has(Take(s, m), x), Take(s, n)))                                 # -- lean: has_take_succ
        ax([s, a, b], Implies(And(0 <= a, a <= b, b <= Len(s)), Len(Slice(s, a, b)) == b - a), Slice(s, a, b))  # -- lean: len_slice
        ax([s, a, b, j], Implies(And(0 <= a, a <= b, b <= Len(s), 0 <= j, j < b - a), At(Slice(s, a, b), j) == At(s, a + j)),
           At(Slice(s, a, b), j))                                                        # -- lean: at_slice
        ax([s, a, b], Implies(And(0 <= a, a <= b, b <= Len(s)), App(Take(s, a), Slice(s, a, b)) == Take(s, b)),
           App(Take(s, a), Slice(s, a, b)))                                              # -- lean: take_append_slice
        ax([s, a, b, x], Implies(And(0 <= a, a <= b, b <= Len(s), Has(Slice(s, a, b), x)), Has(s, x)), Has(Slice(s, a, b), x))
        ax([s, b], Implies(And(0 <= b, b <= Len(s)), Slice(s, 0, b) == Take(s, b)), Slice(s, 0, b))
        ax([s, a, b], Implies(And(0 <= a, a <= b, b == Len(s)), Slice(s, a, b) == Drop(s, a)), Slice(s, a, b))
        # ---- prefix
        ax([s, t], Implies(Prefix(s, t), Len(s) <= Len(t)), Prefix(s, t))                # -- lean: prefix_len
        ax([s, t, j], Implies(And(Prefix(s, t), 0 <= j, j < Len(s)), At(t, j) == At(s, j)), MultiPattern(Prefix(s, t), At(t, j)))  # -- lean: prefix_at
        ax([s, t], Prefix(s, App(s, t)), App(s, t))                                      # -- lean: prefix_append
        ax([s], Prefix(s, s), Prefix(s, s))
        ax([s, t, u], Implies(And(Prefix(s, t), Prefix(t, u)), Prefix(s, u)), MultiPattern(Prefix(s, t), Prefix(t, u)))  # -- lean: prefix_trans
        ax([s, t, x], Implies(And(Prefix(s, t), Has(s, x)), Has(t, x)), MultiPattern(Prefix(s, t), Has(s, x)))  # -- lean: prefix_has
        # ---- update
        ax([s, i, x], Implies(And(0 <= i, i < Len(s)), Len(Upd(s, i, x)) == Len(s)), Upd(s, i, x))  # -- lean: len_set
        ax([s, i, x, j], Implies(And(0 <= i, i < Len(s), 0 <= j, j < Len(s)), At(Upd(s, i, x), j) == If(i == j, x, At(s, j))),
           At(Upd(s, i, x), j))                                                          # -- lean: at_set
        ax([s, i, x, y], Implies(And(0 <= i, i < Len(s), Has(Upd(s, i, x), y)), Or(y == x, Has(s, y))), Has(Upd(s, i, x), y))  # -- lean: has_set
        ax([s, i, x], Implies(And(0 <= i, i < Len(s)), Has(Upd(s, i, x), x)), Upd(s, i, x))
        ax([s, i, x, y], Implies(And(0 <= i, i < Len(s), Has(s, y), y != At(s, i)), Has(Upd(s, i, x), y)), MultiPattern(Upd(s, i, x), Has(s, y)))  # -- lean: has_set_other
        # ---- remove first occurrence (list.remove)
        ax([s, x], Implies(Has(s, x), Len(Rm(s, x)) == Len(s) - 1), Rm(s, x))            # -- lean: len_erase
        ax([s, x, j], Implies(And(Has(s, x), 0 <= j, j < Len(s) - 1), At(Rm(s, x), j) == If(j < Idx(s, x), At(s, j), At(s, j + 1))),
           At(Rm(s, x), j))                                                              # -- lean: at_erase
        ax([s, x, y], Implies(Has(Rm(s, x), y), Has(s, y)), Has(Rm(s, x), y))            # -- lean: has_erase_sub
        ax([s, x, y], Implies(And(Has(s, y), y != x), Has(Rm(s, x), y)), MultiPattern(Rm(s, x), Has(s, y)))  # -- lean: has_erase_ne
        ax([s, x], Implies(And(Nodup(s), Has(s, x)), And(Nodup(Rm(s, x)), Not(Has(Rm(s, x), x)))), Rm(s, x))  # -- lean: nodup_erase
        ax([s, x], Implies(Has(s, x), Rm(s, x) == App(Take(s, Idx(s, x)), Drop(s, Idx(s, x) + 1))), Rm(s, x))  # -- lean: erase_eq_take_drop
        ax([s, x], Rm(App(s, One(x)), x) == If(Has(s, x), App(Rm(s, x), One(x)), s), Rm(App(s, One(x)), x))  # -- lean: erase_append_one
        # ---- no duplicates / disjointness
        ax([s, i, j], Implies(And(Nodup(s), 0 <= i, i < j, j < Len(s)), At(s, i) != At(s, j)), MultiPattern(Nodup(s), At(s, i), At(s, j)))  # -- lean: nodup_at
        ax([s], Or(Nodup(s), And(0 <= W1(s), W1(s) < W2(s), W2(s) < Len(s), At(s, W1(s)) == At(s, W2(s)))), Nodup(s))  # -- lean: nodup_witness
        A.append(Nodup(Emp)); ax([x], Nodup(One(x)), One(x))
        ax([s, t], Nodup(App(s, t)) == And(Nodup(s), Nodup(t), Disj(s, t)), Nodup(App(s, t)))  # -- lean: nodup_append
        ax([s, t, x], Implies(And(Disj(s, t), Has(s, x)), Not(Has(t, x))), MultiPattern(Disj(s, t), Has(s, x)))  # -- lean: disj_left
        ax([s, t, x], Implies(And(Disj(s, t), Has(t, x)), Not(Has(s, x))), MultiPattern(Disj(s, t), Has(t, x)))  # -- lean: disj_right
        ax([s, t], Or(Disj(s, t), And(Has(s, DW(s, t)), Has(t, DW(s, t)))), Disj(s, t))  # -- lean: disj_witness
        ax([s, n], Implies(And(Nodup(s), 0 <= n, n <= Len(s)), And(Nodup(Take(s, n)), Nodup(Drop(s, n)), Disj(Take(s, n), Drop(s, n)))),
           MultiPattern(Nodup(s), Take(s, n)), MultiPattern(Nodup(s), Drop(s, n)))       # -- lean: nodup_take_drop
        ax([s, x, i], Implies(And(Nodup(s), 0 <= i, i < Len(s), At(s, i) == x), Idx(s, x) == i), MultiPattern(Nodup(s), At(s, i), Idx(s, x)))  # -- lean: nodup_idx
        ax([s, i, x], Implies(And(Nodup(s), 0 <= i, i < Len(s), Not(Has(s, x))), Nodup(Upd(s, i, x))), MultiPattern(Nodup(s), Upd(s, i, x)))  # -- lean: nodup_set_fresh
        ax([s, i, x, y], Implies(And(Nodup(s), 0 <= i, i < Len(s), y == At(s, i), y != x), Not(Has(Upd(s, i, x), y))),
           MultiPattern(Nodup(s), Has(Upd(s, i, x), y)))                                 # -- lean: nodup_set_removed
        # ---- repetition  [x] * n
        ax([x, n], Implies(n >= 0, Len(Rep(x, n)) == n), Rep(x, n))
        ax([x, n, j], Implies(And(0 <= j, j < n), At(Rep(x, n), j) == x), At(Rep(x, n), j))
        # ---- extensional equality (used by goals:  Ext(a,b) is proved, then a == b follows)
        EqW, Ext = self.EqW, self.Ext
        ax([s, t], Or(Ext(s, t), Len(s) != Len(t), And(0 <= EqW(s, t), EqW(s, t) < Len(s), At(s, EqW(s, t)) != At(t, EqW(s, t)))), Ext(s, t))  # -- lean: ext_witness
        ax([s, t], Implies(Ext(s, t), s == t), Ext(s, t))                                # -- lean: ext_eq
        # ---- permutation (only what is used: same members, same length, Nodup transfers)
        Perm = self.Perm
        ax([s, t, x], Implies(Perm(s, t), Has(s, x) == Has(t, x)), MultiPattern(Perm(s, t), Has(s, x)), MultiPattern(Perm(s, t), Has(t, x)))  # -- lean: perm_has
        ax([s, t], Implies(Perm(s, t), And(Len(s) == Len(t), Nodup(s) == Nodup(t))), Perm(s, t))  # -- lean: perm_len_nodup
        ax([s], Perm(s, s), Perm(s, s))
        self._ax = A
        return A
