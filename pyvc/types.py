"""Static types of engine P and their z3 sorts.  Every Python value the engine handles has a z3 term of the
sort of its type ("value semantics"); mutable objects additionally live in the store (see engine.py)."""
from z3 import (IntSort, RealSort, BoolSort, DeclareSort, Datatype, ArraySort, Function, Const, Consts, ForAll, Implies, And,
                Or, Not, Select, Store, MultiPattern, Ints)
from .theory import seq_theory

Val = DeclareSort('Val')          # atoms that can be list elements / dict keys: strings, numbers, None-free
AnyS = DeclareSort('AnyObj')      # opaque objects whose inside is never looked at


class T:
    def __eq__(self, o): return repr(self) == repr(o)
    def __hash__(self): return hash(repr(self))


class TInt(T):
    def sort(self): return IntSort()
    def __repr__(self): return 'Int'


class TReal(T):
    def sort(self): return RealSort()
    def __repr__(self): return 'Real'


class TBool(T):
    def sort(self): return BoolSort()
    def __repr__(self): return 'Bool'


class TVal(T):
    def sort(self): return Val
    def __repr__(self): return 'Val'


class TAny(T):
    def sort(self): return AnyS
    def __repr__(self): return 'Any'


class TOpaque(T):
    _c = {}
    def __init__(self, name): self.name = name
    def sort(self):
        if self.name not in TOpaque._c: TOpaque._c[self.name] = DeclareSort(self.name)
        return TOpaque._c[self.name]
    def __repr__(self): return 'Opaque_' + self.name


class TList(T):
    def __init__(self, elem): self.elem = elem
    def th(self): return seq_theory(self.elem.sort())
    def sort(self): return self.th().S
    def __repr__(self): return 'List[%r]' % (self.elem,)


_dt_cache = {}


class TTuple(T):
    def __init__(self, items): self.items = list(items)
    def dt(self):
        key = repr(self)
        if key not in _dt_cache:
            fs = [('f%d' % i, t.sort()) for i, t in enumerate(self.items)]
            d = Datatype('Tup%d' % len(_dt_cache)); d.declare('mk', *fs)
            _dt_cache[key] = d.create()
        return _dt_cache[key]
    def sort(self): return self.dt()
    def mk(self, *terms): return self.dt().mk(*terms)
    def proj(self, i, term): return self.dt().accessor(0, i)(term)
    def __repr__(self): return 'Tuple%r' % (self.items,)


class TDict(T):
    """insertion-ordered dict = (keys : duplicate-free sequence, map : total array); an absent key is a key not in `keys`."""
    def __init__(self, k, v): self.k, self.v = k, v
    def dt(self):
        key = repr(self)
        if key not in _dt_cache:
            ks, ms = TList(self.k).sort(), ArraySort(self.k.sort(), self.v.sort())          # (component sorts first: they may create datatypes themselves)
            d = Datatype('Dict%d' % len(_dt_cache)); d.declare('mk', ('keys', ks), ('map', ms))
            _dt_cache[key] = d.create()
        return _dt_cache[key]
    def sort(self): return self.dt()
    def kth(self): return TList(self.k).th()
    def keys(self, term): return self.dt().accessor(0, 0)(term)
    def map(self, term): return self.dt().accessor(0, 1)(term)
    def mk(self, keys, mp): return self.dt().mk(keys, mp)
    def get(self, term, k): return Select(self.map(term), k)
    def has(self, term, k): return self.kth().Has(self.keys(term), k)
    def __repr__(self): return 'Dict[%r,%r]' % (self.k, self.v)


class TObj(T):
    """object with named, typed fields (class instance).  `as_list` names the field that holds the list part of a
    `list` subclass (GroupedList)."""
    def __init__(self, name, fields, as_list=None):
        self.name, self.fields, self.as_list = name, list(fields), as_list
    def dt(self):
        key = 'Obj_' + self.name
        if key not in _dt_cache:
            fs = [(n, t.sort()) for n, t in self.fields]
            d = Datatype(key); d.declare('mk', *fs); _dt_cache[key] = d.create()
        return _dt_cache[key]
    def sort(self): return self.dt()
    def idx(self, fname): return [n for n, _ in self.fields].index(fname)
    def ftype(self, fname): return dict(self.fields)[fname]
    def has_field(self, fname): return fname in dict(self.fields)
    def get(self, term, fname): return self.dt().accessor(0, self.idx(fname))(term)
    def mk(self, *terms): return self.dt().mk(*terms)
    def set(self, term, fname, new):
        return self.dt().mk(*[new if n == fname else self.get(term, n) for n, _ in self.fields])
    def __repr__(self): return 'Obj_' + self.name


INT, REAL, BOOL, VAL, ANY = TInt(), TReal(), TBool(), TVal(), TAny()
LVAL = TList(VAL)
