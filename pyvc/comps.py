"""Comprehensions, any()/all()/next() over generator expressions.

A comprehension body is evaluated ONCE at a fresh symbolic index k; every constant created while doing so is then
Skolemised into a function of k, and the result sequence R is characterised by axioms generated from the
comprehension's own body:
   map    (no filter)  : len(R) = number of indices,  R[k-lo] = elt(k)
   filter/map          : selected elt(k) are members of R;  every member of R is elt(W(y)) for a selected index W(y)
   identity filter     : duplicate-freeness is inherited
   two generators over a dict's items (flatten): membership characterisation with (key, member) witnesses
The laws used are those of List.map / List.filterMap / List.flatten (lean/PreludeSound.lean: mem_map_iff, mem_filterMap_iff,
nodup_filter, mem_flatten_iff).
"""
import ast
from z3 import (And, Or, Not, Implies, If, BoolVal, IntVal, ForAll, Exists, Select, Store, IntSort, BoolSort, Function, substitute,
                MultiPattern, K, is_app, Z3_OP_UNINTERPRETED)
from .types import *
from .engine import FreshConst, FRESH_LOG, Unsupported, PV, PRef, PTup, PNone, PMaybe, ZipSeqs
from .exprs import FullEngine
from .theory import seq_theory, all_theories
from . import discharge

_dict_specs = {}


def dict_allvals(t):
    """spec functions for a dict with list values: AllVals(d) = concatenation of the groups in key order"""
    key = repr(t)
    if key in _dict_specs: return _dict_specs[key]
    lt = t.v; th = lt.th(); kth = t.kth(); tag = str(len(_dict_specs))
    AllVals = Function('AllVals' + tag, t.sort(), lt.sort()); Own = Function('OwnerOf' + tag, t.sort(), lt.elem.sort(), t.k.sort())
    NA = Function('ndA' + tag, t.sort(), t.k.sort()); NB = Function('ndB' + tag, t.sort(), t.k.sort()); NV = Function('ndV' + tag, t.sort(), lt.elem.sort())
    from z3 import Const, Consts
    d = Const('d_av' + tag, t.sort()); v = Const('v_av' + tag, lt.elem.sort()); a, b = Consts('a_av%s b_av%s' % (tag, tag), t.k.sort())
    ax = [
        ForAll([d, v], Implies(th.Has(AllVals(d), v), And(t.has(d, Own(d, v)), th.Has(t.get(d, Own(d, v)), v))), patterns=[th.Has(AllVals(d), v)]),  # -- lean: mem_flatten_iff (->)
        ForAll([d, a, v], Implies(And(t.has(d, a), th.Has(t.get(d, a), v)), th.Has(AllVals(d), v)), patterns=[MultiPattern(th.Has(t.get(d, a), v), AllVals(d))]),  # -- lean: mem_flatten_iff (<-)
        ForAll([d, a], Implies(And(th.Nodup(AllVals(d)), t.has(d, a)), th.Nodup(t.get(d, a))), patterns=[MultiPattern(th.Nodup(AllVals(d)), t.has(d, a))]),  # -- lean: nodup_flatten (group)
        ForAll([d, a, b, v], Implies(And(th.Nodup(AllVals(d)), kth.Nodup(t.keys(d)), t.has(d, a), t.has(d, b), a != b, th.Has(t.get(d, a), v)), Not(th.Has(t.get(d, b), v))),
               patterns=[MultiPattern(th.Nodup(AllVals(d)), th.Has(t.get(d, a), v), t.has(d, b))]),  # -- lean: nodup_flatten (disjoint)
        ForAll([d], Or(th.Nodup(AllVals(d)), Not(kth.Nodup(t.keys(d))), And(t.has(d, NA(d)), Not(th.Nodup(t.get(d, NA(d))))),
                       And(t.has(d, NA(d)), t.has(d, NB(d)), NA(d) != NB(d), th.Has(t.get(d, NA(d)), NV(d)), th.Has(t.get(d, NB(d)), NV(d)))),
               patterns=[th.Nodup(AllVals(d))]),  # -- lean: nodup_flatten (converse, witnesses)
    ]
    discharge.EXTRA_AXIOMS += ax
    _dict_specs[key] = (AllVals, Own)
    return _dict_specs[key]


_dedup = {}


def dedup_fn(lt):
    key = repr(lt)
    if key in _dedup: return _dedup[key]
    th = lt.th(); D = Function('Dedup_' + th.name, th.S, th.S)
    from z3 import Const, Consts
    s = Const('s_dd', th.S); x, y = Consts('x_dd y_dd', th.E)
    discharge.EXTRA_AXIOMS += [
        ForAll([s], th.Nodup(D(s)), patterns=[D(s)]),                                                   # -- lean: nodup_dedup
        ForAll([s, x], th.Has(D(s), x) == th.Has(s, x), patterns=[th.Has(D(s), x)]),                     # -- lean: mem_dedup
        ForAll([s], Implies(th.Nodup(s), D(s) == s), patterns=[D(s)]),                                   # -- lean: dedup_of_nodup
        ForAll([s], th.Len(D(s)) <= th.Len(s), patterns=[D(s)]),
    ]
    _dedup[key] = D
    return D


class PEngine(FullEngine):
    # --------------------------------------------------------------------------------- body evaluation at index k
    def body_at(self, gens_binder, st, evals):
        """evaluate comprehension parts at a fresh index.  gens_binder(sub, k) binds the targets and returns (lo, hi, trig);
        evals: list of (kind, ast) with kind in 'cond'|'expr:<hint>' .  Returns k, lo, hi, results, Phi(k) (Skolemised facts), sk(map)"""
        raise NotImplementedError

    def skolemise(self, k_vars, created, terms):
        """constants created inside the body become functions of the index variables"""
        pairs = []
        for c in created:
            f = Function('sk_' + str(c), *([kv.sort() for kv in k_vars] + [c.sort()]))
            pairs.append((c, f(*k_vars)))
        if not pairs: return terms
        return [substitute(t, *pairs) if t is not None else None for t in terms]

    def trig(self, seq, k, R_at=None):
        pats = []
        if isinstance(seq, ZipSeqs): pats += [self.th_of(x).At(x, k) for x in seq]
        elif seq is not None: pats.append(self.th_of(seq).At(seq, k))
        if R_at is not None: pats.append(R_at)
        return pats

    def th_of(self, seq):
        for th in all_theories():
            if th.S == seq.sort(): return th
        raise Unsupported('unknown sequence sort')

    def comp_patterns(self, seq, k, st, gen):
        return self.trig(seq, k)

    def listcomp(self, e, st, hint):
        if len(e.generators) == 2: return self.flatcomp(e, st, hint)
        if len(e.generators) != 1: raise Unsupported('comprehension with %d generators' % len(e.generators))
        gen = e.generators[0]
        if not gen.ifs and isinstance(e.elt, ast.Name) and isinstance(gen.target, ast.Name) and e.elt.id == gen.target.id:
            src = self.as_list(self.expr(gen.iter, st))
            if isinstance(src, PRef) and isinstance(src.t, TList): return self.new_root(st, src.t, self.term(st, src))
        lo, hi, binder, roots, seq = self.iter_source(gen.iter, st)
        k = FreshConst(IntSort(), 'ci'); mark = len(FRESH_LOG)
        sub = st.clone(); sub.pc += [lo <= k, k < hi]; base = len(sub.pc)
        self.bind_target(gen.target, binder(sub, k), sub)
        conds = [self.cond(c, sub) for c in gen.ifs]
        conds = [BoolVal(c) if isinstance(c, bool) else c for c in conds]
        cnd = And(*conds) if conds else BoolVal(True)
        sub2 = sub.clone(); sub2.pc.append(cnd); nb = len(sub2.pc)
        elt = self.expr(e.elt, sub2, hint=hint.elem if isinstance(hint, TList) else None)
        et = hint.elem if isinstance(hint, TList) else self.type_of(elt); rt = TList(et); th = rt.th()
        elt_t = self.coerce(sub2, elt, et)
        facts = sub.pc[base:] + [Implies(cnd, And(*sub2.pc[nb:]))] if sub2.pc[nb:] else sub.pc[base:]
        created = FRESH_LOG[mark:]
        cnd_k, elt_k, phi = self.skolemise([k], created, [cnd, elt_t, And(*facts) if facts else BoolVal(True)])
        R = FreshConst(rt.sort(), 'comp')
        rng = And(lo <= k, k < hi)
        ident = seq is not None and seq.sort() == rt.sort() and elt_t.eq(self.th_of(seq).At(seq, k))
        ax = []
        n_src = If(hi < lo, 0, hi - lo)
        if facts: ax.append(ForAll([k], Implies(rng, phi), patterns=self.trig(seq, k) or [IdxTrig(k)]))
        if not gen.ifs:
            ax.append(th.Len(R) == n_src)
            R_at = th.At(R, k) if str(lo) == '0' else None
            pats = self.trig(seq, k, R_at) or [IdxTrig(k)]
            ax.append(ForAll([k], Implies(rng, th.At(R, k - lo) == elt_k), patterns=[p for p in pats]))
        else:
            ax.append(th.Len(R) <= n_src)
        ax.append(ForAll([k], Implies(And(rng, cnd_k), th.Has(R, elt_k)), patterns=self.trig(seq, k) or [IdxTrig(k)]))
        W = Function('cw_%d' % R.get_id(), et.sort(), IntSort()); y = FreshConst(et.sort(), 'cy'); FRESH_LOG.pop()
        wy = W(y)
        ax.append(ForAll([y], Implies(th.Has(R, y), And(lo <= wy, wy < hi, substitute(phi, (k, wy)), substitute(cnd_k, (k, wy)), substitute(elt_k, (k, wy)) == y)),
                         patterns=[th.Has(R, y)]))
        if ident and seq is not None and seq.sort() == rt.sort():
            ax.append(Implies(th.Nodup(seq), th.Nodup(R)))                                     # -- lean: nodup_filter
            # order of a filtered sub-sequence: first selected element
            if gen.ifs:
                j = FreshConst(IntSort(), 'fj'); FRESH_LOG.pop()
                F0 = FreshConst(IntSort(), 'first')
                ax.append(Implies(th.Len(R) > 0, And(lo <= F0, F0 < hi, substitute(cnd_k, (k, F0)), th.At(R, 0) == th.At(seq, F0),
                                                       ForAll([j], Implies(And(lo <= j, j < F0), Not(substitute(cnd_k, (k, j)))), patterns=self.trig(seq, j)))))   # -- lean: head_filter
                ax.append(ForAll([k], Implies(And(rng, cnd_k), th.Len(R) > 0), patterns=self.trig(seq, k)))
        # [x for x in s if x != c]  (c independent of the index) on a duplicate-free s: exactly s without c        -- lean: filter_ne_eq_erase
        if ident and len(gen.ifs) == 1 and isinstance(gen.ifs[0], ast.Compare) and len(gen.ifs[0].ops) == 1 and isinstance(gen.ifs[0].ops[0], ast.NotEq) \
                and isinstance(gen.ifs[0].left, ast.Name) and isinstance(gen.target, ast.Name) and gen.ifs[0].left.id == gen.target.id:
            names_in_rhs = {n.id for n in ast.walk(gen.ifs[0].comparators[0]) if isinstance(n, ast.Name)}
            if gen.target.id not in names_in_rhs:
                cval = self.expr(gen.ifs[0].comparators[0], st, hint=et)
                cterm = self.coerce(st, cval, et)
                ax.append(Implies(th.Nodup(seq), R == If(th.Has(seq, cterm), th.Rm(seq, cterm), seq)))
        st.pc += ax
        return self.new_root(st, rt, R)

    def flatcomp(self, e, st, hint):
        g1, g2 = e.generators
        it = g1.iter
        if not (isinstance(it, ast.Call) and isinstance(it.func, ast.Attribute) and it.func.attr in ('items', 'values') and not g1.ifs):
            raise Unsupported('nested comprehension not over dict items/values')
        d = self.expr(it.func.value, st)
        if not (isinstance(d, PRef) and isinstance(d.t, TDict) and isinstance(d.t.v, TList)): raise Unsupported('nested comprehension: not a dict of lists')
        self.need_not_none(st, d, ast.unparse(it.func.value))
        t = d.t; dt = self.term(st, d); lth = t.v.th(); et = t.v.elem
        if it.func.attr == 'items':
            kname, vname = g1.target.elts[0].id, g1.target.elts[1].id
        else:
            kname, vname = None, g1.target.id
        if not (isinstance(g2.iter, ast.Name) and g2.iter.id == vname and isinstance(g2.target, ast.Name)): raise Unsupported('nested comprehension shape')
        AllVals, Own = dict_allvals(t)
        ident = isinstance(e.elt, ast.Name) and e.elt.id == g2.target.id
        if ident and not g2.ifs:
            return self.new_root(st, t.v, AllVals(dt))
        if not ident: raise Unsupported('nested comprehension with a mapped element')
        # filtered flatten: membership characterisation with (key, member) witnesses
        kk = FreshConst(t.k.sort(), 'fk'); vv = FreshConst(et.sort(), 'fv'); mark = len(FRESH_LOG)
        sub = st.clone(); sub.pc += [t.has(dt, kk), lth.Has(t.get(dt, kk), vv)]; base = len(sub.pc)
        if kname: sub.env[kname] = PV(t.k, kk)
        sub.env[vname] = PRef(t.v, d.root, d.path + (('key', kk),)); sub.env[g2.target.id] = PV(et, vv)
        conds = [self.cond(c, sub) for c in g2.ifs]; conds = [BoolVal(c) if isinstance(c, bool) else c for c in conds]
        cnd = And(*conds); facts = sub.pc[base:]; created = FRESH_LOG[mark:]
        cnd_k, phi = self.skolemise([kk, vv], created, [cnd, And(*facts) if facts else BoolVal(True)])
        R = FreshConst(t.v.sort(), 'flat'); y = FreshConst(et.sort(), 'y'); FRESH_LOG.pop()
        WK = Function('fwk_%d' % R.get_id(), et.sort(), t.k.sort())
        ax = [ForAll([kk, vv], Implies(And(t.has(dt, kk), lth.Has(t.get(dt, kk), vv), phi, cnd_k), lth.Has(R, vv)), patterns=[MultiPattern(lth.Has(t.get(dt, kk), vv), t.has(dt, kk))]),
              ForAll([y], Implies(lth.Has(R, y), And(t.has(dt, WK(y)), lth.Has(t.get(dt, WK(y)), y), substitute(And(phi, cnd_k), (kk, WK(y)), (vv, y)))), patterns=[lth.Has(R, y)]),
              Implies(lth.Nodup(AllVals(dt)), lth.Nodup(R)), lth.Len(R) <= lth.Len(AllVals(dt))]
        st.pc += ax
        return self.new_root(st, t.v, R)

    def dictcomp2(self, e, st, hint):
        """{key: value for g in C for x in g}   over a list of lists C: one entry per (a, b) = (index of the inner list, index in it), later entries overwrite
        earlier ones with the same key (Skolem functions JA, JB give the last such entry), every key comes from some entry (WA, WB)"""
        g1, g2 = e.generators
        if g1.ifs or g2.ifs or not (isinstance(g1.target, ast.Name) and isinstance(g2.target, ast.Name) and isinstance(g2.iter, ast.Name) and g2.iter.id == g1.target.id):
            raise Unsupported('dict comprehension shape')
        if not isinstance(hint, TDict): raise Unsupported('dict comprehension without declared type')
        src = self.as_list(self.expr(g1.iter, st))
        if not (isinstance(src, PRef) and isinstance(src.t, TList) and isinstance(src.t.elem, TList)): raise Unsupported('nested dict comprehension: not a list of lists')
        self.need_not_none(st, src, ast.unparse(g1.iter))
        t = hint; kth = t.kth(); Cc = self.term(st, src); oth = src.t.th(); ith = src.t.elem.th(); et = src.t.elem.elem
        a, b = FreshConst(IntSort(), 'da'), FreshConst(IntSort(), 'db'); mark = len(FRESH_LOG)
        rng_ab = And(0 <= a, a < oth.Len(Cc), 0 <= b, b < ith.Len(oth.At(Cc, a)))
        sub = st.clone(); sub.pc.append(rng_ab); base = len(sub.pc)
        sub.env[g1.target.id] = self.from_term(sub, src.t.elem, oth.At(Cc, a), frozen=True); sub.env[g2.target.id] = self.from_term(sub, et, ith.At(oth.At(Cc, a), b))
        key = self.coerce(sub, self.expr(e.key, sub, hint=t.k), t.k); val = self.coerce(sub, self.expr(e.value, sub, hint=t.v), t.v)
        facts = sub.pc[base:]; created = FRESH_LOG[mark:]
        key_ab, val_ab, phi = self.skolemise([a, b], created, [key, val, And(*facts) if facts else BoolVal(True)])
        R = FreshConst(t.sort(), 'dcomp2'); x = FreshConst(t.k.sort(), 'x'); FRESH_LOG.pop()
        WA = Function('dwa_%d' % R.get_id(), t.k.sort(), IntSort()); WB = Function('dwb_%d' % R.get_id(), t.k.sort(), IntSort())
        JA = Function('dja_%d' % R.get_id(), IntSort(), IntSort(), IntSort()); JB = Function('djb_%d' % R.get_id(), IntSort(), IntSort(), IntSort())
        at = lambda f, aa, bb: substitute(f, (a, aa), (b, bb))
        pats = [ith.At(oth.At(Cc, a), b)]
        st.pc += [kth.Nodup(t.keys(R)),
                  ForAll([a, b], Implies(rng_ab, And(phi, t.has(R, key_ab))), patterns=pats),
                  ForAll([x], Implies(t.has(R, x), And(at(rng_ab, WA(x), WB(x)), at(phi, WA(x), WB(x)), at(key_ab, WA(x), WB(x)) == x)), patterns=[t.has(R, x)]),
                  ForAll([a, b], Implies(rng_ab, And(at(rng_ab, JA(a, b), JB(a, b)), Or(JA(a, b) > a, And(JA(a, b) == a, JB(a, b) >= b)), at(phi, JA(a, b), JB(a, b)),
                                                     at(key_ab, JA(a, b), JB(a, b)) == key_ab, t.get(R, key_ab) == at(val_ab, JA(a, b), JB(a, b)))), patterns=pats)]
        return self.new_root(st, t, R)

    def dictcomp(self, e, st, hint):
        if len(e.generators) == 2: return self.dictcomp2(e, st, hint)
        if len(e.generators) != 1 or e.generators[0].ifs: raise Unsupported('dict comprehension shape')
        g0 = e.generators[0]
        # {k: v for k, v in D.items()} with MUTABLE values: a shallow copy -- the new dict shares its value objects with D.  It is modelled as an alias of D
        # whose key set must not be changed (reads and in-place mutations of the shared values are then exact).
        if (isinstance(g0.iter, ast.Call) and isinstance(g0.iter.func, ast.Attribute) and g0.iter.func.attr == 'items' and isinstance(g0.target, ast.Tuple) and len(g0.target.elts) == 2
                and all(isinstance(x, ast.Name) for x in g0.target.elts) and isinstance(e.key, ast.Name) and isinstance(e.value, ast.Name)
                and e.key.id == g0.target.elts[0].id and e.value.id == g0.target.elts[1].id):
            d = self.expr(g0.iter.func.value, st)
            if isinstance(d, PRef) and isinstance(d.t, TDict) and isinstance(d.t.v, (TList, TDict, TObj)):
                self.need_not_none(st, d, ast.unparse(g0.iter.func.value))
                r = PRef(d.t, d.root, d.path); r.shallow_copy = True; return r
        if not isinstance(hint, TDict): raise Unsupported('dict comprehension without declared type')
        gen = e.generators[0]; t = hint; kth = t.kth()
        lo, hi, binder, roots, seq = self.iter_source(gen.iter, st)
        k = FreshConst(IntSort(), 'di'); mark = len(FRESH_LOG)
        sub = st.clone(); sub.pc += [lo <= k, k < hi]; base = len(sub.pc)
        self.bind_target(gen.target, binder(sub, k), sub)
        key = self.coerce(sub, self.expr(e.key, sub, hint=t.k), t.k); val = self.coerce(sub, self.expr(e.value, sub, hint=t.v), t.v)
        facts = sub.pc[base:]; created = FRESH_LOG[mark:]
        key_k, val_k, phi = self.skolemise([k], created, [key, val, And(*facts) if facts else BoolVal(True)])
        R = FreshConst(t.sort(), 'dcomp'); rng = And(lo <= k, k < hi); pats = self.trig(seq, k) or [IdxTrig(k)]
        x = FreshConst(t.k.sort(), 'x'); FRESH_LOG.pop()
        W = Function('dw_%d' % R.get_id(), t.k.sort(), IntSort()); J = Function('dj_%d' % R.get_id(), IntSort(), IntSort())
        ax = [kth.Nodup(t.keys(R)),
              ForAll([k], Implies(rng, And(phi, t.has(R, key_k))), patterns=pats),
              ForAll([x], Implies(t.has(R, x), And(lo <= W(x), W(x) < hi, substitute(phi, (k, W(x))), substitute(key_k, (k, W(x))) == x)), patterns=[t.has(R, x)]),
              # the value stored for key(k) is the value computed at the LAST index J(k) >= k with the same key
              ForAll([k], Implies(rng, And(k <= J(k), J(k) < hi, substitute(phi, (k, J(k))), substitute(key_k, (k, J(k))) == key_k, t.get(R, key_k) == substitute(val_k, (k, J(k))))), patterns=pats),
              kth.Len(t.keys(R)) <= If(hi < lo, 0, hi - lo)]
        ident_key = isinstance(e.key, ast.Name) and isinstance(gen.target, ast.Name) and e.key.id == gen.target.id
        if ident_key and seq is not None and seq.sort() == TList(t.k).sort():
            ax.append(t.keys(R) == dedup_fn(TList(t.k))(seq))                                   # insertion order = first occurrences
        st.pc += ax
        return self.new_root(st, t, R)

    def call_name(self, c, name, st, hint):
        if name == 'next' and len(c.args) == 1 and isinstance(c.args[0], ast.GeneratorExp) and len(c.args[0].generators) == 1:
            return self.next_genexp(c, st)
        return super().call_name(c, name, st, hint)

    def next_genexp(self, c, st):
        """next(<elt> for <target> in <iter> if <cond>): the element at the FIRST index satisfying the condition; StopIteration excluded by obligation"""
        a = c.args[0]; gen = a.generators[0]
        lo, hi, binder, roots, seq = self.iter_source(gen.iter, st)
        k = FreshConst(IntSort(), 'ni'); mark = len(FRESH_LOG)
        sub = st.clone(); sub.pc += [lo <= k, k < hi]; base = len(sub.pc)
        self.bind_target(gen.target, binder(sub, k), sub)
        conds = [self.cond(x, sub) for x in gen.ifs]; conds = [BoolVal(x) if isinstance(x, bool) else x for x in conds]
        cnd = And(*conds) if conds else BoolVal(True)
        elt = self.expr(a.elt, sub)
        if not isinstance(elt, PV): raise Unsupported('next() over non-scalar elements')
        facts = sub.pc[base:]; created = FRESH_LOG[mark:]
        cnd_k, elt_k, phi = self.skolemise([k], created, [cnd, elt.term, And(*facts) if facts else BoolVal(True)])
        pats = self.trig(seq, k) or [IdxTrig(k)]
        if facts: st.pc.append(ForAll([k], Implies(And(lo <= k, k < hi), phi), patterns=pats))
        e = FreshConst(IntSort(), 'ex')
        self.oblige(st, 'safety', 'next-not-exhausted[%s]' % ast.unparse(c)[:50], Exists([e], And(lo <= e, e < hi, substitute(cnd_k, (k, e)))))
        w = FreshConst(IntSort(), 'nw'); j = FreshConst(IntSort(), 'nj'); FRESH_LOG.pop()
        st.pc += [lo <= w, w < hi, substitute(phi, (k, w)), substitute(cnd_k, (k, w)),
                  ForAll([j], Implies(And(lo <= j, j < w), Not(substitute(cnd_k, (k, j)))), patterns=self.trig(seq, j) or [IdxTrig(j)])]
        return PV(elt.t, substitute(elt_k, (k, w)))

    def any_all(self, c, name, st):
        a = c.args[0]
        if isinstance(a, ast.GeneratorExp) and len(a.generators) == 1:
            gen = a.generators[0]
            lo, hi, binder, roots, seq = self.iter_source(gen.iter, st)
            k = FreshConst(IntSort(), 'qi'); mark = len(FRESH_LOG)
            sub = st.clone(); sub.pc += [lo <= k, k < hi]; base = len(sub.pc)
            self.bind_target(gen.target, binder(sub, k), sub)
            conds = [self.cond(x, sub) for x in gen.ifs]
            body = self.cond(a.elt, sub)
            body = BoolVal(body) if isinstance(body, bool) else body
            conds = [BoolVal(x) if isinstance(x, bool) else x for x in conds]
            facts = sub.pc[base:]; created = FRESH_LOG[mark:]
            body_k, cnd_k, phi = self.skolemise([k], created, [body, And(*conds) if conds else BoolVal(True), And(*facts) if facts else BoolVal(True)])
            rng = And(lo <= k, k < hi); pats = self.trig(seq, k) or [IdxTrig(k)]
            r = FreshConst(BoolSort(), name); W = FreshConst(IntSort(), name + 'w')
            if facts: st.pc.append(ForAll([k], Implies(rng, phi), patterns=pats))
            at = lambda f, w: substitute(f, (k, w))
            if name == 'all':
                st.pc.append(Implies(r, ForAll([k], Implies(And(rng, cnd_k), body_k), patterns=pats)))
                st.pc.append(Implies(Not(r), And(lo <= W, W < hi, at(phi, W), at(cnd_k, W), Not(at(body_k, W)))))
            else:
                st.pc.append(Implies(Not(r), ForAll([k], Implies(And(rng, cnd_k), Not(body_k)), patterns=pats)))
                st.pc.append(Implies(r, And(lo <= W, W < hi, at(phi, W), at(cnd_k, W), at(body_k, W))))
            return PV(BOOL, r)
        if not isinstance(a, ast.GeneratorExp):
            v = self.expr(a, st)
            if self.is_opq(v):                                   # any / all over a library value (a Series of booleans ...): an opaque truth value
                from .exprs import OpqTruth
                return PV(BOOL, OpqTruth(self.opq(st, 'fn_' + name, [v]).term))
            a_val = v
        return super().any_all(c, name, st)


IdxTrig = Function('IdxTrig', IntSort(), BoolSort())
