"""Contract / implementation cross-check ("the contract says what the code does"): concrete executions of the REAL GroupedList recorded by engine R are
translated to ground z3 terms and every ensures clause of the sidecar contract is proved for them.  A clause that cannot be proved for a real execution
means the contract (or the engine's reading of Python) misdescribes the code -- a checker defect (exit 3), never a property violation."""
import json, sys, time
from z3 import Const, K, Store, Distinct, Not, BoolVal, unsat, IntVal, And
from pyvc.types import *
from pyvc.engine import Obl
from pyvc.discharge import background, prove
import contracts.grouped_list as G
from contracts.grouped_list import GL, DVL, lv

_vals = {}
def val(x):
    key = ('n', float(x)) if isinstance(x, (int, float)) and not isinstance(x, bool) else ('s', str(x))
    if key not in _vals: _vals[key] = Const('tv_%d' % len(_vals), Val)
    return _vals[key]
def seq(xs): return lv.lit([val(x) for x in xs])
def dct(items, base=None):
    m = K(Val, lv.Emp) if base is None else base           # entries of absent keys are unobservable: the post map is built over the pre map
    for k, vs in items: m = Store(m, val(k), seq(vs))
    return DVL.mk(seq([k for k, _ in items]), m)
def gl(s, base=None): return GL.mk(seq(s['list']), dct(s['content'], None if base is None else DVL.map(GL.get(base, 'content'))))
def allvals_def(s):
    """AllVals is the concatenation of the groups in key order (its definition; the prelude only states its membership laws)"""
    d = dct(s['content']); return G.AllVals(d) == seq([v for _, vs in s['content'] for v in vs])

OPS = {'group': ('GroupedList.group', ['discarded', 'kept']), 'group_list': ('GroupedList.group_list', ['to_discard', 'to_keep']), 'append': ('GroupedList.append', ['new_value']),
       'update': ('GroupedList.update', ['new_value']), 'remove': ('GroupedList.remove', ['value']), 'pop': ('GroupedList.pop', ['idx']), 'sort': ('GroupedList.sort', []),
       'sort_by': ('GroupedList.sort_by', ['ordering']), 'replace_group_leader': ('GroupedList.replace_group_leader', ['group_leader', 'group_member']), 'copy': ('GroupedList.__init__@copy', ['iterable']),
       'get': ('GroupedList.get', ['key']), 'get_group': ('GroupedList.get_group', ['value']), 'contains': ('GroupedList.contains', ['value']), 'values': ('GroupedList.values', []),
       '__init__@list': ('GroupedList.__init__@list', ['iterable']), '__init__@dict': ('GroupedList.__init__@dict', ['iterable'])}


def check(traces, max_seconds=600):
    t0 = time.time(); stats = dict(traces=0, clauses=0, confirmed=0, outside_precondition=0, failed=[])
    for tr in traces:
        if time.time() - t0 > max_seconds: break
        if tr['op'] not in OPS: continue
        name, pnames = OPS[tr['op']]; spec = G.SPECS[name]; ptypes = dict(spec.params)
        old = {}; 
        def conv(p, a):
            t = ptypes[p]
            if isinstance(t, TVal): return val(a)
            if isinstance(t, TInt): return IntVal(int(a))
            if isinstance(t, TList): return seq(a)
            if isinstance(t, TDict): return dct(a)
            if isinstance(t, TObj): return gl(a)
        if tr['op'] == 'copy': old = {'iterable': gl(tr['pre'])}
        elif tr['op'].startswith('__init__'): old = {'iterable': conv('iterable', tr['args'][0])}
        else:
            old['self'] = gl(tr['pre'])
            for p, a in zip(pnames, tr['args']): old[p] = conv(p, a)
        for p, t in spec.params:
            if t is None: old[p] = None
        new = dict(old)
        if 'self' in ptypes: new['self'] = gl(tr['post'], base=old.get('self')) if tr['op'] not in ('copy',) else gl(tr['result'])
        if tr['op'] == 'copy': new['self'] = gl(tr['result'])
        res = None
        if spec.returns is not None:
            r = tr['result']
            res = gl(r) if isinstance(spec.returns, TObj) else seq(r) if isinstance(spec.returns, TList) else BoolVal(bool(r)) if isinstance(spec.returns, TBool) else val(r)
        ax = background() + ([Distinct(*_vals.values())] if len(_vals) > 1 else [])
        stats['traces'] += 1
        defs = [allvals_def(x) for x in (tr['pre'], tr['post']) if x is not None]
        pre = spec.requires(old)
        st, _, _, _ = prove(Obl('pre', defs if 'defs' in dir() else [], pre), ax, 5000, False)
        if st != 'discharged': stats['outside_precondition'] += 1; continue
        for label, clause in spec.ensures(old, new, res):
            stats['clauses'] += 1
            from z3 import is_eq
            goal = clause
            if is_eq(clause) and clause.arg(0).sort() == lv.S: goal = lv.Ext(clause.arg(0), clause.arg(1))          # sequence equality on ground terms: by extensionality
            st, be, dt, det = prove(Obl(label, [pre] + defs, goal), ax, 8000, True)
            if st == 'discharged': stats['confirmed'] += 1
            else: stats['failed'].append(dict(op=tr['op'], clause=label, args=tr['args'], pre=tr['pre'], post=tr['post'], result=tr['result'], status=st))
    stats['seconds'] = round(time.time() - t0, 1)
    return stats

if __name__ == '__main__':
    s = check(json.load(open(sys.argv[1])), int(sys.argv[2]) if len(sys.argv) > 2 else 600)
    print(json.dumps({k: (v if k != 'failed' else v[:5]) for k, v in s.items()}, indent=1))
