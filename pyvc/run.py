"""run engine P on the functions of one contract module:  python3-vt -m pyvc.run contracts.grouped_list [qual ...]"""
import sys, importlib, time, json, traceback
from pyvc.comps import PEngine as FullEngine
from pyvc.engine import Unsupported
from pyvc.discharge import discharge

def run_module(modname, quals=None, repo='/repo', verbose=True):
    mod = importlib.import_module(modname); res = {}
    for q, spec in mod.SPECS.items():
        if quals and q not in quals: continue
        if spec.pure and spec.note.startswith('ASSUMED'): continue
        eng = FullEngine(repo, mod.SPECS)
        t0 = time.time()
        try:
            obls = eng.verify(q)
        except Unsupported as u:
            res[q] = dict(status='UNSUPPORTED', detail=str(u), obligations=[]); 
            if verbose: print(q, 'UNSUPPORTED', u)
            continue
        out = discharge(obls)
        bad = [o for o in out if o['status'] not in ('discharged', 'canary-ok')]
        res[q] = dict(status='ok' if not bad else 'open', obligations=out, time=time.time() - t0)
        if verbose:
            print('%-40s %3d/%3d in %.2fs' % (q, len(out) - len(bad), len(out), time.time() - t0))
            for b in bad: print('     ', b['status'], b['name'], b['detail'])
    return res

if __name__ == '__main__':
    run_module(sys.argv[1], sys.argv[2:] or None)
