"""Back ends of engine P: z3 (E-matching, then MBQI retry), optional cvc5 on the exported SMT-LIB."""
import time, subprocess, tempfile, os
from z3 import Solver, Not, unsat, sat, unknown, Distinct, BoolVal
from .theory import all_theories
from .engine import STR_CONSTS

EXTRA_AXIOMS = []          # spec-function definitions added by contract modules
TIMEOUT_MS = 20000


def background():
    ax = []
    for th in all_theories(): ax += th.axioms()
    ax += EXTRA_AXIOMS
    if len(STR_CONSTS) > 1: ax.append(Distinct(*STR_CONSTS.values()))
    return ax


def check_one(obl, ax, timeout=TIMEOUT_MS, mbqi=False, seed=0, eager=None):
    s = Solver(); s.set('timeout', timeout); s.set(auto_config=False, mbqi=mbqi); s.set('smt.random_seed', seed)
    if eager is not None: s.set('smt.qi.eager_threshold', eager)
    s.add(*ax); s.add(*obl.pc); s.add(Not(obl.goal))
    t0 = time.time(); r = s.check(); dt = time.time() - t0
    reason = s.reason_unknown() if r == unknown else ''
    return r, reason, dt, s


def try_cvc5(solver, timeout_s=8):
    try:
        smt = '(set-logic ALL)\n' + solver.to_smt2()
        with tempfile.NamedTemporaryFile('w', suffix='.smt2', delete=False) as f:
            f.write(smt); path = f.name
        out = subprocess.run(['/usr/bin/cvc5', '--full-saturate-quant', '--tlimit=%d' % (timeout_s * 1000), path], capture_output=True, text=True, timeout=timeout_s + 5)
        os.unlink(path)
        return out.stdout.strip().split('\n')[0]
    except Exception as e:      # noqa
        return 'error: %s' % e


def conjuncts(g):
    from z3 import is_and, is_implies, Implies
    if is_implies(g) and is_and(g.arg(1)):
        return [Implies(g.arg(0), c) for c in conjuncts(g.arg(1))]
    if is_and(g):
        out = []
        for c in g.children(): out += conjuncts(c)
        return out
    return [g]


def prove(o, ax, timeout, use_cvc5):
    """prove one goal (a single conjunct) -> (status, backend, time, detail)"""
    r, reason, dt, s = check_one(o, ax, timeout); backend = 'z3'
    if r != unsat and 'timeout' not in reason:
        # E-matching is heuristic: diversify before giving up (other seeds, a more eager instantiation threshold)
        for seed, eager in ((1, None), (2, 50.0), (3, 200.0)):
            r1, reason1, dt1, s1 = check_one(o, ax, min(timeout, 8000), seed=seed, eager=eager); dt += dt1
            if r1 == unsat: r, backend = r1, 'z3(retry)'; break
    if r != unsat:
        r2, reason2, dt2, s2 = check_one(o, ax, min(timeout, 4000), mbqi=True); dt += dt2
        if r2 == unsat: r, backend = r2, 'z3-mbqi'
        elif use_cvc5:
            c = try_cvc5(s)
            if c == 'unsat': r, backend = unsat, 'cvc5'
    if r == unsat: return 'discharged', backend, dt, ''
    if 'timeout' in reason or 'canceled' in reason: return 'undecided', backend, dt, reason
    return 'not-discharged', backend, dt, reason


def discharge(obls, use_cvc5=True, timeout=TIMEOUT_MS):
    """-> list of dict(name, status, backend, time, detail);  status: discharged | not-discharged | undecided | canary-ok | canary-VACUOUS.
    A conjunctive goal is proved conjunct by conjunct (earlier conjuncts become assumptions)."""
    from .engine import Obl
    ax = background(); out = []
    for o in obls:
        if o.kind == 'canary':
            r, reason, dt, s = check_one(o, ax, min(timeout, 5000))
            # a canary is `False`: it must NOT be provable (else the premises are contradictory)
            st = 'canary-VACUOUS' if r == unsat else 'canary-ok'
            out.append(dict(name=o.name, status=st, backend='z3', time=dt, detail=str(r))); continue
        cs = conjuncts(o.goal); pc = list(o.pc); status, backends, total, detail = 'discharged', set(), 0.0, ''
        for i, c in enumerate(cs):
            st, be, dt, det = prove(Obl(o.name, pc, c), ax, timeout, use_cvc5); total += dt; backends.add(be)
            if st != 'discharged':
                status = st; detail = 'conjunct %d/%d: %s | %s' % (i + 1, len(cs), str(c).replace('\n', ' ')[:300], det); break
            pc.append(c)
        out.append(dict(name=o.name, status=status, backend='+'.join(sorted(backends)), time=total, detail=detail))
    return out
