"""ENGINE P: verification-condition generator over the real source (AST re-read from /repo on every run).

A function is executed symbolically once; `if` branches are merged at the join point; loops are cut at their
head with the invariant given in the sidecar contract; calls to contracted functions use the callee's contract
(never its body).  Each proof obligation is (name, assumptions, goal) and is discharged by z3 in E-matching mode
(see discharge.py).  The engine proves, it never refutes: an obligation that is not discharged is only "not proved".
"""
import ast, itertools
_EVENT = itertools.count(1)
from z3 import (And, Or, Not, Implies, If, BoolVal, IntVal, RealVal, Const, ForAll, Exists, Select, Store, Int,
                IntSort, is_true, is_false, simplify, K, ToReal, is_int, is_real, Function, BoolSort, MultiPattern)
from .types import *
from .theory import seq_theory


class PPool:
    """a multiprocessing.Pool bound by `with Pool(...) as pool` (contract option pool_model)"""
    t = None


class Unsupported(Exception):
    pass


import z3 as _z3
FRESH_LOG = []


def FreshConst(sort, prefix='c'):
    """fresh constant, logged so that constants created inside a comprehension body can be Skolemised over its index"""
    c = _z3.FreshConst(sort, prefix); FRESH_LOG.append(c); return c


# ----------------------------------------------------------------------------------------------- python values
class PV:
    """immutable value of type t with z3 term; none (z3 Bool or python False): the value may be None when `none` holds"""
    def __init__(s, t, term, none=False): s.t, s.term, s.none = t, term, none


_event = itertools.count(1) if 'itertools' in globals() else None


class PRef:
    """reference to (part of) a mutable object: root id in the store + access path (field names, ('key', term)).
    A reference with a non-empty path denotes the object CURRENTLY stored in that slot; `born` orders it against later re-bindings of the slot
    (after `x = d[k]; d[k] = other` the name x still denotes the old object: such a stale view is not modelled and makes the function UNSUPPORTED)"""
    def __init__(s, t, root, path=(), none=False, born=None):
        s.t, s.root, s.path, s.none = t, root, tuple(path), none
        s.born = born if born is not None else next(_EVENT)


class PTup:
    def __init__(s, items): s.items = list(items)


class PNone:
    t = None


class PMaybe:
    """name bound only when `cond` holds (bound on some branches)"""
    def __init__(s, cond, val): s.cond, s.val = cond, val


class State:
    def __init__(s):
        s.env = {}; s.store = {}; s.types = {}; s.frozen = {}; s.pc = []; s.yields = None; s.yield_count = 0; s.rebinds = []
    def clone(s):
        n = State(); n.env = dict(s.env); n.store = dict(s.store); n.types = s.types; n.frozen = dict(s.frozen)
        n.pc = list(s.pc); n.yields = s.yields; n.yield_count = s.yield_count; n.rebinds = list(s.rebinds)
        return n


class Obl:
    def __init__(s, name, pc, goal, kind='goal'):
        s.name, s.pc, s.goal, s.kind = name, list(pc), goal, kind


class Outcome:
    def __init__(s, st, kind, val=None, exc=None):
        s.st, s.kind, s.val, s.exc = st, kind, val, exc     # kind: fall | return | raise | break | continue


class ZipSeqs(list):
    """the sequences iterated in lock-step by zip(...): used only to build instantiation patterns (At(s, k) for each of them)"""
    def sort(self): return None


class FunctionSpec:
    def __init__(self, qual, file, params, returns=None, requires=None, ensures=None, modifies=(), raises=None, loops=None,
                 locals=None, decreases=None, generator=False, defaults=None, cls=None, ghost=None, pure=False, note='', name=None, constructs=None, globals_=None, isinstance_preds=None, opaque_functions=(), numpy_division=False, returns_optional=False, var_keyword=False, lemmas=None, region=None, may_raise=(), deterministic=False, pool_model=False):
        self.deterministic = deterministic; self.pool_model = pool_model
        self.may_raise = set(may_raise); self.region = region; self.lemmas = lemmas or {}; self.returns_optional = returns_optional; self.var_keyword = var_keyword; self.name = name or qual; self.constructs = constructs; self.globals_ = globals_ or {}; self.isinstance_preds = isinstance_preds or {}; self.opaque_functions = set(opaque_functions); self.numpy_division = numpy_division
        self.qual, self.file, self.params, self.returns = qual, file, params, returns
        self.requires = requires or (lambda o: BoolVal(True)); self.ensures = ensures or (lambda o, n, r: [])
        self.modifies = list(modifies); self.raises = raises or {}; self.loops = loops or {}; self.locals = locals or {}
        self.decreases = decreases; self.generator = generator; self.defaults = defaults or {}; self.cls = cls
        self.ghost = ghost or {}; self.pure = pure; self.note = note


class LoopSpec:
    def __init__(self, inv, modifies=None, decreases=None, body_lemmas=None):
        self.inv, self.modifies, self.decreases, self.body_lemmas = inv, modifies, decreases, body_lemmas


_oid = itertools.count(1)
STR_CONSTS = {}


def str_const(s):
    """a Python string / number constant used as a Val atom; all such constants are pairwise distinct (asserted in discharge)"""
    if s not in STR_CONSTS:
        STR_CONSTS[s] = Const('lit_' + ''.join(ch if ch.isalnum() else '_' for ch in repr(s)) + '_%d' % len(STR_CONSTS), Val)
    return STR_CONSTS[s]


Truthy = Function('Truthy', Val, BoolSort())      # bool(v) for an atom: unknown in general (0, 0.0, "" are falsy)


class Engine:
    def __init__(self, repo, specs):
        self.repo = repo; self.specs = specs; self.obls = []; self._trees = {}; self.notes = []

    # ---------------------------------------------------------------------------------------- source access
    def func_ast(self, spec):
        path = self.repo.rstrip('/') + '/' + spec.file
        if path not in self._trees:
            self._trees[path] = ast.parse(open(path).read())
        tree = self._trees[path]; parts = spec.qual.split('.')
        body = tree.body
        node = None
        for p in parts:
            node = next((n for n in body if isinstance(n, (ast.FunctionDef, ast.ClassDef)) and n.name == p), None)
            if node is None:
                raise Unsupported('function %s not found in %s' % (spec.qual, spec.file))
            body = node.body
        return node

    # ---------------------------------------------------------------------------------------- store helpers
    def new_root(self, st, t, term, frozen=False, name='o'):
        oid = next(_oid); c = FreshConst(t.sort(), name); st.pc.append(c == term); st.store[oid] = c
        st.types = dict(st.types); st.types[oid] = t
        if frozen: st.frozen[oid] = 'escaped'
        return PRef(t, oid)

    def note_rebind(self, st, root, path, value=None):
        """the slot (root, path) is re-bound to another object (d[k] = v, d.update({k: v}), d.pop(k), obj.attr = v)"""
        if isinstance(value, PRef) and value.root == root and len(value.path) == len(path) and all(self.same_step(a, b) is True for a, b in zip(value.path, path)):
            return                                   # storing the slot's own object back (order = d[k]; ...; d.update({k: order})): no re-binding
        st.rebinds.append((next(_EVENT), root, tuple(path)))

    @staticmethod
    def same_step(a, b):
        if isinstance(a, str) or isinstance(b, str): return a == b
        return True if a[1].eq(b[1]) else None       # different key terms may still be equal values

    def check_fresh(self, st, ref):
        if not ref.path: return
        for (eid, root, path) in st.rebinds:
            if eid > ref.born and root == ref.root and len(path) <= len(ref.path) and all(self.same_step(a, b) is not False for a, b in zip(path, ref.path)):
                raise Unsupported('aliasing: a reference obtained from a container slot is used after that slot was re-bound (stale view)')

    def read_path(self, st, root, path):
        term, t = st.store[root], st.types[root]
        for step in path:
            if isinstance(step, str):
                term, t = t.get(term, step), t.ftype(step)
            else:
                term, t = t.get(term, step[1]), t.v
        return term, t

    def write_path(self, st, root, path, newterm):
        def upd(term, t, path):
            if not path: return newterm
            step = path[0]
            if isinstance(step, str):
                return t.set(term, step, upd(t.get(term, step), t.ftype(step), path[1:]))
            k = step[1]
            return t.mk(t.keys(term), Store(t.map(term), k, upd(t.get(term, k), t.v, path[1:])))
        if root in st.frozen:
            raise Unsupported('aliasing: in-place mutation of an object that escaped into a container (%s)' % st.frozen[root])
        t = st.types[root]
        c = FreshConst(t.sort(), 'w'); st.pc.append(c == upd(st.store[root], t, list(path))); st.store[root] = c

    def term(self, st, v):
        if isinstance(v, PV): return v.term
        if isinstance(v, PRef):
            self.check_fresh(st, v); return self.read_path(st, v.root, v.path)[0]
        if isinstance(v, PTup): return TTuple([self.type_of(x) for x in v.items]).mk(*[self.term(st, x) for x in v.items])
        raise Unsupported('no term for %r' % (v,))

    def type_of(self, v):
        if isinstance(v, (PV, PRef)): return v.t
        if isinstance(v, PTup): return TTuple([self.type_of(x) for x in v.items])
        raise Unsupported('no type for %r' % (v,))

    def from_term(self, st, t, term, frozen=True, none=False):
        if isinstance(t, (TList, TDict, TObj)):
            r = self.new_root(st, t, term, frozen=frozen); r.none = none; return r
        if isinstance(t, TTuple):
            return PTup([self.from_term(st, ti, t.proj(i, term), frozen) for i, ti in enumerate(t.items)])
        return PV(t, term, none)

    def escape(self, st, v, where='container'):
        """v's value is stored somewhere else: later in-place mutation of v would alias -> freeze roots"""
        if isinstance(v, PRef) and not v.path:
            st.frozen[v.root] = where
        if isinstance(v, PTup):
            for x in v.items: self.escape(st, x, where)

    def as_list(self, v):
        """a list-subclass object used as a list"""
        if isinstance(v, PRef) and isinstance(v.t, TObj) and v.t.as_list:
            return PRef(v.t.ftype(v.t.as_list), v.root, v.path + (v.t.as_list,), v.none, born=v.born)
        return v

    # ---------------------------------------------------------------------------------------- obligations
    def oblige(self, st, kind, label, goal):
        """assert then assume"""
        base = '%s#%s.%s' % (self.fname, kind, label); n = self._names.get(base, 0); self._names[base] = n + 1
        name = base if n == 0 else '%s~%d' % (base, n)
        self.obls.append(Obl(name, st.pc, goal)); st.pc.append(goal)

    def ghost_lemmas(self, tgt, st):
        """sidecar ghost assertions: FunctionSpec.lemmas[name](old, view) -> [(label, formula)] is PROVED (assert) right after each assignment to the
        local `name` and then assumed -- intermediate facts (e.g. 'this comprehension result is the spec list RawList(...)') that guide the prover"""
        if isinstance(tgt, ast.Name) and tgt.id in self.spec.lemmas:
            for label, g in self.spec.lemmas[tgt.id](self.old, self.view(st)):
                self.oblige(st, 'lemma', '%s.%s' % (tgt.id, label), g)

    def need_not_none(self, st, v, what):
        none = getattr(v, 'none', False)
        if none is not False:
            self.oblige(st, 'safety', 'not-None[%s]' % what, Not(none))

    # ---------------------------------------------------------------------------------------- verify a function
    def verify(self, qual):
        spec = self.specs[qual]; fn = self.func_ast(spec)
        self.spec, self.fname, self._names = spec, spec.name, {}
        self.pending_raises = []
        self.loop_ids = {id(n): k for k, n in enumerate(x for x in ast.walk(fn) if isinstance(x, (ast.For, ast.While)))}
        self.fn = fn
        st = State(); old = {}; self.param_roots = {}
        for (pname, t) in spec.params:
            if t is None:
                st.env[pname] = PNone(); old[pname] = None; continue
            v = self.from_term(st, t, Const('p_' + pname, t.sort()), frozen=False); st.env[pname] = v; old[pname] = self.term(st, v)
            if isinstance(v, PRef): self.param_roots[pname] = v.root
        for gname, (gt, gterm) in spec.globals_.items(): st.env[gname] = PV(gt, gterm)          # module-level constants the body reads (e.g. numpy.inf)
        self.old = old
        for gname, mk in spec.ghost.items(): old[gname] = mk(old)
        st.pc.append(spec.requires(old))
        self.obls.append(Obl(qual + '#canary.entry', st.pc, BoolVal(False), kind='canary'))
        if '$entry' in spec.lemmas:
            # ghost lemmas about the spec functions, PROVED once from the precondition and then available to every later obligation
            for label, g in spec.lemmas['$entry'](old): self.oblige(st, 'lemma', 'entry.' + label, g)
        if spec.generator:
            st.yields = self.new_root(st, spec.returns, spec.returns.th().Emp, name='ys')
        body = fn.body
        if spec.region is not None:
            # REGION contract: only the k-th loop statement of the function (same ordinal as the loop invariants) is verified, from an ASSUMED entry state: the
            # `params` are the names the region reads (locals of the function and `self`), `requires` is what is assumed about them where the region starts
            loops = [x for x in ast.walk(fn) if isinstance(x, (ast.For, ast.While))]
            if spec.region >= len(loops): raise Unsupported('region: the function has no loop %d' % spec.region)
            body = [loops[spec.region]]
        outs = self.block(body, st)
        n_normal = 0
        for o in outs:
            if o.kind in ('fall', 'return'):
                n_normal += 1
                s2 = o.st
                if spec.generator: ret = self.term(s2, s2.yields)
                elif o.kind == 'return' and o.val is not None and not isinstance(o.val, PNone): ret = self.term(s2, o.val)
                else: ret = None
                ret_none = BoolVal(True) if ret is None else (BoolVal(False) if getattr(o.val, 'none', False) is False else o.val.none)
                if ret is None and getattr(spec, 'returns_optional', False): ret = FreshConst(spec.returns.sort(), 'no_result')
                new = {p: s2.store[r] for p, r in self.param_roots.items()}
                for p, r in self.param_roots.items():
                    if p not in spec.modifies:
                        self.obls.append(Obl('%s#frame.%s' % (qual, p), s2.pc, new[p] == old[p]))
                if spec.returns is not None and ret is None and not spec.generator:
                    raise Unsupported('path returns None but contract declares a result')
                import inspect
                loc = self.view(s2); loc['$result_none'] = ret_none
                if ret is not None and not is_false(simplify(ret_none)) and not getattr(spec, 'returns_optional', False):
                    self.oblige(s2, 'post', 'result_is_not_None', Not(ret_none))
                ens = spec.ensures(old, new, ret, loc) if len(inspect.signature(spec.ensures).parameters) >= 4 else spec.ensures(old, new, ret)
                for label, g in ens:
                    self.oblige(s2, 'post', label, g)
                for exc, cond in spec.raises.items():
                    if exc in spec.may_raise: continue          # (may_raise: the contract only says the exception is allowed, not when it must happen)
                    self.oblige(s2, 'raises', exc + '.must', Not(cond(old)))
            elif o.kind == 'raise':
                if o.exc in spec.raises:
                    self.oblige(o.st, 'raises', o.exc + '.only-if', spec.raises[o.exc](old))
                else:
                    self.oblige(o.st, 'raises', o.exc + '.unreachable', BoolVal(False))
            else:
                raise Unsupported('break/continue outside loop')
        if n_normal == 0 and not spec.raises:
            raise Unsupported('no normal exit path')
        return self.obls

    # ---------------------------------------------------------------------------------------- merging
    def merge(self, base_len, cond, s1, s2):
        """join two fall-through states that forked at pc length base_len under cond / not cond"""
        m = State(); m.types = {**s1.types, **s2.types}; m.yields = s1.yields
        d1, d2 = s1.pc[base_len:], s2.pc[base_len:]
        m.pc = s1.pc[:base_len]
        if d1: m.pc.append(Implies(cond, And(*d1)))
        if d2: m.pc.append(Implies(Not(cond), And(*d2)))
        m.frozen = {**s1.frozen, **s2.frozen}
        m.rebinds = list(s1.rebinds) + [e for e in s2.rebinds if e not in s1.rebinds]
        for oid in set(s1.store) | set(s2.store):
            a, b = s1.store.get(oid), s2.store.get(oid)
            if a is None or b is None:
                m.store[oid] = a if a is not None else b       # object created in one branch only (reachable only there)
            elif a.eq(b): m.store[oid] = a
            else:
                c = FreshConst(a.sort(), 'j'); m.pc += [Implies(cond, c == a), Implies(Not(cond), c == b)]; m.store[oid] = c
        self._merge_s1, self._merge_s2 = s1, s2
        for name in set(s1.env) | set(s2.env):
            a, b = s1.env.get(name), s2.env.get(name)
            m.env[name] = self.merge_val(m, cond, a, b, name)
        return m

    def merge_val(self, m, cond, a, b, name):
        if a is b: return a
        if a is None or b is None:
            v = a if a is not None else b; c = cond if a is not None else Not(cond)
            if isinstance(v, PMaybe): return PMaybe(And(c, v.cond), v.val)
            return PMaybe(c, v)
        if isinstance(a, PMaybe) or isinstance(b, PMaybe):
            ca, va = (a.cond, a.val) if isinstance(a, PMaybe) else (BoolVal(True), a)
            cb, vb = (b.cond, b.val) if isinstance(b, PMaybe) else (BoolVal(True), b)
            return PMaybe(If(cond, ca, cb), self.merge_val(m, cond, va, vb, name))
        if isinstance(a, PNone) and isinstance(b, PNone): return a
        if isinstance(a, PNone) or isinstance(b, PNone):
            v = b if isinstance(a, PNone) else a; nc = cond if isinstance(a, PNone) else Not(cond)
            none = nc if v.none is False else Or(nc, v.none)
            if isinstance(v, PV): return PV(v.t, v.term, none)
            if isinstance(v, PRef): return PRef(v.t, v.root, v.path, none, born=v.born)
            raise Unsupported('merge None with tuple (%s)' % name)
        if isinstance(a, PTup) and isinstance(b, PTup) and len(a.items) == len(b.items):
            return PTup([self.merge_val(m, cond, x, y, name) for x, y in zip(a.items, b.items)])
        if isinstance(a, PV) and isinstance(b, PV) and a.t != b.t and isinstance(a.t, (TInt, TReal)) and isinstance(b.t, (TInt, TReal)):
            a = PV(REAL, ToReal(a.term), a.none) if isinstance(a.t, TInt) else a; b = PV(REAL, ToReal(b.term), b.none) if isinstance(b.t, TInt) else b     # 0 on one branch, a float on the other
        if isinstance(a, PV) and isinstance(b, PV) and a.t == b.t:
            none = False if (a.none is False and b.none is False) else If(cond, a.none if a.none is not False else BoolVal(False), b.none if b.none is not False else BoolVal(False))
            if a.term.eq(b.term): return PV(a.t, a.term, none)
            c = FreshConst(a.t.sort(), 'j_' + name); m.pc += [Implies(cond, c == a.term), Implies(Not(cond), c == b.term)]
            return PV(a.t, c, none)
        if isinstance(a, PRef) and isinstance(b, PRef) and a.t == b.t:
            if a.root == b.root and a.path == b.path and a.none is b.none: return a
            # different objects on the two branches: join by value into a fresh object.  If each side is a whole object that only this name refers to
            # (allocated and not shared), the joined object is again exclusively owned and may be mutated later; otherwise it is frozen.
            def exclusive(st_, r):
                if r.path or r.root in st_.frozen or r.root in self.param_roots.values(): return False
                n = 0
                for v in st_.env.values():
                    v = v.val if isinstance(v, PMaybe) else v
                    n += sum(1 for rr in self.roots_in(v) if rr == r.root)
                return n == 1
            own = exclusive(self._merge_s1, a) and exclusive(self._merge_s2, b)
            ta, tb = self.read_path_in(m, a), self.read_path_in(m, b)
            c = FreshConst(a.t.sort(), 'j_' + name); m.pc += [Implies(cond, c == ta), Implies(Not(cond), c == tb)]
            oid = next(_oid); m.store[oid] = c; m.types = dict(m.types); m.types[oid] = a.t
            if not own: m.frozen[oid] = 'joined reference ' + name
            none = False if (a.none is False and b.none is False) else If(cond, a.none if a.none is not False else BoolVal(False), b.none if b.none is not False else BoolVal(False))
            return PRef(a.t, oid, (), none)
        raise Unsupported('cannot merge values of %s at join' % name)

    def read_path_in(self, m, r):
        return self.read_path(m, r.root, r.path)[0]

    # ---------------------------------------------------------------------------------------- statements
    def block(self, stmts, st):
        """returns list of Outcome; at most one 'fall' outcome (merged)"""
        outs = []; cur = st
        for s in stmts:
            if cur is None: break
            res = self.stmt(s, cur)
            res = res + [Outcome(b, 'raise', exc=x) for b, x in self.pending_raises]; self.pending_raises = []
            falls = [o for o in res if o.kind == 'fall']; outs += [o for o in res if o.kind != 'fall']
            assert len(falls) <= 1
            cur = falls[0].st if falls else None
        if cur is not None: outs.append(Outcome(cur, 'fall'))
        return outs

    def stmt(self, s, st):
        F = lambda: [Outcome(st, 'fall')]
        if isinstance(s, ast.Pass): return F()
        if isinstance(s, ast.Expr):
            if isinstance(s.value, ast.Constant): return F()
            if isinstance(s.value, ast.Yield):
                v = self.expr(s.value.value, st); y = st.yields; th = y.t.th()
                self.write_path(st, y.root, (), th.App(st.store[y.root], th.One(self.term(st, v)))); self.escape(st, v, 'yield'); st.yield_count += 1
                return F()
            if isinstance(s.value, ast.Call):
                f = s.value.func
                if isinstance(f, ast.Name) and f.id in ('print', 'warn'): return F()
                self.expr(s.value, st); return F()
        if isinstance(s, ast.Assign) and len(s.targets) == 1:
            self.assign(s.targets[0], s.value, st); self.ghost_lemmas(s.targets[0], st); return F()
        if isinstance(s, ast.AnnAssign) and s.value is not None:
            self.assign(s.target, s.value, st); self.ghost_lemmas(s.target, st); return F()
        if isinstance(s, ast.AugAssign): self.augassign(s, st); self.ghost_lemmas(s.target, st); return F()
        if isinstance(s, ast.Return):
            v = self.expr(s.value, st, hint=self.spec.returns if not self.spec.generator else None) if s.value is not None else PNone()
            self.escape(st, v, 'return value') if False else None
            return [Outcome(st, 'return', v)]
        if isinstance(s, ast.Break): return [Outcome(st, 'break')]
        if isinstance(s, ast.Continue): return [Outcome(st, 'continue')]
        if isinstance(s, ast.Assert):
            c = self.cond(s.test, st)
            if c is True: return F()
            bad = st.clone(); bad.pc.append(Not(c) if c is not False else BoolVal(True)); st.pc.append(c if c is not False else BoolVal(False))
            return [Outcome(bad, 'raise', exc='AssertionError'), Outcome(st, 'fall')]
        if isinstance(s, ast.With) and self.spec.pool_model and len(s.items) == 1 and isinstance(s.items[0].context_expr, ast.Call) and isinstance(s.items[0].context_expr.func, ast.Name) \
                and s.items[0].context_expr.func.id == 'Pool' and isinstance(s.items[0].optional_vars, ast.Name):
            # `with Pool(...) as pool:`  (contract option pool_model): the pool is an opaque library value; what it does is the ASSUMED contract of apply_async / get (exprs.call_method)
            st.env[s.items[0].optional_vars.id] = PPool(); return self.block(s.body, st)
        if isinstance(s, ast.If): return self.if_stmt(s, st)
        if isinstance(s, ast.For): return self.for_loop(s, st)
        if isinstance(s, ast.While): return self.while_loop(s, st)
        raise Unsupported('statement ' + ast.dump(s)[:80])

    def if_stmt(self, s, st):
        c = self.cond(s.test, st)
        if c is True: return self.block(s.body, st)
        if c is False: return self.block(s.orelse, st) if s.orelse else [Outcome(st, 'fall')]
        base = len(st.pc)
        s1 = st.clone(); s1.pc.append(c); s2 = st.clone(); s2.pc.append(Not(c))
        o1 = self.block(s.body, s1); o2 = self.block(s.orelse, s2) if s.orelse else [Outcome(s2, 'fall')]
        f1 = [o for o in o1 if o.kind == 'fall']; f2 = [o for o in o2 if o.kind == 'fall']
        outs = [o for o in o1 + o2 if o.kind != 'fall']
        if f1 and f2: outs.append(Outcome(self.merge(base, c, f1[0].st, f2[0].st), 'fall'))
        elif f1 or f2: outs.append((f1 or f2)[0])
        return outs

    def declared_local(self, name):
        return self.spec.locals.get(name)

    def assign(self, tgt, value, st):
        if isinstance(tgt, ast.Name):
            hint = self.declared_local(tgt.id)
            if hint is None and tgt.id in st.env and isinstance(st.env[tgt.id], (PV, PRef)): hint = st.env[tgt.id].t
            v = self.expr(value, st, hint=hint)
            st.env[tgt.id] = v; return
        if isinstance(tgt, ast.Tuple):
            self.unpack(tgt, self.expr(value, st), st); return
        if isinstance(tgt, ast.Attribute):
            obj = self.expr(tgt.value, st)
            if isinstance(obj, PRef) and isinstance(obj.t, TObj) and obj.t.has_field(tgt.attr):
                ft = obj.t.ftype(tgt.attr); v = self.expr(value, st, hint=ft)
                newval = self.coerce(st, v, ft)
                if isinstance(ft, (TList, TDict, TObj)): self.note_rebind(st, obj.root, obj.path + (tgt.attr,), v)
                self.write_path(st, obj.root, obj.path + (tgt.attr,), newval); self.escape_into(st, v, obj, tgt.attr); return
            raise Unsupported('attribute assignment ' + ast.unparse(tgt))
        if isinstance(tgt, ast.Subscript) and isinstance(tgt.value, ast.Name) and getattr(self, 'is_opq', None) and tgt.value.id in st.env and self.is_opq(st.env[tgt.value.id]):
            # column[mask] = v on a library value held in a local: functional update of that NAME (lib_setitem(old, key, v)).  ASSUMED: no other name of this
            # function denotes the same library object (aliases are not updated); what the caller sees of the mutation is not modelled.
            from .exprs import OPQ
            old = st.env[tgt.value.id]; k = self.expr(tgt.slice, st); v = self.expr(value, st)
            st.env[tgt.value.id] = self.opq(st, 'setitem', [old] + [a if self.is_opq(a) else PV(OPQ, self.coerce(st, a, OPQ)) for a in (k, v)]); return
        if isinstance(tgt, ast.Subscript):
            base = self.as_list(self.expr(tgt.value, st)) if not isinstance(self.expr_type_peek(tgt.value, st), TDict) else self.expr(tgt.value, st)
            if isinstance(base, PRef) and isinstance(base.t, TList):
                i = self.expr(tgt.slice, st); v = self.expr(value, st, hint=base.t.elem); th = base.t.th(); cur = self.term(st, base)
                idx = self.norm_index(st, i.term, th.Len(cur), ast.unparse(tgt))
                self.write_path(st, base.root, base.path, th.Upd(cur, idx, self.coerce(st, v, base.t.elem))); self.escape(st, v); return
            if isinstance(base, PRef) and isinstance(base.t, TDict):
                k = self.expr(tgt.slice, st); v = self.expr(value, st, hint=base.t.v)
                self.dict_set(st, base, self.coerce(st, k, base.t.k), self.coerce(st, v, base.t.v), value=v); self.escape(st, v); return
        raise Unsupported('assignment target ' + ast.unparse(tgt))

    def unpack(self, tgt, v, st):
        """a, (b, c) = value   (tuples structurally; a list unpacked into n names needs len == n)"""
        if isinstance(tgt, ast.Name): st.env[tgt.id] = v; return
        if not isinstance(tgt, ast.Tuple): raise Unsupported('unpacking target ' + ast.unparse(tgt))
        if isinstance(v, PTup):
            if len(v.items) != len(tgt.elts): raise Unsupported('tuple assignment arity')
            for e, x in zip(tgt.elts, v.items): self.unpack(e, x, st)
            return
        vl = self.as_list(v)
        if isinstance(vl, PRef) and isinstance(vl.t, TList):
            th = vl.t.th(); cur = self.term(st, vl)
            self.oblige(st, 'safety', 'unpack-length[%s]' % ast.unparse(tgt), th.Len(cur) == len(tgt.elts))
            for i, e in enumerate(tgt.elts): self.unpack(e, self.from_term(st, vl.t.elem, th.At(cur, i)), st)
            return
        raise Unsupported('unpacking of ' + ast.unparse(tgt))

    def expr_type_peek(self, e, st):
        if isinstance(e, ast.Name) and e.id in st.env and isinstance(st.env[e.id], (PV, PRef)): return st.env[e.id].t
        return None

    def escape_into(self, st, v, obj, attr):
        self.escape(st, v, 'attribute ' + attr)

    def augassign(self, s, st):
        if isinstance(s.target, ast.Name):
            cur = st.env[s.target.id]
            if isinstance(cur, PMaybe): raise Unsupported('augassign on maybe-unbound')
            cur_l = self.as_list(cur)
            if isinstance(cur_l, PRef) and isinstance(cur_l.t, TList) and isinstance(s.op, ast.Add):
                v = self.as_list(self.expr(s.value, st, hint=cur_l.t)); th = cur_l.t.th()
                self.need_not_none(st, cur, s.target.id)
                self.write_path(st, cur_l.root, cur_l.path, th.App(self.term(st, cur_l), self.term(st, v))); return
            if isinstance(cur, PV):
                v = self.expr(s.value, st); st.env[s.target.id] = self.binop(st, s.op, cur, v); return
        if isinstance(s.target, ast.Attribute) or isinstance(s.target, ast.Subscript):
            cur = self.expr(s.target, st)
            if isinstance(cur, PRef) and isinstance(cur.t, TList) and isinstance(s.op, ast.Add):
                v = self.expr(s.value, st, hint=cur.t); th = cur.t.th()
                self.write_path(st, cur.root, cur.path, th.App(self.term(st, cur), self.term(st, v))); return
        raise Unsupported('augmented assignment ' + ast.unparse(s))

    def coerce(self, st, v, t):
        """value term of v at static type t (Int -> Real / Val embeddings)"""
        if isinstance(v, PNone): raise Unsupported('None stored where %r expected' % (t,))
        vt = self.type_of(v); term = self.term(st, v)
        if vt == t: return term
        if isinstance(vt, TInt) and isinstance(t, TReal): return ToReal(term)
        if isinstance(vt, TInt) and isinstance(t, TVal): return IntAsVal(term)
        raise Unsupported('type mismatch: %r where %r expected' % (vt, t))

    def dict_set(self, st, d, k, v, value=None):
        if getattr(d, 'shallow_copy', False): raise Unsupported('aliasing: key set of a shallow dict copy is changed')
        if isinstance(d.t.v, (TList, TDict, TObj)): self.note_rebind(st, d.root, d.path + (('key', k),), value)
        cur = self.term(st, d); t = d.t; th = t.kth()
        nk = FreshConst(th.S, 'ks'); st.pc.append(nk == If(th.Has(t.keys(cur), k), t.keys(cur), th.App(t.keys(cur), th.One(k))))
        self.write_path(st, d.root, d.path, t.mk(nk, Store(t.map(cur), k, v)))

    def norm_index(self, st, i, n, what):
        """Python index i on a sequence of length n: must satisfy -n <= i < n; returns the non-negative index"""
        self.oblige(st, 'safety', 'index-in-range[%s]' % what, And(-n <= i, i < n))
        si = simplify(i)
        if is_int(si) and si.decl().name() == 'Int' or str(si).lstrip('-').isdigit():
            return i if int(str(si)) >= 0 else n + i
        j = FreshConst(IntSort(), 'ix'); st.pc.append(j == If(i < 0, n + i, i)); return j

    # ---------------------------------------------------------------------------------------- loops
    def assigned_names(self, body):
        """(names rebound by plain assignment / loop targets, names that are only targets of augmented assignments)"""
        rebound, aug = set(), set()
        for n in body:
            aug_targets = set()
            for x in ast.walk(n):
                if isinstance(x, ast.AugAssign) and isinstance(x.target, ast.Name): aug.add(x.target.id); aug_targets.add(id(x.target))
            for x in ast.walk(n):
                if isinstance(x, ast.Name) and isinstance(x.ctx, ast.Store) and id(x) not in aug_targets: rebound.add(x.id)
        return rebound, aug - rebound

    def mutated_roots(self, body, st):
        """roots possibly mutated by the loop body: over-approximation = every root reachable from a name that occurs in the body
        as receiver of a call, as argument of a call, or as target of a subscript/attribute store or augmented assignment"""
        roots = set();
        def root_of(e):
            while isinstance(e, (ast.Attribute, ast.Subscript, ast.Call)):
                e = e.func if isinstance(e, ast.Call) else e.value
            if isinstance(e, ast.Name) and e.id in st.env:
                v = st.env[e.id]
                if isinstance(v, PMaybe): v = v.val
                for r in self.roots_in(v): roots.add(r)
        PURE = {'items', 'keys', 'values', 'get', 'index', 'copy', 'count'}
        BUILTIN = {'len', 'list', 'dict', 'set', 'any', 'all', 'max', 'min', 'sum', 'abs', 'isinstance', 'hasattr', 'print', 'warn', 'str', 'int', 'float',
                   'range', 'enumerate', 'zip', 'sorted', 'tqdm', 'bool', 'next', 'tuple'}
        def type_of_expr(e):
            if isinstance(e, ast.Name) and e.id in st.env:
                v = st.env[e.id]; v = v.val if isinstance(v, PMaybe) else v
                return getattr(v, 't', None)
            if isinstance(e, ast.Attribute):
                t = type_of_expr(e.value)
                if isinstance(t, TObj) and t.has_field(e.attr): return t.ftype(e.attr)
            return None
        for n in body:
            for x in ast.walk(n):
                if isinstance(x, ast.Call):
                    spec = None
                    if isinstance(x.func, ast.Attribute):
                        rt = type_of_expr(x.func.value)
                        if isinstance(rt, TObj): spec = self.specs.get(rt.name + '.' + x.func.attr)
                        MUTATORS = {'append', 'remove', 'pop', 'update', 'extend', 'insert', 'sort', 'clear', 'setdefault', 'popitem', 'reverse', 'add', 'discard'}
                        if spec is None and x.func.attr not in MUTATORS: continue            # a library / builtin method that is not a container mutator: pure (DESIGN 3.4)
                        if x.func.attr in PURE and (spec is None): pass
                        elif spec is not None and spec.params and spec.params[0][0] not in spec.modifies: pass
                        else: root_of(x.func.value)
                        pnames = [p for p, _ in spec.params[1:]] if spec is not None else None
                    else:
                        name = getattr(x.func, 'id', None)
                        if name in BUILTIN: continue
                        spec = self.specs.get(name) or self.resolve_function(name) if name else None
                        pnames = [p for p, _ in spec.params] if spec is not None else None
                    for i, a in enumerate(x.args):
                        if spec is not None and pnames is not None and i < len(pnames) and pnames[i] not in spec.modifies: continue
                        root_of(a)
                    for kw in x.keywords:
                        if spec is not None and kw.arg not in spec.modifies: continue
                        root_of(kw.value)
                if isinstance(x, (ast.Subscript, ast.Attribute)) and isinstance(x.ctx, ast.Store): root_of(x.value)
                if isinstance(x, ast.AugAssign): root_of(x.target)
                if isinstance(x, ast.Yield) and st.yields is not None: roots.add(st.yields.root)
        return roots

    def resolve_function(self, name):
        for q, s in self.specs.items():
            if q == name or q.endswith('.' + name) and s.cls is None: return s
        return None

    def roots_in(self, v):
        if isinstance(v, PRef): return [v.root]
        if isinstance(v, PTup): return [r for x in v.items for r in self.roots_in(x)]
        return []

    def view(self, st):
        """current values by name for invariants"""
        out = {}; nones = {}
        for n, v in st.env.items():
            if isinstance(v, PMaybe): v = v.val
            if isinstance(v, PNone): nones[n] = BoolVal(True)
            if isinstance(v, (PV, PRef, PTup)):
                try: out[n] = self.term(st, v)
                except Unsupported: pass
                nn = getattr(v, 'none', False); nones[n] = BoolVal(False) if nn is False else nn
        out['$none'] = nones            # name -> "is None" (for invariants / postconditions over optional locals)
        if st.yields is not None: out['$yields'] = st.store[st.yields.root]
        return out

    def iter_source(self, it, st):
        """-> (lo, hi, binder(state, k), iterated roots) for a for-loop iterable"""
        if isinstance(it, ast.Call) and isinstance(it.func, ast.Name):
            fn = it.func.id
            if fn == 'tqdm': return self.iter_source(it.args[0], st)
            if fn == 'range':
                args = [self.expr(a, st).term for a in it.args]
                lo, hi = (IntVal(0), args[0]) if len(args) == 1 else (args[0], args[1])
                return lo, hi, (lambda state, k: PV(INT, k)), [], None
            if fn == 'enumerate':
                lo, hi, b, roots, seq = self.iter_source(it.args[0], st)
                return lo, hi, (lambda state, k: PTup([PV(INT, k), b(state, k)])), roots, seq
            if fn == 'zip':
                parts = [self.iter_source(a, st) for a in it.args]
                hi = parts[0][1]
                for p in parts[1:]:
                    h = FreshConst(IntSort(), 'zl'); st.pc.append(h == If(hi <= p[1], hi, p[1])); hi = h
                seqs = ZipSeqs([p[4] for p in parts if p[4] is not None and not isinstance(p[4], ZipSeqs)])
                return IntVal(0), hi, (lambda state, k: PTup([p[2](state, k) for p in parts])), [r for p in parts for r in p[3]], (seqs if seqs else None)
        if isinstance(it, ast.Call) and isinstance(it.func, ast.Attribute) and it.func.attr in ('items', 'keys', 'values') and not it.args:
            d = self.expr(it.func.value, st)
            if isinstance(d, PRef) and isinstance(d.t, TDict):
                dt = self.term(st, d); t = d.t; th = t.kth(); keys = t.keys(dt)
                def b(state, k, d=d, t=t, keys=keys, dt=dt, mode=it.func.attr):
                    kk = th.At(keys, k)
                    kv = PV(t.k, kk)
                    vv = PRef(t.v, d.root, d.path + (('key', kk),)) if isinstance(t.v, (TList, TDict, TObj)) else PV(t.v, t.get(dt, kk))
                    return {'items': PTup([kv, vv]), 'keys': kv, 'values': vv}[mode]
                return IntVal(0), th.Len(keys), b, [d.root], keys
        v0 = self.expr(it, st)
        if getattr(self, 'is_opq', None) and self.is_opq(v0):
            # iterating a library value (Series.unique(), an Index, ...): its elements in iteration order are a function of the value (ASSUMED, like every opaque operation)
            from .exprs import OpqAsList
            seq = OpqAsList(v0.term); th = LVAL.th()
            return IntVal(0), th.Len(seq), (lambda state, k: self.from_term(state, VAL, th.At(seq, k))), [], seq
        v = self.as_list(v0)
        if isinstance(v, PRef) and isinstance(v.t, TList):
            self.need_not_none(st, v, ast.unparse(it))
            seq = self.term(st, v); th = v.t.th(); et = v.t.elem
            return IntVal(0), th.Len(seq), (lambda state, k: self.from_term(state, et, th.At(seq, k))), [v.root], seq
        raise Unsupported('iteration over ' + ast.unparse(it))

    def bind_target(self, tgt, val, st):
        if isinstance(tgt, ast.Name): st.env[tgt.id] = val; return
        if isinstance(tgt, ast.Tuple) and isinstance(val, PTup) and len(val.items) == len(tgt.elts):
            for e, x in zip(tgt.elts, val.items): self.bind_target(e, x, st)
            return
        raise Unsupported('loop target ' + ast.unparse(tgt))

    def for_loop(self, s, st):
        k_id = self.loop_ids[id(s)]
        spec = self.spec.loops.get(k_id)
        if spec is None: raise Unsupported('loop %d of %s has no invariant' % (k_id, self.fname))
        lo, hi, binder, it_roots, seq = self.iter_source(s.iter, st)
        name = 'loop%d' % k_id
        entry = self.view(st); entry_store = dict(st.store)
        mut = self.mutated_roots(s.body, st)
        if spec.modifies is not None:
            mut = set()
            for n in spec.modifies:
                if n == '$yields': mut.add(st.yields.root)
                elif n in st.env: mut |= set(self.roots_in(st.env[n] if not isinstance(st.env[n], PMaybe) else st.env[n].val))
        if set(it_roots) & mut and spec.modifies is None:
            # iterated object possibly mutated in the body: only allowed if the contract says it is not (explicit modifies)
            raise Unsupported('aliasing: loop %d iterates over an object its body may mutate' % k_id)
        ctx = dict(self.old); ctx['$entry'] = entry
        def inv(state, k):
            try: return spec.inv(ctx, self.view(state), k)
            except KeyError as e:
                raise Unsupported('the invariant of loop %d names the local %s, which the function does not bind here (renamed?)' % (k_id, e))
        self.oblige(st, name, 'init', And(inv(st, lo)))
        # havoc
        h = st.clone(); assigned, aug_only = self.assigned_names(s.body)
        for r in mut: h.store[r] = FreshConst(h.types[r].sort(), 'h')
        for n in assigned | aug_only:
            if n in h.env:
                v = h.env[n]
                if isinstance(v, PMaybe): v = v.val
                if isinstance(v, PNone):
                    # None before the loop, assigned inside: any value of its declared type, or still None
                    t = self.declared_local(n)
                    if t is None or isinstance(t, (TList, TDict, TObj)): raise Unsupported('local %s is None before loop %d and assigned inside: its type must be declared (atoms only)' % (n, k_id))
                    h.env[n] = PV(t, FreshConst(t.sort(), 'h_' + n), FreshConst(BoolSort(), 'hn_' + n))
                elif isinstance(v, PV): h.env[n] = PV(v.t, FreshConst(v.t.sort(), 'h_' + n), v.none if v.none is False else FreshConst(BoolSort(), 'hn'))
                elif isinstance(v, PRef) and n in assigned:
                    # the name may be rebound to another object: havoc by value into a fresh frozen root
                    h.env[n] = self.from_term(h, v.t, FreshConst(v.t.sort(), 'h_' + n), frozen=True)
        k = FreshConst(IntSort(), 'k')
        self.obls.append(Obl('%s#canary.%s' % (self.fname, name), h.pc + [lo <= k, k <= hi, inv(h, k)], BoolVal(False), kind='canary'))
        body = h.clone(); body.pc += [lo <= k, k < hi, inv(body, k)]
        self.bind_target(s.target, binder(body, k), body)
        if spec.body_lemmas is not None:
            # ghost lemmas at the head of the k-th iteration (proved from the invariant at k, then assumed in the body)
            for label, g in spec.body_lemmas(ctx, self.view(body), k): self.oblige(body, 'lemma', '%s.%s' % (name, label), g)
        outs = []
        res = self.block(s.body, body)
        exits = []
        for o in res:
            if o.kind in ('fall', 'continue'):
                self.oblige(o.st, name, 'preserve', inv(o.st, k + 1))
            elif o.kind == 'break': exits.append(o.st)
            else: outs.append(o)
        ex = h.clone(); ex.pc += [lo <= hi if seq is not None else BoolVal(True), inv(ex, If(hi < lo, lo, hi) if seq is None else hi)]
        for n in assigned:
            if n not in st.env and n in ex.env: del ex.env[n]
        if s.orelse: raise Unsupported('for-else')
        # `break`: the state after the loop is either the regular exit (invariant at the end of the range) or one of the states that reached a break
        # (the invariant held at the head of that iteration; the body ran up to the break).  All of them extend the havocked state h: joined under fresh choice variables.
        for b in exits:
            ex = self.merge(len(h.pc), FreshConst(BoolSort(), 'left_by_break'), b, ex)
        return outs + [Outcome(ex, 'fall')]

    def while_loop(self, s, st):
        raise Unsupported('while loop')

    # ---------------------------------------------------------------------------------------- conditions
    def cond(self, e, st):
        """-> True / False (static) or z3 Bool"""
        v = self.expr(e, st)
        return self.truth(st, v)

    def truth(self, st, v):
        if isinstance(v, bool): return v
        if isinstance(v, PNone): return False
        if isinstance(v, PV):
            none = v.none
            if isinstance(v.t, TBool): t = v.term
            elif isinstance(v.t, TInt): t = v.term != 0
            elif isinstance(v.t, TReal): t = v.term != 0
            elif isinstance(v.t, TVal): t = Truthy(v.term)
            else: raise Unsupported('truth value of %r' % (v.t,))
            if none is not False: t = And(Not(none), t)
            if is_true(simplify(t)): return True
            if is_false(simplify(t)): return False
            return t
        if isinstance(v, PRef):
            vl = self.as_list(v)
            if isinstance(vl.t, TList): t = vl.t.th().Len(self.term(st, vl)) > 0
            elif isinstance(vl.t, TDict): t = vl.t.kth().Len(vl.t.keys(self.term(st, vl))) > 0
            else: t = BoolVal(True)
            return t if v.none is False else And(Not(v.none), t)
        raise Unsupported('truth value')


IntAsVal = Function('IntAsVal', IntSort(), Val)
