"""self-test of engine P: apply textual mutations to a scratch copy of one source file and report which obligations open up."""
import sys, os, shutil, tempfile, importlib
from pyvc.run import run_module

def run_mutant(modname, file, old, new, quals=None):
    src = open('/repo/' + file).read()
    assert src.count(old) >= 1, 'pattern not found: ' + old
    tmp = tempfile.mkdtemp(prefix='pvmut_'); 
    try:
        shutil.copytree('/repo/AutoCarver', tmp + '/AutoCarver')
        open(tmp + '/' + file, 'w').write(src.replace(old, new, 1))
        res = run_module(modname, quals, repo=tmp, verbose=False)
    finally:
        shutil.rmtree(tmp)
    bad = []
    for q, v in res.items():
        if v['status'] == 'UNSUPPORTED': bad.append((q, 'UNSUPPORTED ' + v['detail']))
        for o in v['obligations']:
            if o['status'] not in ('discharged', 'canary-ok'): bad.append((o['name'], o['status']))
    return bad

if __name__ == '__main__':
    mod = importlib.import_module(sys.argv[1])
    for (file, old, new, quals) in mod.MUTANTS:
        bad = run_mutant(mod.CONTRACTS, file, old, new, quals)
        print('CAUGHT ' if bad else 'MISSED ', repr(old), '->', repr(new)); [print('      ', b) for b in bad[:4]]
