"""Expression and call semantics of engine P (second half of the symbolic executor)."""
import ast
import z3 as _z3
from z3 import (And, Or, Not, Implies, If, BoolVal, IntVal, RealVal, Const, substitute, ForAll, Exists, Select, Store, Int,
                IntSort, RealSort, BoolSort, is_true, is_false, simplify, ToReal, Function, MultiPattern, K)
from .types import *
from .engine import (FreshConst, FRESH_LOG, Engine, Unsupported, PPool, PV, PRef, PTup, PNone, PMaybe, State, Obl, Outcome, str_const, Truthy, IntAsVal,
                     FunctionSpec)

RealAsVal = Function('RealAsVal', RealSort(), Val)


class FullEngine(Engine):
    # ------------------------------------------------------------------------------------------- expressions
    def expr(self, e, st, hint=None):
        if isinstance(hint, TAny) and isinstance(e, (ast.Dict, ast.List, ast.Tuple, ast.Constant, ast.JoinedStr)):
            for sub in ast.walk(e):
                if isinstance(sub, (ast.Call, ast.Yield, ast.NamedExpr)): break
            else:
                return PV(ANY, FreshConst(AnyS, 'opaque'))           # a literal stored where its inside is never looked at
        if isinstance(e, ast.Constant):
            v = e.value
            if isinstance(v, bool): return PV(BOOL, BoolVal(v))
            if isinstance(v, int):
                if isinstance(hint, TReal): return PV(REAL, RealVal(v))
                if isinstance(hint, TVal): return PV(VAL, str_const(v))
                return PV(INT, IntVal(v))
            if isinstance(v, float): return PV(REAL, RealVal(repr(v)))
            if isinstance(v, str): return PV(VAL, str_const(v))
            if v is None: return PNone()
        if isinstance(e, ast.Name):
            if e.id not in st.env:
                if e.id in self.spec.ghost: return PV(None, self.old[e.id])
                if any(isinstance(x, ast.Name) and isinstance(x.ctx, ast.Store) and x.id == e.id for x in ast.walk(self.fn)):
                    # a local that is bound on other paths only: UnboundLocalError here
                    self.oblige(st, 'safety', 'bound-local[%s]' % e.id, BoolVal(False))
                    lt = self.spec.locals.get(e.id)
                    if lt is None: raise Unsupported('local %s is read on a path that never binds it' % e.id)
                    st.pc.pop()                                  # (do not assume False: go on with an arbitrary value of the declared type)
                    v = self.from_term(st, lt, FreshConst(lt.sort(), 'unbound_' + e.id), frozen=False); st.env[e.id] = v; return v
                raise Unsupported('unknown name ' + e.id)
            v = st.env[e.id]
            if isinstance(v, PMaybe):
                self.oblige(st, 'safety', 'bound-local[%s]' % e.id, v.cond); st.env[e.id] = v.val; v = v.val
            return v
        if isinstance(e, ast.Tuple): return PTup([self.expr(x, st) for x in e.elts])
        if isinstance(e, ast.Attribute): return self.attribute(e, st)
        if isinstance(e, ast.BinOp):
            a = self.expr(e.left, st, hint=hint); b = self.expr(e.right, st, hint=hint if not isinstance(e.op, ast.Mult) else None)
            return self.binop(st, e.op, a, b, what=ast.unparse(e))
        if isinstance(e, ast.UnaryOp):
            if isinstance(e.op, ast.Not):
                c = self.cond(e.operand, st)
                if c is True or c is False: return PV(BOOL, BoolVal(not c))
                return PV(BOOL, Not(c))
            if isinstance(e.op, ast.USub):
                a = self.expr(e.operand, st, hint=hint)
                if self.is_opq(a): return self.opq(st, 'unary_USub', [a])
                return PV(a.t, -a.term)
            if isinstance(e.op, ast.Invert):
                a = self.expr(e.operand, st)
                if self.is_opq(a): return self.opq(st, 'unary_Invert', [a])          # ~mask on a library value: a library value
        if isinstance(e, ast.BoolOp):
            # short-circuit: later operands are evaluated under the assumption that earlier ones did not decide
            terms = []; guard_len = len(st.pc); cur = st
            acc = []
            for x in e.values:
                sub = cur.clone() if acc else cur
                if acc:
                    sub.pc.append(And(*acc) if isinstance(e.op, ast.And) else And(*[Not(a) for a in acc]))
                n0 = len(self.obls)
                c = self.cond(x, sub)
                if sub is not cur:
                    # facts learnt while evaluating a guarded operand stay guarded
                    extra = sub.pc[len(cur.pc) + 1:]
                    if extra:
                        g = sub.pc[len(cur.pc)]; cur.pc.append(Implies(g, And(*extra)))
                    cur.store = sub.store; cur.types = sub.types
                c = BoolVal(c) if isinstance(c, bool) else c
                terms.append(c); acc.append(c)
            return PV(BOOL, And(*terms) if isinstance(e.op, ast.And) else Or(*terms))
        if isinstance(e, ast.Compare): return self.compare(e, st)
        if isinstance(e, ast.IfExp):
            c = self.cond(e.test, st)
            if c is True: return self.expr(e.body, st, hint)
            if c is False: return self.expr(e.orelse, st, hint)
            # each arm is evaluated under its guard (its safety obligations may rely on it); facts learnt there stay guarded
            def arm(x, g):
                sub = st.clone(); sub.pc.append(g); v = self.expr(x, sub, hint)
                extra = sub.pc[len(st.pc) + 1:]
                if extra: st.pc.append(Implies(g, And(*extra)))
                st.store = sub.store; st.types = sub.types
                return v
            a = arm(e.body, c); b = arm(e.orelse, Not(c))
            if isinstance(a, PV) and isinstance(b, PV) and a.t == b.t: return PV(a.t, If(c, a.term, b.term))
            ta = self.type_of(a)
            return self.from_term(st, ta, If(c, self.term(st, a), self.term(st, b)), frozen=True)
        if isinstance(e, ast.List): return self.list_literal(e, st, hint)
        if isinstance(e, ast.Dict): return self.dict_literal(e, st, hint)
        if isinstance(e, ast.ListComp): return self.listcomp(e, st, hint)
        if isinstance(e, ast.DictComp): return self.dictcomp(e, st, hint)
        if isinstance(e, ast.Subscript): return self.subscript(e, st)
        if isinstance(e, ast.Call): return self.call(e, st, hint)
        if isinstance(e, ast.JoinedStr): return PV(VAL, FreshConst(Val, 'fstr'))
        raise Unsupported('expression ' + ast.dump(e)[:80])

    def attribute(self, e, st):
        obj = self.expr(e.value, st)
        if isinstance(obj, PRef) and isinstance(obj.t, TObj):
            self.need_not_none(st, obj, ast.unparse(e.value))
            if obj.t.has_field(e.attr):
                ft = obj.t.ftype(e.attr)
                if isinstance(ft, (TList, TDict, TObj)): return PRef(ft, obj.root, obj.path + (e.attr,))
                return PV(ft, obj.t.get(self.term(st, obj), e.attr))
        if self.is_opq(obj): return self.opq(st, 'attr_' + e.attr, [obj])
        ol = self.as_list(obj)
        if isinstance(ol, PRef) and isinstance(ol.t, TList) and e.attr == 'shape':      # numpy 1-d array modelled as a list: shape == (len,)
            return PTup([PV(INT, ol.t.th().Len(self.term(st, ol)))])
        raise Unsupported('attribute ' + ast.unparse(e))

    def coerce(self, st, v, t):
        if isinstance(v, PV) and isinstance(v.t, TOpaque) and v.t.name == 'Opq' and not isinstance(t, TOpaque):
            if isinstance(t, TReal): return OpqReal(v.term)
            if isinstance(t, TInt): return OpqInt(v.term)
            if isinstance(t, TBool): return OpqTruth(v.term)
            if isinstance(t, TVal): return OpqVal(v.term)
        if isinstance(t, TOpaque) and t.name == 'Opq' and isinstance(v, (PV, PRef, PTup)) and not (isinstance(v, PV) and isinstance(v.t, TOpaque)):
            return opaque_apply('box_' + repr(self.type_of(v)), [self.term(st, v)])
        return super().coerce(st, v, t)

    def is_opq(self, v):
        return isinstance(v, PV) and isinstance(v.t, TOpaque) and v.t.name == 'Opq'

    def opq(self, st, tag, vals):
        terms = []
        for v in vals:
            if isinstance(v, PNone): terms.append(Const('lib_None', OPQ.sort())); continue
            terms.append(self.term(st, v))
        return PV(OPQ, opaque_apply(tag, terms))

    def truth(self, st, v):
        if self.is_opq(v): return OpqTruth(v.term)
        return super().truth(st, v)

    def num(self, st, v, t):
        return self.coerce(st, v, t)

    def binop(self, st, op, a, b, what=''):
        if isinstance(op, ast.Mult) and isinstance(a, PTup) and isinstance(b, PV) and isinstance(b.t, TInt) and _z3.is_int_value(_z3.simplify(b.term)):
            return PTup(list(a.items) * max(0, _z3.simplify(b.term).as_long()))          # (x,) * 3 with a literal count
        if self.is_opq(a) or self.is_opq(b):
            arith = isinstance(op, (ast.Add, ast.Sub, ast.Mult, ast.Div))
            other = b if self.is_opq(a) else a
            if arith and (self.is_opq(other) or (isinstance(other, PV) and isinstance(other.t, (TInt, TReal)))):
                # numbers coming out of numpy / pandas: real arithmetic; division follows numpy (inf / nan, no ZeroDivisionError)
                x, y = self.coerce(st, a, REAL), self.coerce(st, b, REAL)
                if isinstance(op, ast.Add): return PV(REAL, x + y)
                if isinstance(op, ast.Sub): return PV(REAL, x - y)
                if isinstance(op, ast.Mult): return PV(REAL, x * y)
                return PV(REAL, NumpyDiv(x, y))
            return self.opq(st, 'op_' + type(op).__name__, [a if self.is_opq(a) else PV(OPQ, self.coerce(st, a, OPQ)), b if self.is_opq(b) else PV(OPQ, self.coerce(st, b, OPQ))])
        al, bl = self.as_list(a), self.as_list(b)
        if isinstance(op, ast.Add) and isinstance(al, PRef) and isinstance(al.t, TList):
            self.need_not_none(st, a, what + ':left'); self.need_not_none(st, b, what + ':right')
            if isinstance(b, PNone): self.oblige(st, 'safety', 'not-None[%s]' % what, BoolVal(False)); raise Unsupported('list + None')
            th = al.t.th(); return self.new_root(st, al.t, th.App(self.term(st, al), self.term(st, bl)))
        if isinstance(op, ast.Mult) and isinstance(al, PRef) and isinstance(al.t, TList) and isinstance(b, PV) and isinstance(b.t, TInt):
            # [x] * n  (only singleton literal lists)
            th = al.t.th(); cur = self.term(st, al)
            self.oblige(st, 'engine', 'repeat-singleton[%s]' % what, th.Len(cur) == 1)
            return self.new_root(st, al.t, th.Rep(th.At(cur, 0), If(b.term < 0, 0, b.term)))
        if isinstance(a, PV) and isinstance(b, PV):
            if isinstance(a.t, TBool) and isinstance(b.t, TBool):
                if isinstance(op, ast.BitOr): return PV(BOOL, Or(a.term, b.term))
                if isinstance(op, ast.BitAnd): return PV(BOOL, And(a.term, b.term))
            t = REAL if isinstance(a.t, TReal) or isinstance(b.t, TReal) or isinstance(op, ast.Div) else INT
            if not isinstance(a.t, (TInt, TReal)) or not isinstance(b.t, (TInt, TReal)): raise Unsupported('arithmetic on %r, %r' % (a.t, b.t))
            x, y = self.num(st, a, t), self.num(st, b, t)
            if isinstance(op, ast.Add): return PV(t, x + y)
            if isinstance(op, ast.Sub): return PV(t, x - y)
            if isinstance(op, ast.Mult): return PV(t, x * y)
            if isinstance(op, ast.Div):
                if self.spec.numpy_division: return PV(REAL, NumpyDiv(x, y))          # contract says: operands are numpy scalars (inf / nan, no exception)
                self.oblige(st, 'safety', 'division-by-zero[%s]' % what, y != 0); return PV(REAL, x / y)
        raise Unsupported('binary operation ' + what)

    def compare(self, e, st):
        operands = [e.left] + e.comparators; cs = []
        vals = [None] * len(operands)
        def val(i, hint=None):
            if vals[i] is None: vals[i] = self.expr(operands[i], st, hint=hint)
            return vals[i]
        for i, op in enumerate(e.ops):
            if isinstance(op, (ast.Is, ast.IsNot)):
                a, b = val(i), val(i + 1)
                if not isinstance(b, PNone): raise Unsupported('is-comparison with non-None')
                isn = True if isinstance(a, PNone) else (a.none if getattr(a, 'none', False) is not False else False)
                c = isn if isinstance(op, ast.Is) else (Not(isn) if not isinstance(isn, bool) else (not isn))
                cs.append(BoolVal(c) if isinstance(c, bool) else c); continue
            if isinstance(op, (ast.In, ast.NotIn)):
                c = self.as_list(val(i + 1))
                if not isinstance(c, PRef): raise Unsupported('membership in non-container')
                self.need_not_none(st, c, ast.unparse(operands[i + 1]))
                if isinstance(c.t, TDict): x = self.coerce(st, val(i, c.t.k), c.t.k); h = c.t.has(self.term(st, c), x)
                else: x = self.coerce(st, val(i, c.t.elem), c.t.elem); h = c.t.th().Has(self.term(st, c), x)
                cs.append(h if isinstance(op, ast.In) else Not(h)); continue
            a = val(i); b = val(i + 1, hint=self.type_of(a) if isinstance(a, (PV, PRef)) and not self.is_opq(a) else None)
            if self.is_opq(a) or self.is_opq(b):
                o = b if self.is_opq(a) else a
                if isinstance(o, PV) and isinstance(o.t, (TInt, TReal)) and isinstance(op, (ast.Lt, ast.LtE, ast.Gt, ast.GtE)):
                    x, y = self.coerce(st, a, REAL), self.coerce(st, b, REAL)
                    cs.append({ast.Lt: x < y, ast.LtE: x <= y, ast.Gt: x > y, ast.GtE: x >= y}[type(op)]); continue
                r = self.opq(st, 'cmp_' + type(op).__name__, [a if self.is_opq(a) else PV(OPQ, self.coerce(st, a, OPQ)), b if self.is_opq(b) else PV(OPQ, self.coerce(st, b, OPQ))])
                if len(e.ops) == 1: return r          # a library value (possibly element-wise, e.g. Series >= x); truth contexts read its truth value
                cs.append(OpqTruth(r.term)); continue
            if isinstance(a, PNone) or isinstance(b, PNone):
                if isinstance(op, (ast.Eq, ast.NotEq)):
                    o = b if isinstance(a, PNone) else a
                    isn = True if isinstance(o, PNone) else (o.none if o.none is not False else False)
                    c = isn if isinstance(op, ast.Eq) else (Not(isn) if not isinstance(isn, bool) else (not isn))
                    cs.append(BoolVal(c) if isinstance(c, bool) else c); continue
                raise Unsupported('ordering with None')
            if isinstance(a, PV) and isinstance(a.t, TVal) and isinstance(b, PV) and not isinstance(b.t, TVal): b = PV(VAL, self.coerce(st, b, VAL))
            if isinstance(b, PV) and isinstance(b.t, TVal) and isinstance(a, PV) and not isinstance(a.t, TVal): a = PV(VAL, self.coerce(st, a, VAL))
            ta, tb = self.type_of(a), self.type_of(b)
            if isinstance(op, (ast.Eq, ast.NotEq)):
                if isinstance(ta, (TInt, TReal)) and isinstance(tb, (TInt, TReal)) and ta != tb:
                    x, y = self.num(st, a, REAL), self.num(st, b, REAL)
                else:
                    if ta != tb: raise Unsupported('== between %r and %r' % (ta, tb))
                    x, y = self.term(st, a), self.term(st, b)
                cs.append(x == y if isinstance(op, ast.Eq) else x != y); continue
            if isinstance(ta, (TInt, TReal)) and isinstance(tb, (TInt, TReal)):
                t = REAL if (isinstance(ta, TReal) or isinstance(tb, TReal)) else INT
                x, y = self.num(st, a, t), self.num(st, b, t)
                cs.append({ast.Lt: x < y, ast.LtE: x <= y, ast.Gt: x > y, ast.GtE: x >= y}[type(op)]); continue
            raise Unsupported('comparison ' + ast.unparse(e))
        return PV(BOOL, And(*cs) if len(cs) > 1 else cs[0])

    def list_literal(self, e, st, hint):
        if not e.elts:
            if not isinstance(hint, TList): raise Unsupported('empty list literal without a declared type')
            return self.new_root(st, hint, hint.th().Emp)
        eh = hint.elem if isinstance(hint, TList) else None
        items = [self.expr(x, st, hint=eh) for x in e.elts]
        et = eh or self.type_of(items[0]); t = TList(et); th = t.th()
        for it in items: self.escape(st, it, 'list literal')
        return self.new_root(st, t, th.lit([self.coerce(st, it, et) for it in items]))

    def dict_literal(self, e, st, hint):
        if not isinstance(hint, TDict): raise Unsupported('dict literal without a declared type')
        d = self.new_root(st, hint, hint.mk(hint.kth().Emp, K(hint.k.sort(), self.default_term(hint.v))))
        pairs = []
        for kx, vx in zip(e.keys, e.values):
            k = self.expr(kx, st, hint=hint.k); v = self.expr(vx, st, hint=hint.v); pairs.append((self.coerce(st, k, hint.k), self.coerce(st, v, hint.v), v))
        for kt, vt, v in pairs:
            self.dict_set(st, d, kt, vt, value=v); self.escape(st, v, 'dict literal')
        return d

    def default_term(self, t):
        return FreshConst(t.sort(), 'dflt')

    def subscript(self, e, st):
        base0 = self.expr(e.value, st)
        if isinstance(base0, PTup) and isinstance(e.slice, ast.Constant): return base0.items[e.slice.value]
        if self.is_opq(base0):
            if isinstance(e.slice, ast.Slice): return self.opq(st, 'slice_' + ast.unparse(e.slice), [base0])
            k = self.expr(e.slice, st); return self.opq(st, 'getitem', [base0, k if self.is_opq(k) else PV(OPQ, self.coerce(st, k, OPQ))])
        base = base0 if isinstance(getattr(base0, 't', None), TDict) else self.as_list(base0)
        if not isinstance(base, PRef): raise Unsupported('subscript of ' + ast.unparse(e.value))
        self.need_not_none(st, base, ast.unparse(e.value))
        bt = self.term(st, base)
        if isinstance(base.t, TDict):
            k = self.coerce(st, self.expr(e.slice, st, hint=base.t.k), base.t.k)
            self.oblige(st, 'safety', 'key-present[%s]' % ast.unparse(e), base.t.has(bt, k))
            if isinstance(base.t.v, (TList, TDict, TObj)): return PRef(base.t.v, base.root, base.path + (('key', k),))
            return PV(base.t.v, base.t.get(bt, k))
        th = base.t.th(); n = th.Len(bt)
        if isinstance(e.slice, ast.Slice):
            if e.slice.step is not None: raise Unsupported('slice step')
            if e.slice.lower is None and e.slice.upper is None: return self.new_root(st, base.t, bt)
            lo = self.expr(e.slice.lower, st).term if e.slice.lower else IntVal(0)
            hi = self.expr(e.slice.upper, st).term if e.slice.upper else n
            # Python clamps slices; the engine demands in-range bounds (an obligation, so clamping is never relied upon)
            self.oblige(st, 'engine', 'slice-in-range[%s]' % ast.unparse(e), And(0 <= lo, lo <= hi, hi <= n))
            if e.slice.lower is None: return self.new_root(st, base.t, th.Take(bt, hi))
            if e.slice.upper is None: return self.new_root(st, base.t, th.Drop(bt, lo))
            return self.new_root(st, base.t, th.Slice(bt, lo, hi))
        i = self.expr(e.slice, st)
        if not (isinstance(i, PV) and isinstance(i.t, TInt)): raise Unsupported('list index of type %r' % (getattr(i, 't', None),))
        idx = self.norm_index(st, i.term, n, ast.unparse(e))
        et = base.t.elem
        if isinstance(et, (TList, TDict, TObj, TTuple)): return self.from_term(st, et, th.At(bt, idx), frozen=True)
        return PV(et, th.At(bt, idx))

    # ------------------------------------------------------------------------------------------- comprehensions
    def comp_env(self, gen, st, k):
        """state for the body of a comprehension generator at symbolic index k; returns (sub-state, lo, hi, seq)"""
        lo, hi, binder, roots, seq = self.iter_source(gen.iter, st)
        sub = st.clone(); sub.pc += [lo <= k, k < hi]
        self.bind_target(gen.target, binder(sub, k), sub)
        return sub, lo, hi, seq

    def listcomp(self, e, st, hint):
        if len(e.generators) == 2: return self.flatcomp(e, st, hint)
        if len(e.generators) != 1: raise Unsupported('comprehension with %d generators' % len(e.generators))
        gen = e.generators[0]
        # identity copy  [x for x in it]
        if not gen.ifs and isinstance(e.elt, ast.Name) and isinstance(gen.target, ast.Name) and e.elt.id == gen.target.id:
            src = self.as_list(self.expr(gen.iter, st)); return self.new_root(st, src.t, self.term(st, src))
        k = FreshConst(IntSort(), 'ci')
        sub, lo, hi, seq = self.comp_env(gen, st, k)
        n0 = len(self.obls)
        conds = [self.cond(c, sub) for c in gen.ifs]
        conds = [BoolVal(c) if isinstance(c, bool) else c for c in conds]
        cnd = And(*conds) if conds else BoolVal(True)
        sub2 = sub.clone(); sub2.pc.append(cnd)
        elt = self.expr(e.elt, sub2, hint=hint.elem if isinstance(hint, TList) else None)
        et = hint.elem if isinstance(hint, TList) else self.type_of(elt); rt = TList(et); th = rt.th()
        elt_t = self.coerce(sub2, elt, et)
        facts = sub2.pc[len(st.pc):]           # range facts + definitions made while evaluating cond / elt at index k
        # obligations raised inside the comprehension body are universally quantified over k by construction (k is fresh)
        R = FreshConst(rt.sort(), 'comp')
        body_defs = [f for f in facts[2:] if not f.eq(cnd)]
        def at_k(formula):     # formula about index k, valid under the definitions
            return ForAll([k], Implies(And(lo <= k, k < hi, *body_defs), formula), patterns=self.comp_patterns(seq, k, st, gen))
        W = Function('cw_%d' % R.get_id(), et.sort(), IntSort())
        y = FreshConst(et.sort(), 'cy')
        ax = []
        if not gen.ifs:
            ax.append(th.Len(R) == If(hi < lo, 0, hi - lo))
            ax.append(at_k(th.At(R, k - lo) == elt_t))
        else:
            ax.append(And(th.Len(R) >= 0, th.Len(R) <= If(hi < lo, 0, hi - lo)))
        ax.append(at_k(Implies(cnd, th.Has(R, elt_t))))                                    # every selected element is in the result
        # every member of the result comes from a selected index (Skolem witness W)
        kk = W(y)
        def subst(f):
            from z3 import substitute
            return substitute(f, (k, kk))
        ax.append(ForAll([y], Implies(th.Has(R, y), And(lo <= kk, kk < hi, Implies(And(*[subst(d) for d in body_defs]) if body_defs else BoolVal(True), And(subst(cnd), subst(elt_t) == y)))),
                         patterns=[th.Has(R, y)]) if not body_defs else
                  ForAll([y], Implies(th.Has(R, y), And(lo <= kk, kk < hi)), patterns=[th.Has(R, y)]))
        # identity filter of a duplicate-free list is duplicate-free, keeps order (sub-sequence)
        if seq is not None and isinstance(e.elt, ast.Name) and isinstance(gen.target, ast.Name) and e.elt.id == gen.target.id and seq.sort() == rt.sort():
            ax.append(Implies(th.Nodup(seq), th.Nodup(R)))
        st.pc += ax
        return self.new_root(st, rt, R)

    def comp_patterns(self, seq, k, st, gen):
        if seq is not None:
            th = seq_theory(seq.sort().__class__ and self._elem_sort_of(seq))
            return [th.At(seq, k)]
        return [IntAsValTrig(k)]

    def _elem_sort_of(self, seq):
        for th in __import__('pyvc.theory', fromlist=['x']).all_theories():
            if th.S == seq.sort(): return th.E
        raise Unsupported('unknown sequence sort')

    def flatcomp(self, e, st, hint):
        raise Unsupported('nested comprehension (handled by specialised patterns only)')

    def dictcomp(self, e, st, hint):
        raise Unsupported('dict comprehension')

    # ------------------------------------------------------------------------------------------- calls
    def call(self, c, st, hint=None):
        f = c.func
        if isinstance(f, ast.Name): return self.call_name(c, f.id, st, hint)
        if isinstance(f, ast.Attribute): return self.call_method(c, f, st, hint)
        raise Unsupported('call ' + ast.unparse(c)[:60])

    def call_name(self, c, name, st, hint):
        A = c.args
        if name == 'len':
            v = self.expr(A[0], st); self.need_not_none(st, v, ast.unparse(A[0])); v = v if isinstance(getattr(v, 't', None), TDict) else self.as_list(v)
            if isinstance(v.t, TDict): return PV(INT, v.t.kth().Len(v.t.keys(self.term(st, v))))
            if isinstance(v.t, TList): return PV(INT, v.t.th().Len(self.term(st, v)))
            raise Unsupported('len of %r' % (v.t,))
        if name == 'list' and len(A) == 1:
            # list(set(xs)) : arbitrary permutation of the distinct elements
            if isinstance(A[0], ast.Call) and isinstance(A[0].func, ast.Name) and A[0].func.id == 'set':
                v = self.as_list(self.expr(A[0].args[0], st)); th = v.t.th(); s = self.term(st, v); R = FreshConst(th.S, 'setlist'); x = FreshConst(th.E, 'x')
                st.pc += [th.Nodup(R), ForAll([x], th.Has(R, x) == th.Has(s, x), patterns=[th.Has(R, x)]), th.Len(R) <= th.Len(s),
                          (th.Len(R) == th.Len(s)) == th.Nodup(s)]
                return self.new_root(st, v.t, R)
            v = self.expr(A[0], st); self.need_not_none(st, v, ast.unparse(A[0]))
            if self.is_opq(v): return self.new_root(st, LVAL, OpqAsList(v.term))          # list(<library value>): its elements in iteration order (ASSUMED function of the value)
            if isinstance(v, PRef) and isinstance(v.t, TDict): return self.new_root(st, TList(v.t.k), v.t.keys(self.term(st, v)))
            v = self.as_list(v)
            if isinstance(v, PRef) and isinstance(v.t, TList): return self.new_root(st, v.t, self.term(st, v))
        if name == 'dict' and len(A) == 1:
            a = A[0]
            if isinstance(a, ast.Call) and isinstance(a.func, ast.Attribute) and a.func.attr == 'items': a = a.func.value
            v = self.expr(a, st)
            if isinstance(v, PRef) and isinstance(v.t, TDict):
                self.need_not_none(st, v, ast.unparse(a))
                return self.new_root(st, v.t, self.term(st, v))
        if name in ('isinstance', 'hasattr'): return self.static_type_test(c, name, st)
        if name == 'any' or name == 'all': return self.any_all(c, name, st)
        if name in ('max', 'min') and len(A) == 2:
            a, b = self.expr(A[0], st), self.expr(A[1], st); t = REAL if isinstance(a.t, TReal) or isinstance(b.t, TReal) or self.is_opq(a) or self.is_opq(b) else INT
            x, y = self.coerce(st, a, t), self.coerce(st, b, t)
            return PV(t, If(x >= y, x, y) if name == 'max' else If(x <= y, x, y))
        if name == 'abs':
            a = self.expr(A[0], st); return PV(a.t, If(a.term >= 0, a.term, -a.term))
        if name == 'bool':
            t = self.cond(A[0], st); return PV(BOOL, BoolVal(t) if isinstance(t, bool) else t)
        if name == 'round' and A:
            a0 = self.expr(A[0], st)
            if self.is_opq(a0): return self.opq(st, 'fn_round', [a0] + [PV(OPQ, self.coerce(st, self.expr(x, st), OPQ)) for x in A[1:]])          # round(<library number>, n): a library value
        if name == 'tqdm': return self.expr(A[0], st, hint)
        ctors = [sp for sp in self.specs.values() if sp.constructs is not None and sp.constructs.name == name]
        if ctors: return self.call_constructor(ctors, c, st)
        cands = [sp for sp in self.specs.values() if sp.qual == name and sp.constructs is None]
        if cands:
            given = len(c.args); kws = {kw.arg for kw in c.keywords}
            def fits(sp):
                missing = [p for i, (p, _) in enumerate(sp.params) if i >= given and p not in kws]
                return all(p in sp.defaults for p in missing)
            def types_fit(sp):
                for a, (pn, pt) in zip(c.args, sp.params):
                    at = self.expr_type_peek(a, st)
                    if at is None or pt is None: continue
                    if isinstance(at, TObj) and at.as_list and isinstance(pt, TList): continue
                    if at != pt: return False
                return True
            ok = [sp for sp in cands if fits(sp) and types_fit(sp)]
            if not ok: raise Unsupported('no overload of %s fits the call %s' % (name, ast.unparse(c)[:60]))
            return self.call_contract(ok[0], c, None, st)
        if name in self.spec.opaque_functions:
            # (a comprehension handed to a library function needs a declared type: contract `locals` entry '$<function>.arg<i>')
            args = [self.expr(a, st, hint=(self.spec.locals or {}).get('$%s.arg%d' % (name, i))) for i, a in enumerate(c.args)] + [self.expr(kw.value, st) for kw in c.keywords if kw.arg]
            return self.opq(st, 'fn_%s_%s' % (name, '_'.join(kw.arg for kw in c.keywords if kw.arg)), [a if self.is_opq(a) else PV(OPQ, self.coerce(st, a, OPQ)) for a in args])
        raise Unsupported('call of ' + name)

    def static_type_test(self, c, name, st):
        v = self.expr(c.args[0], st)
        t = getattr(v, 't', None)
        if name == 'hasattr':
            attr = c.args[1].value
            return PV(BOOL, BoolVal(isinstance(t, TObj) and (t.has_field(attr))))
        cls = ast.unparse(c.args[1])
        if isinstance(v, PNone): return PV(BOOL, BoolVal(False))
        table = {'ndarray': lambda t: False, 'dict': lambda t: isinstance(t, TDict),
                 'list': lambda t: isinstance(t, TList) or (isinstance(t, TObj) and t.as_list is not None),
                 'GroupedList': lambda t: isinstance(t, TObj) and t.name == 'GroupedList'}
        if cls in table and t is not None and not isinstance(t, (TVal, TAny)):
            if getattr(v, 'none', False) is not False: raise Unsupported('isinstance on maybe-None')
            return PV(BOOL, BoolVal(bool(table[cls](t))))
        if cls == 'str' and isinstance(t, TVal): return PV(BOOL, IsStr(v.term))
        if isinstance(t, TVal) and cls in self.spec.isinstance_preds: return PV(BOOL, self.spec.isinstance_preds[cls](v.term))
        raise Unsupported('isinstance(%s, %s)' % (ast.unparse(c.args[0]), cls))

    def any_all(self, c, name, st):
        a = c.args[0]
        if isinstance(a, ast.GeneratorExp) and len(a.generators) == 1:
            gen = a.generators[0]; k = FreshConst(IntSort(), 'qi')
            sub, lo, hi, seq = self.comp_env(gen, st, k)
            n0 = len(st.pc)
            conds = [self.cond(x, sub) for x in gen.ifs]
            body = self.cond(a.elt, sub)
            body = BoolVal(body) if isinstance(body, bool) else body
            conds = [BoolVal(x) if isinstance(x, bool) else x for x in conds]
            defs = [f for f in sub.pc[len(st.pc) + 2:]]
            rng = And(lo <= k, k < hi, *conds)
            pats = self.comp_patterns(seq, k, st, gen)
            r = FreshConst(BoolSort(), name)
            if name == 'all':
                W = FreshConst(IntSort(), 'allw')     # counter-example witness
                from z3 import substitute
                st.pc.append(Implies(r, ForAll([k], Implies(And(rng, *defs), body), patterns=pats)))
                st.pc.append(Or(r, substitute(And(rng, *defs, Not(body)), (k, W))) if not defs else Or(r, BoolVal(True)))
            else:
                W = FreshConst(IntSort(), 'anyw')
                from z3 import substitute
                st.pc.append(Implies(Not(r), ForAll([k], Implies(And(rng, *defs), Not(body)), patterns=pats)))
                st.pc.append(Or(Not(r), substitute(And(rng, *defs, body), (k, W))) if not defs else Or(Not(r), BoolVal(True)))
            return PV(BOOL, r)
        v = self.as_list(self.expr(a, st))
        if isinstance(v, PRef) and isinstance(v.t, TList):
            th = v.t.th(); s = self.term(st, v); k = FreshConst(IntSort(), 'qi'); r = FreshConst(BoolSort(), name); W = FreshConst(IntSort(), 'w')
            et = v.t.elem
            tr = (lambda x: Truthy(x)) if isinstance(et, TVal) else ((lambda x: x) if isinstance(et, TBool) else None)
            if tr is None: raise Unsupported('any/all over list of %r' % (et,))
            if name == 'any':
                st.pc.append(Implies(Not(r), ForAll([k], Implies(And(0 <= k, k < th.Len(s)), Not(tr(th.At(s, k)))), patterns=[th.At(s, k)])))
                st.pc.append(Implies(r, And(0 <= W, W < th.Len(s), tr(th.At(s, W)))))
            else:
                st.pc.append(Implies(r, ForAll([k], Implies(And(0 <= k, k < th.Len(s)), tr(th.At(s, k))), patterns=[th.At(s, k)])))
                st.pc.append(Implies(Not(r), And(0 <= W, W < th.Len(s), Not(tr(th.At(s, W))))))
            return PV(BOOL, r)
        raise Unsupported(name + ' over ' + ast.unparse(a)[:40])

    # ---- methods
    def call_method(self, c, f, st, hint):
        # super().m(...)
        if isinstance(f.value, ast.Call) and isinstance(f.value.func, ast.Name) and f.value.func.id == 'super':
            return self.call_super(c, f.attr, st)
        if isinstance(f.value, ast.Name) and f.value.id not in st.env and (f.value.id + '.' + f.attr) in self.specs:
            return self.call_contract(self.specs[f.value.id + '.' + f.attr], c, None, st)          # e.g. float.is_integer(v)
        if isinstance(f.value, ast.Name) and isinstance(st.env.get(f.value.id), PPool):
            # ASSUMED contract of multiprocessing (option pool_model): pool.apply_async(g, (a, b, ...)) hands back a result object whose .get() is g(a, b, ...).  The
            # result object is modelled by that value itself, the call is checked against g's contract (g must be `deterministic`: its result is a function of its arguments).
            if f.attr == 'apply_async' and len(c.args) == 2 and isinstance(c.args[0], ast.Name) and isinstance(c.args[1], ast.Tuple) and not c.keywords:
                return self.call_name(ast.Call(func=c.args[0], args=list(c.args[1].elts), keywords=[]), c.args[0].id, st, hint)
            if (f.attr == 'imap_unordered' and len(c.args) == 2 and not c.keywords and isinstance(c.args[0], ast.Call) and isinstance(c.args[0].func, ast.Name) and c.args[0].func.id == 'partial'
                    and len(c.args[0].args) == 1 and isinstance(c.args[0].args[0], ast.Name)):
                # ASSUMED contract of multiprocessing (option pool_model): pool.imap_unordered(partial(g, **kw), xs) yields the values g(x, **kw), x in xs, in an ARBITRARY order:
                # a list R with len(R) == len(xs) holding exactly the members of [g(x, **kw) for x in xs] (duplicate-free when that list is).  g must be `deterministic`.
                comp = ast.ListComp(elt=ast.Call(func=c.args[0].args[0], args=[ast.Name(id='pool_x__', ctx=ast.Load())], keywords=c.args[0].keywords),
                                    generators=[ast.comprehension(target=ast.Name(id='pool_x__', ctx=ast.Store()), iter=c.args[1], ifs=[], is_async=0)])
                ast.fix_missing_locations(comp)
                r0 = self.expr(comp, st, hint=hint)
                if not (isinstance(r0, PRef) and isinstance(r0.t, TList)): raise Unsupported('imap_unordered result type')
                th = r0.t.th(); R0 = self.term(st, r0); R = FreshConst(th.S, 'unordered'); x = FreshConst(th.E, 'x')
                st.pc += [th.Len(R) == th.Len(R0), ForAll([x], th.Has(R, x) == th.Has(R0, x), patterns=[th.Has(R, x)]), Implies(th.Nodup(R0), th.Nodup(R))]
                return self.new_root(st, r0.t, R)
            raise Unsupported('pool method ' + ast.unparse(c)[:60])
        recv = self.expr(f.value, st)
        if isinstance(recv, PRef): self.need_not_none(st, recv, ast.unparse(f.value))
        m = f.attr
        if self.spec.pool_model and m == 'get' and not c.args and not c.keywords and isinstance(recv, (PV, PTup)) and not self.is_opq(recv) and not isinstance(getattr(recv, 't', None), TDict):
            return recv          # AsyncResult.get()  (see apply_async above)
        if self.is_opq(recv):
            args = [self.expr(a, st) for a in c.args] + [self.expr(kw.value, st) for kw in c.keywords if kw.arg]
            return self.opq(st, 'meth_%s_%s' % (m, '_'.join(kw.arg for kw in c.keywords if kw.arg)), [recv] + [a if self.is_opq(a) else PV(OPQ, self.coerce(st, a, OPQ)) for a in args])
        if isinstance(recv, PRef) and isinstance(recv.t, TObj):
            q = recv.t.name + '.' + m
            if q in self.specs: return self.call_contract(self.specs[q], c, recv, st)
            if recv.t.as_list: return self.list_method(c, m, self.as_list(recv), st)
            raise Unsupported('method without contract: ' + q)
        if isinstance(recv, PRef) and isinstance(recv.t, TList): return self.list_method(c, m, recv, st)
        if isinstance(recv, PRef) and isinstance(recv.t, TDict): return self.dict_method(c, m, recv, st, hint)
        raise Unsupported('method call ' + ast.unparse(c)[:60])

    def list_method(self, c, m, recv, st):
        th = recv.t.th(); cur = self.term(st, recv); et = recv.t.elem
        if m == 'remove':
            x = self.coerce(st, self.expr(c.args[0], st, hint=et), et)
            self.oblige(st, 'safety', 'list.remove-present[%s]' % ast.unparse(c), th.Has(cur, x))
            self.write_path(st, recv.root, recv.path, th.Rm(cur, x)); return PNone()
        if m == 'append':
            v = self.expr(c.args[0], st, hint=et); self.write_path(st, recv.root, recv.path, th.App(cur, th.One(self.coerce(st, v, et)))); self.escape(st, v); return PNone()
        if m == 'index':
            x = self.coerce(st, self.expr(c.args[0], st, hint=et), et)
            self.oblige(st, 'safety', 'list.index-present[%s]' % ast.unparse(c), th.Has(cur, x)); return PV(INT, th.Idx(cur, x))
        if m == 'copy': return self.new_root(st, recv.t, cur)
        raise Unsupported('list method ' + m)

    def dict_method(self, c, m, recv, st, hint):
        t = recv.t; th = t.kth(); cur = self.term(st, recv)
        if m == 'get':
            k = self.coerce(st, self.expr(c.args[0], st, hint=t.k), t.k); present = t.has(cur, k)
            if len(c.args) == 1:
                if isinstance(t.v, (TList, TDict, TObj)): return PRef(t.v, recv.root, recv.path + (('key', k),), none=Not(present))
                return PV(t.v, t.get(cur, k), none=Not(present))
            d = self.expr(c.args[1], st, hint=t.v)
            if isinstance(d, PNone):
                if isinstance(t.v, (TList, TDict, TObj)): return PRef(t.v, recv.root, recv.path + (('key', k),), none=Not(present))
                return PV(t.v, t.get(cur, k), none=Not(present))
            dv = self.coerce(st, d, t.v)
            return self.from_term(st, t.v, If(present, t.get(cur, k), dv), frozen=True)
        if m == 'pop':
            if getattr(recv, 'shallow_copy', False): raise Unsupported('aliasing: key set of a shallow dict copy is changed')
            k = self.coerce(st, self.expr(c.args[0], st, hint=t.k), t.k)
            if len(c.args) == 1: self.oblige(st, 'safety', 'dict.pop-present[%s]' % ast.unparse(c), t.has(cur, k))
            val = t.get(cur, k)
            if isinstance(t.v, (TList, TDict, TObj)): self.note_rebind(st, recv.root, recv.path + (('key', k),))
            nk = FreshConst(th.S, 'ks'); st.pc.append(nk == If(t.has(cur, k), th.Rm(t.keys(cur), k), t.keys(cur)))
            self.write_path(st, recv.root, recv.path, t.mk(nk, t.map(cur)))
            return self.from_term(st, t.v, val, frozen=True)
        if m == 'update':
            a = c.args[0]
            if isinstance(a, ast.Dict):
                pairs = []
                for kx, vx in zip(a.keys, a.values):                 # Python evaluates the whole literal BEFORE update() stores anything
                    k = self.expr(kx, st, hint=t.k); v = self.expr(vx, st, hint=t.v)
                    pairs.append((self.coerce(st, k, t.k), self.coerce(st, v, t.v), v))
                for kt, vt, v in pairs:
                    self.dict_set(st, recv, kt, vt, value=v); self.escape(st, v, 'dict entry')
                return PNone()
            o = self.expr(a, st, hint=t)
            if isinstance(o, PRef) and isinstance(o.t, TDict) and o.t == t:
                ot = self.term(st, o); R = FreshConst(t.sort(), 'upd'); x = FreshConst(t.k.sort(), 'x')
                # keys: old keys in order, then the new ones of `o` in o's order; values: o's where present
                st.pc += [th.Prefix(t.keys(cur), t.keys(R)), th.Nodup(t.keys(R)) == And(th.Nodup(t.keys(cur)), BoolVal(True)) if False else BoolVal(True),
                          ForAll([x], th.Has(t.keys(R), x) == Or(th.Has(t.keys(cur), x), th.Has(t.keys(ot), x)), patterns=[th.Has(t.keys(R), x)]),
                          ForAll([x], t.get(R, x) == If(th.Has(t.keys(ot), x), t.get(ot, x), t.get(cur, x)), patterns=[t.get(R, x)]),
                          Implies(And(th.Nodup(t.keys(cur)), th.Nodup(t.keys(ot))), th.Nodup(t.keys(R))),
                          # no new key unless `o` brings one (witness W)
                          (lambda W: Or(t.keys(R) == t.keys(cur), And(th.Has(t.keys(ot), W), Not(th.Has(t.keys(cur), W)))))(FreshConst(t.k.sort(), 'newkey'))]
                self.write_path(st, recv.root, recv.path, R); self.escape(st, o, 'dict.update'); return PNone()
        if m in ('items', 'keys', 'values'):
            raise Unsupported('dict.%s() outside an iteration' % m)
        raise Unsupported('dict method ' + m)

    def call_super(self, c, m, st):
        selfv = st.env['self']
        if isinstance(selfv.t, TObj) and selfv.t.as_list:
            lst = self.as_list(selfv)
            if m == '__init__':
                v = self.as_list(self.expr(c.args[0], st))
                if isinstance(v, PRef) and isinstance(v.t, TDict): raise Unsupported('list(dict)')
                self.write_path(st, lst.root, lst.path, self.term(st, v)); return PNone()
            return self.list_method(c, m, lst, st)
        q = 'super.' + m
        if q in self.specs: return self.call_contract(self.specs[q], c, selfv, st)
        raise Unsupported('super().' + m)

    def call_contract(self, C, c, recv, st):
        names = [p for p, _ in C.params]
        args = {}
        pos = list(names)
        if recv is not None:
            args[pos[0]] = recv; pos = pos[1:]
        ptypes = dict(C.params)
        for n, a in zip(pos, c.args): args[n] = self.expr(a, st, hint=ptypes[n])
        for kw in c.keywords:
            if kw.arg is None:
                if 'kwargs' in ptypes: args['kwargs'] = self.expr(kw.value, st)          # **kwargs handed on
                continue
            args[kw.arg] = self.expr(kw.value, st, hint=ptypes.get(kw.arg))
        for (n, t) in C.params:
            if n not in args:
                if n not in C.defaults: raise Unsupported('missing argument %s of %s' % (n, C.qual))
                d = C.defaults[n]; args[n] = PNone() if d is None else PV(t, d)
        old = {}
        for n, v in args.items():
            if isinstance(v, PNone):
                if ptypes[n] is not None: raise Unsupported('None passed for %s of %s (overload not declared)' % (n, C.qual))
                old[n] = None
            else:
                if ptypes[n] is None: raise Unsupported('non-None passed for %s of %s (overload declared None)' % (n, C.qual))
                self.need_not_none(st, v, n)
                if isinstance(ptypes[n], TList) and isinstance(getattr(v, 't', None), TObj): v = self.as_list(v)
                old[n] = self.coerce(st, v, ptypes[n])
        for gname, mk in C.ghost.items(): old[gname] = mk(old)
        self.oblige(st, 'call', C.qual + '.pre', C.requires(old))
        if C.qual == self.fname and C.decreases is not None:
            self.oblige(st, 'call', C.qual + '.decreases', And(C.decreases(old) < C.decreases(self.old), C.decreases(old) >= 0))
        # exceptional exits of the callee are excluded by obligation unless the caller's contract allows the same exception
        self.callee_raises(C, old, st)
        new = {}
        for n in C.modifies:
            v = args[n]
            if not isinstance(v, PRef): raise Unsupported('callee modifies a non-object')
            fresh = FreshConst(v.t.sort(), 'm_' + n); self.write_path_raw(st, v, fresh); new[n] = fresh
        for n in names:
            if n not in new and isinstance(args.get(n), PRef): new[n] = old[n]
        rt = C.returns
        res = FreshConst(rt.sort(), 'r') if rt is not None else None
        if rt is not None and C.deterministic:
            # ASSUMED (contract option `deterministic`): the result is a function of the arguments -- two calls with equal arguments give equal results
            if C.modifies: raise Unsupported('deterministic callee that modifies its arguments')
            ats = [old[n] for n in names if old.get(n) is not None]
            res = Function('res_' + ''.join(ch if ch.isalnum() else '_' for ch in C.name), *([a.sort() for a in ats] + [rt.sort()]))(*ats)
        import inspect
        ens = C.ensures(old, new, res, None) if len(inspect.signature(C.ensures).parameters) >= 4 else C.ensures(old, new, res)     # (a caller never sees the callee's locals)
        for label, g in ens: st.pc.append(g)
        if rt is None: return PNone()
        return self.from_term(st, rt, res, frozen=False)

    def callee_raises(self, C, old, st):
        """exceptional exits of the callee: excluded by obligation, or propagated if the caller's contract lists the exception"""
        for exc, cond in C.raises.items():
            if exc in self.spec.raises:
                bad = st.clone(); bad.pc.append(cond(old)); self.pending_raises.append((bad, exc)); st.pc.append(Not(cond(old)))
            else:
                self.oblige(st, 'call', '%s.no-%s' % (C.name, exc), Not(cond(old)))

    def call_constructor(self, ctors, c, st):
        """Class(arg): overload chosen by the static type of the argument; the new object is a fresh root"""
        hint = ctors[0].params[1][1]
        if c.args and isinstance(c.args[0], (ast.DictComp, ast.Dict)):
            hint = next((sp.params[1][1] for sp in ctors if isinstance(sp.params[1][1], TDict)), hint)
        arg = self.expr(c.args[0], st, hint=hint) if c.args else None
        at = self.type_of(arg) if arg is not None else None
        C = next((sp for sp in ctors if (len(sp.params) > 1 and sp.params[1][1] == at)), None)
        if C is None: raise Unsupported('no constructor overload of %s for %r' % (ctors[0].constructs.name, at))
        T = C.constructs
        self.need_not_none(st, arg, 'constructor argument')
        old = {C.params[1][0]: self.term(st, arg)}
        self.oblige(st, 'call', C.name + '.pre', C.requires(old))
        self.callee_raises(C, old, st)
        obj = FreshConst(T.sort(), 'new'); new = {'self': obj, C.params[1][0]: old[C.params[1][0]]}
        for label, g in C.ensures(old, new, None): st.pc.append(g)
        return self.from_term(st, T, obj, frozen=False)

    def write_path_raw(self, st, ref, fresh):
        if ref.root in st.frozen: raise Unsupported('aliasing: callee mutates an escaped object (%s)' % st.frozen[ref.root])
        if not ref.path:
            st.store[ref.root] = fresh
        else:
            self.write_path(st, ref.root, ref.path, fresh)


IsStr = Function('IsStr', Val, BoolSort())
NumpyDiv = Function('NumpyDiv', RealSort(), RealSort(), RealSort())        # x / y on numpy scalars (inf / nan instead of an exception)
IntAsValTrig = Function('IdxTrig', IntSort(), BoolSort())


# ------------------------------------------------------------------------------------------------- opaque library values
OPQ = TOpaque('Opq')
OpqReal = Function('OpqAsReal', OPQ.sort(), RealSort()); OpqInt = Function('OpqAsInt', OPQ.sort(), IntSort()); OpqTruth = Function('OpqTruth', OPQ.sort(), BoolSort())
OpqVal = Function('OpqAsVal', OPQ.sort(), Val)
OpqAsList = Function('OpqAsList', OPQ.sort(), LVAL.sort())          # the elements of an iterable library value, in iteration order
_opq_fns = {}


def opaque_apply(tag, terms):
    """value of a library operation: an uninterpreted function, keyed by the operation, of the values it is applied to (pure, deterministic: DESIGN 3.4)"""
    sig = tuple(str(t.sort()) for t in terms); key = (tag, sig)
    if key not in _opq_fns:
        _opq_fns[key] = Function('lib_%s_%d' % (''.join(ch if ch.isalnum() else '_' for ch in tag)[:40], len(_opq_fns)), *([t.sort() for t in terms] + [OPQ.sort()]))
    return _opq_fns[key](*terms) if terms else Const('libc_%s' % tag, OPQ.sort())
