import sys, os, shutil, tempfile, importlib
from pyvc.run import run_module
mod = importlib.import_module(sys.argv[1]); bad_total = 0
for (cmod, file, old, new, mode) in mod.CASES:
    src = open('/repo/' + file).read()
    if src.count(old) < 1: print('PATTERN NOT FOUND', repr(old)[:60]); continue
    tmp = tempfile.mkdtemp(prefix='pvh_')
    try:
        shutil.copytree('/repo/AutoCarver', tmp + '/AutoCarver')
        open(tmp + '/' + file, 'w').write(src.replace(old, new) if mode == 'ALL' else src.replace(old, new, 1))
        res = run_module(cmod, None, repo=tmp, verbose=False)
    finally: shutil.rmtree(tmp)
    bad = [(q, v['status'] + ' ' + v.get('detail', '')[:80]) for q, v in res.items() if v['status'] == 'UNSUPPORTED'] + [(o['name'], o['status']) for q, v in res.items() for o in v['obligations'] if o['status'] not in ('discharged', 'canary-ok')]
    print('OK   ' if not bad else 'FALSE-ALARM', cmod, repr(old)[:50], '->', repr(new)[:50]); [print('        ', b) for b in bad[:3]]; bad_total += bool(bad)
print('false alarms:', bad_total, 'of', len(mod.CASES))
