"""semantics-preserving rewrites of the functions put under contract in the third session (contracts.unseen / pool / summary / quantile_fit)"""
BD = 'AutoCarver/discretizers/utils/base_discretizers.py'; QN = 'AutoCarver/discretizers/utils/quantitative_discretizers.py'
CASES = [
 ('contracts.unseen', BD, 'feature_values', 'fitted_order', 'ALL'),                                                                           # rename a local
 ('contracts.unseen', BD, '        if nan_value != str_nan:\n            df_feature[nans] = nan_value', '        if not (nan_value == str_nan):\n            df_feature[nans] = nan_value', None),
 ('contracts.unseen', BD, '    values_to_group = [df_feature <= value for value in feature_values if value != str_nan]', '    values_to_group = [df_feature <= value for value in feature_values if not value == str_nan]', None),
 ('contracts.unseen', BD, '    if len(values_to_group) > 0:', '    if len(values_to_group) >= 1:', None),
 ('contracts.unseen', BD, '        df_feature[nans] = labels_per_values[feature].get(nan_value, str_nan)', '        df_feature[nans] = labels_per_values[feature].get(nan_value, nan_value)', None),   # (default used only when nan_value == str_nan)
 ('contracts.unseen', BD, '            assert len(unexpected) == 0, (\n                " - [Discretizer] Unexpected value! The ordering', '            assert not len(unexpected) > 0, (\n                " - [Discretizer] Unexpected value! The ordering', None),
 ('contracts.pool', BD, 'all_transformed_async', 'pending', 'ALL'),
 ('contracts.pool', BD, '        if self.n_jobs <= 1:\n            all_transformed = [', '        if not self.n_jobs > 1:\n            all_transformed = [', None),
 ('contracts.summary', BD, '                if not (not feature_dropna and value == self.str_nan):', '                if feature_dropna or value != self.str_nan:', None),
 ('contracts.summary', BD, '                        feature_summary.update({"content": raw_labels_per_values[feature][value]})', '                        feature_summary["content"] = raw_labels_per_values[feature][value]', None),
 ('contracts.summary', BD, '                                    summaries += [feature_summary]', '                                    summaries.append(feature_summary)', None),
 ('contracts.quantile_fit', QN, '    order = GroupedList(quantiles + [inf])', '    bounds = quantiles + [inf]\n    order = GroupedList(bounds)', None),
]
