CONTRACTS = 'contracts.base_discretizers'
F = 'AutoCarver/discretizers/utils/base_discretizers.py'
D = 'AutoCarver/discretizers/discretizers.py'
MUTANTS = [
 (F, '                self.input_dtypes.pop(feature)', '                pass', None),
 (F, '            casting.remove(feature)', '            pass', None),
 (F, '            if len(self.features_casting.get(raw_feature)) == 0:', '            if len(self.features_casting.get(raw_feature)) == 1:', None),
 (D, '            if feature in self.non_ordinal_features:\n                self.non_ordinal_features.remove(feature)', '            pass', None),
 (D, '            if feature in self.ordinal_features:\n                self.ordinal_features.remove(feature)', '            pass', None),
 # harmless: swap two independent blocks
 (F, '            if feature in self.qualitative_features:\n                self.qualitative_features.remove(feature)\n            if feature in self.quantitative_features:\n                self.quantitative_features.remove(feature)',
     '            if feature in self.quantitative_features:\n                self.quantitative_features.remove(feature)\n            if feature in self.qualitative_features:\n                self.qualitative_features.remove(feature)', None),
]
