CONTRACTS = 'contracts.unseen'
B = 'AutoCarver/discretizers/utils/base_discretizers.py'
MUTANTS = [
 (B, '    values_to_group = [df_feature <= value for value in feature_values if value != str_nan]', '    values_to_group = [df_feature <= value for value in feature_values if value == str_nan]', None),
 (B, '    values_to_group = [df_feature <= value for value in feature_values if value != str_nan]', '    values_to_group = [df_feature < value for value in feature_values if value != str_nan]', None),
 (B, '    values_to_group = [df_feature <= value for value in feature_values if value != str_nan]', '    values_to_group = [df_feature <= value for value in feature_values]', None),
 (B, '        assert feature_values.contains(str_nan), (\n            " - [Discretizer] Unexpected value! Missing', '        assert feature_values.contains(feature), (\n            " - [Discretizer] Unexpected value! Missing', None),
 (B, '        assert feature_values.contains(str_nan), (\n            " - [Discretizer] Unexpected value! Missing', '        assert str_nan in feature_values, (\n            " - [Discretizer] Unexpected value! Missing', None),
 (B, '        if nan_value != str_nan:\n            df_feature[nans] = nan_value', '        if nan_value == str_nan:\n            df_feature[nans] = nan_value', None),
 (B, '        if nan_value != str_nan:\n            df_feature[nans] = nan_value', '        if nan_value != str_nan:\n            df_feature[nans] = str_nan', None),
 (B, '        df_feature[nans] = labels_per_values[feature].get(nan_value, str_nan)', '        df_feature[nans] = labels_per_values[feature].get(str_nan, str_nan)', None),
 (B, '        df_feature[nans] = labels_per_values[feature].get(nan_value, str_nan)', '        df_feature[nans] = labels_per_values[feature].get(nan_value, nan_value)', None),
 (B, '        [labels_per_values[feature][value]] * x_len for value in feature_values if value != str_nan', '        [labels_per_values[feature][value]] * 1 for value in feature_values if value != str_nan', None),
 (B, '        [labels_per_values[feature][value]] * x_len for value in feature_values if value != str_nan', '        [value] * x_len for value in feature_values if value != str_nan', None),
 (B, '    if len(values_to_group) > 0:\n        df_feature = select(values_to_group, group_labels, default=df_feature)', '    if len(values_to_group) > 1:\n        df_feature = select(values_to_group, group_labels, default=df_feature)', None),
 (B, '        df_feature = select(values_to_group, group_labels, default=df_feature)', '        df_feature = select(values_to_group, group_labels, default=nans)', None),
 (B, '    return feature, list(df_feature)', '    return str_nan, list(df_feature)', None),
 (B, '            assert len(unexpected) == 0, (', '            assert len(unexpected) <= 1, (', None),
 (B, "                val for val in uniques[feature] if val not in self.values_orders[feature].values()\n            ]", "                val for val in uniques[feature] if val not in self.values_orders[feature]\n            ]", None),
 (B, "                val for val in uniques[feature] if val not in self.values_orders[feature].values()\n            ]", "                val for val in uniques[feature] if val not in self.values_orders[feature].values() and val != self.str_nan\n            ]", None),
 (B, "        for feature in features:\n            # unexpected values for this feature", "        for feature in features[1:]:\n            # unexpected values for this feature", None),
]
