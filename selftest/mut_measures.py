CONTRACTS = 'contracts.measures'
F = 'AutoCarver/selectors/measures/qualitative_measures.py'
MUTANTS = [
 ('AutoCarver/carvers/binary_carver.py', '        tschuprowt = cramerv / sqrt(sqrt(n_mod_x - 1))', '        tschuprowt = cramerv / sqrt(n_mod_x - 1)', ['BinaryCarver._association_measure']),
 (F, '    dof_mods = sqrt((n_mod_x - 1) * (n_mod_y - 1))', '    dof_mods = (n_mod_x - 1) * (n_mod_y - 1)', ['tschuprowt_measure']),
 (F, '        tschuprowt = sqrt(chi2_statistic / n_obs / dof_mods)', '        tschuprowt = sqrt(chi2_statistic / dof_mods)', ['tschuprowt_measure']),
 (F, '    cramerv = sqrt(chi2_statistic / n_obs / (min_n_mod - 1))', '    cramerv = sqrt(chi2_statistic / n_obs / min_n_mod)', ['cramerv_measure']),
 (F, '    measurement.update({"tschuprowt_measure": tschuprowt})', '    measurement.update({"tschuprowt": tschuprowt})', ['tschuprowt_measure']),
 (F, '    if dof_mods > 0:', '    if dof_mods >= 0:', ['tschuprowt_measure']),
]
