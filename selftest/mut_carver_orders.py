CONTRACTS = 'contracts.carver_orders'
F = 'AutoCarver/carvers/base_carver.py'
MUTANTS = [
 (F, '                quantitative_features=[feature] if feature in self.quantitative_features else [],', '                quantitative_features=[],', None),
 (F, '            str_nan=self.str_nan,\n            dropna=False,\n        )\n\n        return labels_orders', '            str_nan=self.str_nan,\n            dropna=True,\n        )\n\n        return labels_orders', None),
 (F, '        # updating label_orders\n        labels_orders.update({feature: new_order})\n', '', None),
 (F, '        # updating labels\n        labels_orders = convert_to_labels(\n            features=self.features,', '        # updating labels\n        labels_orders = convert_to_labels(\n            features=[feature],', None),
 (F, '                features=[feature],\n                quantitative_features=[feature] if feature in self.quantitative_features else [],', '                features=self.features,\n                quantitative_features=self.quantitative_features,', None),
]
