CONTRACTS = 'contracts.regions'
Q = 'AutoCarver/discretizers/discretizers.py'; C = 'AutoCarver/discretizers/utils/qualitative_discretizers.py'
MUTANTS = [
 (Q, '                if any(x_copy[feature].isna()) and (not order.contains(self.str_nan)):', '                if any(x_copy[feature].isna()) and (self.str_nan not in order):', None),          # defect D30
 (Q, '                if any(x_copy[feature].isna()) and (not order.contains(self.str_nan)):', '                if not order.contains(self.str_nan):', None),
 (C, '                        if unknown_value not in order:\n                            order.append(unknown_value)', '                        order.append(unknown_value)', None),             # defect D28
 (C, '                        if self.str_nan not in order:\n                            order.append(self.str_nan)\n                        # grouping unknown value with str_nan', '                        order.append(self.str_nan)\n                        # grouping unknown value with str_nan', None),   # defect D13
 (C, '                        order.group(unknown_value, self.str_nan)', '                        order.group(self.str_nan, unknown_value)', None),
 (C, '                if self.unknown_handling == "raise":', '                if self.unknown_handling == "drop":', None),
 (C, '                    self.values_orders.get(feature).group(discarded, kept)', '                    self.values_orders.get(feature).remove(discarded)', None),
 (C, '                if self.str_nan not in order:\n                    order.append(self.str_nan)\n                    self.values_orders.update({feature: order})', '                order.append(self.str_nan)\n                self.values_orders.update({feature: order})', None),
]
