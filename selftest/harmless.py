"""semantics-preserving rewrites of contracted functions: engine P must keep every obligation discharged (a failure here is a false alarm of the prover)"""
GL = 'AutoCarver/discretizers/utils/grouped_list.py'; BC = 'AutoCarver/carvers/base_carver.py'; BD = 'AutoCarver/discretizers/utils/base_discretizers.py'
QD = 'AutoCarver/discretizers/utils/qualitative_discretizers.py'; DD = 'AutoCarver/discretizers/discretizers.py'
CASES = [
 ('contracts.grouped_list', GL, 'content_discarded', 'members_of_discarded', 'ALL'),                       # rename a local
 ('contracts.grouped_list', GL, '        value = self[idx]\n        self.remove(value)', '        self.remove(self[idx])', None),
 ('contracts.grouped_list', GL, '        self += [new_value]\n        self.content.update({new_value: [new_value]})', '        self.content.update({new_value: [new_value]})\n        self += [new_value]', None),
 ('contracts.grouped_list', GL, '        super().remove(value)\n        self.content.pop(value)', '        self.content.pop(value)\n        super().remove(value)', None),
 ('contracts.grouped_list', GL, 'self.content.update({kept: content_discarded + content_kept, discarded: []})', 'self.content.update({discarded: [], kept: content_discarded + content_kept})', None),
 ('contracts.grouped_list', GL, '            keys_copy = keys[:]  # copying initial keys', '            keys_copy = list(keys)', None),
 ('contracts.grouped_list', GL, '        for discarded, kept in zip(to_discard, [to_keep] * len(to_discard)):\n            self.group(discarded, kept)', '        for discarded in to_discard:\n            self.group(discarded, to_keep)', None),
 ('contracts.base_carver', BC, 'next_idx', 'end_idx', 'ALL'),
 ('contracts.base_carver', BC, '        if next_idx < len(order) + 1:', '        if next_idx <= len(order):', None),
 ('contracts.base_carver', BC, '            new_combination = combination[:]\n            new_combination[n] = new_combination[n] + [str_nan]', '            new_combination = list(combination)\n            new_combination[n] = new_combination[n] + [str_nan]', None),
 ('contracts.base_carver', BC, '        nan_combis += nan_combination', '        nan_combis = nan_combis + nan_combination', None),
 ('contracts.base_carver', BC, '    order_copy = GroupedList(order)\n    for combi in combination:', '    order_copy = GroupedList(order)\n    unused = 0\n    for combi in combination:', None),
 ('contracts.base_discretizers', BD, '            casting = self.features_casting.get(raw_feature)\n            casting.remove(feature)', '            casting = self.features_casting[raw_feature]\n            casting.remove(feature)', None),
 ('contracts.base_discretizers', BD, '            if len(self.features_casting.get(raw_feature)) == 0:', '            if len(self.features_casting[raw_feature]) == 0:', None),
 ('contracts.qualitative', QD, '    if idx == 0:\n        return 1', '    if idx == 0:\n        return idx + 1', None),
 ('contracts.labels', BD, '                    label_per_value.update({value: label})', '                    label_per_value[value] = label', None),
 ('contracts.labels', BD, 'group_of_values', 'leader', 'ALL'),
 ('contracts.viability', BC, 'train_rates', 'rates_on_train', 'ALL'),
 ('contracts.viability', BC, '            train_viable = min_freq_train and distinct_rates_train', '            train_viable = distinct_rates_train and min_freq_train', None),
 ('contracts.viability', BC, '            if best_association is not None:\n                break', '            if best_association is None:\n                continue\n            break', None),
 ('contracts.viability', BC, '        best_association, train_viable, dev_viable = (None,) * 3', '        best_association = None\n        train_viable = None\n        dev_viable = None', None),
 ('contracts.conversion', BD, 'which_to_keep', 'finite_values', 'ALL'),
 ('contracts.conversion', BD, '                    kept_value = group_to_discard[0]', '                    kept_value = group_to_discard[-1]', None),          # (only missing markers in the group, duplicate-free: one element)
 ('contracts.conversion', BD, '        # updating ordering\n        values_orders.update({feature: order})\n\n    return values_orders', '    return values_orders', None),   # (order IS values_orders[feature])
 ('contracts.conversion', BD, '                order = labels_orders[feature]\n                order.append(str_nan)  # adding back nans at the end of the order\n                labels_orders.update({feature: order})', '                labels_orders[feature].append(str_nan)', None),
 ('contracts.update_discretizer', BD, '        values_orders = {k: v for k, v in self.values_orders.items()}\n        order = values_orders[feature]', '        order = self.values_orders[feature]', None),
]
