CONTRACTS = 'contracts.quantile_fit'
Q = 'AutoCarver/discretizers/utils/quantitative_discretizers.py'
MUTANTS = [
 (Q, '    order = GroupedList(quantiles + [inf])', '    order = GroupedList([inf] + quantiles)', None),
 (Q, '    order = GroupedList(quantiles + [inf])', '    order = GroupedList(quantiles)', None),
 (Q, '    order = GroupedList(quantiles + [inf])', '    order = GroupedList(quantiles + [inf, inf])', None),
 (Q, '    if any(X[feature].isna()):\n        order.append(str_nan)', '    if not any(X[feature].isna()):\n        order.append(str_nan)', None),
 (Q, '    if any(X[feature].isna()):\n        order.append(str_nan)', '    order.append(str_nan)', None),
 (Q, '    if any(X[feature].isna()):\n        order.append(str_nan)', '    if any(X[feature].isna()):\n        order.append(inf)', None),
 (Q, '    quantiles = find_quantiles(X[feature].values, q=q)', '    quantiles = find_quantiles(X[feature].values, q=q)[1:]', None),
 (Q, '    return (feature, order)', '    return (str_nan, order)', None),
]
