CONTRACTS = 'contracts.conversion'
F = 'AutoCarver/discretizers/utils/base_discretizers.py'
MUTANTS = [
 (F, '        feature: GroupedList([value for value in values_orders[feature] if value != str_nan])', '        feature: GroupedList([value for value in values_orders[feature]])', None),
 (F, '    # adding back nans if requested\n    if not dropna:', '    # adding back nans if requested\n    if dropna:', None),
 (F, '            if str_nan in values_orders[feature]:\n                order = labels_orders[feature]', '            if str_nan not in values_orders[feature]:\n                order = labels_orders[feature]', None),
 (F, '                        [quantiles_labels[feature][quantile] for quantile in labels_orders[feature]]', '                        [quantiles_labels[feature][quantile] for quantile in labels_orders[feature]][1:]', None),
 (F, '            {feature: {quantile: alias for quantile, alias in zip(quantiles, labels)}}', '            {feature: {alias: quantile for quantile, alias in zip(quantiles, labels)}}', None),
 (F, '        quantiles = list(values_orders[feature])\n        labels = get_labels(quantiles, str_nan)', '        quantiles = list(values_orders[feature])[1:]\n        labels = get_labels(quantiles, str_nan)', None),
 (F, '                order.append(str_nan)  # adding back nans at the end of the order\n                labels_orders.update({feature: order})', '                labels_orders.update({feature: order})', None),
 (F, '    if any(quantitative_features):\n        # getting group "name" per quantile\n        quantiles_labels, _ = get_quantiles_labels(quantitative_features, values_orders, str_nan)', '    if any(quantitative_features):\n        # getting group "name" per quantile\n        _, quantiles_labels = get_quantiles_labels(quantitative_features, values_orders, str_nan)', None),
 (F, '                if len(which_to_keep) > 0:', '                if any(which_to_keep):', None),
 (F, "                    if label_discarded != str_nan\n                    else str_nan", "                    if label_discarded == str_nan\n                    else str_nan", None),
 (F, '                    kept_value = group_to_discard[0]', '                    kept_value = group_to_discard[-1]', None),
 (F, '                which_to_keep = [value for value in group_to_discard if value != str_nan]', '                which_to_keep = [value for value in group_to_discard]', None),
 (F, '        _, labels_to_quantiles = get_quantiles_labels(quantitative_features, values_orders, str_nan)', '        labels_to_quantiles, _ = get_quantiles_labels(quantitative_features, values_orders, str_nan)', None),
 (F, '            order.group_list(group_to_discard, kept_value)', '            order.group_list(group_to_discard[1:], kept_value)', None),
 (F, '            if feature in quantitative_features:\n                # getting raw quantiles to be grouped', '            if feature not in quantitative_features:\n                # getting raw quantiles to be grouped', None),
 (F, '        groups_to_discard = label_orders[feature].content', '        groups_to_discard = values_orders[feature].content', None),
]
