CONTRACTS = 'contracts.viability'
F = 'AutoCarver/carvers/base_carver.py'
MUTANTS = [
 (F, '            # best combination found: breaking the loop on combinations\n            if best_association is not None:\n                break\n', '', None),            # last viable instead of first
 (F, '            train_viable = min_freq_train and distinct_rates_train', '            train_viable = min_freq_train or distinct_rates_train', None),
 (F, '            min_freq_train = all(train_rates["frequency"] >= self.min_freq_mod)', '            min_freq_train = all(train_rates["frequency"] > self.min_freq_mod)', None),
 (F, '                    dev_viable = ranks_train_dev and min_freq_dev and distinct_rates_dev', '                    dev_viable = ranks_train_dev and distinct_rates_dev', None),
 (F, '            if train_viable:\n                # case 0', '            if min_freq_train:\n                # case 0', None),
 (F, '                    if dev_viable:\n                        best_association = association  # found best viable combination', '                    best_association = association  # found best viable combination', None),
 (F, '                        == dev_rates.sort_values("target_rate").index', '                        == dev_rates.sort_values("frequency").index', None),
 (F, '                    min_freq_dev = all(dev_rates["frequency"] >= self.min_freq_mod)', '                    min_freq_dev = all(train_rates["frequency"] >= self.min_freq_mod)', None),
 (F, '                isclose(train_rates["target_rate"][1:], train_rates["target_rate"].shift(1)[1:])', '                isclose(train_rates["target_rate"][2:], train_rates["target_rate"].shift(1)[2:])', None),
 (F, '                        xagg_dev, association["index_to_groupby"]', '                        xagg_dev, associations_xagg[0]["index_to_groupby"]', None),
 (F, '            train_rates = self._printer(association["xagg"])  # pylint: disable=E1101', '            train_rates = self._printer(associations_xagg[-1]["xagg"])  # pylint: disable=E1101', None),
 (F, '                if xagg_dev is None:\n                    best_association = association', '                if xagg_dev is None:\n                    best_association = associations_xagg[0]', None),
]
