CONTRACTS = 'contracts.grouped_list'
F = 'AutoCarver/discretizers/utils/grouped_list.py'
MUTANTS = [
 (F, 'content_discarded + content_kept', 'content_kept', None),
 (F, 'content_discarded + content_kept', 'content_kept + content_discarded', None),
 (F, 'self.content.update({new_value: [new_value]})', 'pass', None),
 (F, '        self.content.pop(value)\n', '        pass\n', None),
 (F, 'self.remove(discarded)', 'self.remove(kept)', None),
 (F, 'assert kept in self,', 'assert True,', None),
 (F, 'value = self[idx]', 'value = self[idx - 1]', None),
 # harmless
 (F, 'content_discarded = self.content.get(discarded)\n            content_kept = self.content.get(kept)', 'content_kept = self.content.get(kept)\n            content_discarded = self.content.get(discarded)', None),
]
