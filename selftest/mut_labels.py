CONTRACTS = 'contracts.labels'
F = 'AutoCarver/discretizers/utils/base_discretizers.py'
MUTANTS = [
 (F, '                labels = [n for n, _ in enumerate(labels)]', '                labels = [0 for n, _ in enumerate(labels)]', None),
 (F, '            if self.str_nan in values:\n                labels += [self.str_nan]', '            pass', None),
 (F, '                for value in values.get(group_of_values):', '                for value in [group_of_values]:', None),
 (F, '                labels = [value for value in values if value != self.str_nan]  # (removing str_nan)', '                labels = [value for value in values]', None),
 (F, '            labels_per_values.update({feature: label_per_value})', '            labels_per_values.update({feature: {}})', None),
 (F, '                    label_per_value.update({value: label})', '                    label_per_value.update({value: group_of_values})', None),
 # harmless
 (F, '            values = self.values_orders[feature]\n\n            # case 0: quantitative feature', '            values = self.values_orders[feature]\n            unused_local = feature\n\n            # case 0: quantitative feature', None),
]
