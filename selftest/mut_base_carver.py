CONTRACTS = 'contracts.base_carver'
F = 'AutoCarver/carvers/base_carver.py'
MUTANTS = [
 (F, 'order_copy.group_list(combi, combi[0])', 'order_copy.group_list(combi, combi[-1])', ['order_apply_combination']),
 (F, '    order_copy = GroupedList(order)', '    order_copy = order', ['order_apply_combination']),
 (F, '    for combi in combination:\n        order_copy.group_list', '    for combi in combination[1:]:\n        order_copy.group_list', ['order_apply_combination']),
 (F, '(nb_remaining_groups > 1) | (next_idx == len(order))', '(nb_remaining_groups > 2) | (next_idx == len(order))', None),
 (F, 'for size in range(min_group_size, len(order) + 1):', 'for size in range(min_group_size, len(order)):', None),
 (F, '        all_combinations += [current_combination]', '        all_combinations = all_combinations + [current_combination]', None),
 (F, 'min_group_size < len(current_combination) <= max_group_size', 'min_group_size <= len(current_combination) <= max_group_size', None),
 (F, 'min_group_size < len(current_combination) <= max_group_size', 'min_group_size < len(current_combination) < max_group_size', None),
 (F, 'combination = list(order[start_idx:next_idx])', 'combination = list(order[start_idx:next_idx - 1])', None),
 (F, 'current_combination=current_combination + [combination]', 'current_combination=[combination] + current_combination', None),
 # harmless
 (F, 'next_idx = start_idx + size', 'next_idx = size + start_idx', None),
 (F, '        return {modal: group[0] for group in combination for modal in group}', '        return {modal: group[-1] for group in combination for modal in group}', ['BaseCarver._combination_formatter']),
 (F, '        return {modal: group[0] for group in combination for modal in group}', '        return {group[0]: modal for group in combination for modal in group}', ['BaseCarver._combination_formatter']),
 (F, '        return {modal: group[0] for group in combination for modal in group}', '        return {modal: combination[0][0] for group in combination for modal in group}', ['BaseCarver._combination_formatter']),
]
