CONTRACTS = 'contracts.update_discretizer'
F = 'AutoCarver/discretizers/utils/base_discretizers.py'
MUTANTS = [
 (F, '                order.group(discarded_value, kept_value)', '                order.group(kept_value, discarded_value)', None),
 (F, '            self.features_dropna[feature] = True', '            pass', None),
 (F, '            self.values_orders.update({feature: order})', '            pass', None),
 (F, '            if not order.contains(kept_value):\n                order.append(kept_value)', '            pass', None),
 (F, '        if order.get_group(discarded_value) == kept_value:', '        if order.get_group(kept_value) == discarded_value:', None),
 (F, '                order.group(kept_value, discarded_value)', '                order.group(discarded_value, kept_value)', None),
 (F, '                # replacing group leader\n                order.replace_group_leader(discarded_value, kept_value)', '                pass', None),
 (F, '                order.replace_group_leader(discarded_value, kept_value)', '                order.replace_group_leader(kept_value, discarded_value)', None),
 (F, '            elif mode == "replace":', '            elif mode == "group":', None),
]
