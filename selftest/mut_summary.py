CONTRACTS = 'contracts.summary'
B = 'AutoCarver/discretizers/utils/base_discretizers.py'
MUTANTS = [
 (B, '                        "label": label,\n                        "content": value,', '                        "label": value,\n                        "content": value,', None),
 (B, '                        "label": label,\n                        "content": value,', '                        "label": label,\n                        "content": label,', None),
 (B, '                        "feature": feature,\n                        "dtype": self.input_dtypes[feature],\n                        "label": label,', '                        "feature": requested_features[0],\n                        "dtype": self.input_dtypes[feature],\n                        "label": label,', None),
 (B, '                if not (not feature_dropna and value == self.str_nan):', '                if not (feature_dropna and value == self.str_nan):', None),
 (B, '                if not (not feature_dropna and value == self.str_nan):', '                if not (value == self.str_nan):', None),
 (B, '                feature_dropna = self.features_dropna.get(feature, self.dropna)', '                feature_dropna = self.dropna', None),
 (B, '                                if value != self.str_default:  # checking for str_default', '                                if value != self.str_nan:  # checking for str_default', None),
 (B, '                        feature_summary.update({"content": raw_labels_per_values[feature][value]})', '                        feature_summary.update({"content": self.labels_per_values[feature][value]})', None),
 (B, '                        feature_summary.update({"content": raw_labels_per_values[feature][value]})\n                        summaries += [feature_summary]', '                        feature_summary.update({"content": raw_labels_per_values[feature][value]})', None),
 (B, '            for value, label in self.labels_per_values[feature].items():', '            for value, label in raw_labels_per_values[feature].items():', None),
 (B, '                                    summaries += [feature_summary]', '                                    summaries = [feature_summary]', None),
]
