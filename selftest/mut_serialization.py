CONTRACTS = 'contracts.serialization'
F = 'AutoCarver/discretizers/utils/serialization.py'
MUTANTS = [
 (F, '    elif isinstance(value, integer):  # np.int value\n        output = int(value)', '    elif False:\n        output = int(value)', None),
 (F, '    if not isinstance(value, str) and not isfinite(value):  # numpy.inf value', '    if not isinstance(value, str) and isfinite(value):  # numpy.inf value', None),
 (F, '    if value == "numpy.inf":  # numpy.inf value\n        output = inf', '    if value == "numpy.inf":  # numpy.inf value\n        output = value', None),
 (F, '        output = [convert_value_to_base_type(value) for value in iterable]', '        output = [convert_value_to_base_type(value) for value in iterable[1:]]', None),
 (F, '        output = float(value)', '        output = float(str(value))', None),
]
