CONTRACTS = 'contracts.transform'
F = 'AutoCarver/discretizers/utils/base_discretizers.py'
MUTANTS = [
 (F, '            if not dropna:  # checking whether we should have dropped nans or not', '            if not self.dropna:  # checking whether we should have dropped nans or not', None),
 (F, '                    x_copy[feature] = x_copy[feature].replace(label_per_value[self.str_nan], nan)', '                    x_copy[feature] = x_copy[feature].replace(self.str_nan, nan)', None),
 (F, '                if self.str_nan in label_per_value:', '                if self.str_nan not in label_per_value:', None),
 (F, '        x_copy = self.__prepare_data(X, y)\n', '        x_copy = self.__prepare_data(X, y)\n        self.labels_per_values = {}\n', None),
]
