CONTRACTS = 'contracts.type_discretizers'
F = 'AutoCarver/discretizers/utils/type_discretizers.py'
MUTANTS = [
 (F, '            values_order.group(value, str_value)', '            values_order.group(str_value, value)', None),
 (F, '            values_order.append(str_value)  # adding string value to the order', '            pass', None),
 (F, '        if str_value not in values_order:', '        if str_value in values_order:', None),
 (F, '            str_value = str(int(value))', '            str_value = str(value)', None),
]
