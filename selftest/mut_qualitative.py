CONTRACTS = 'contracts.qualitative'
F = 'AutoCarver/discretizers/utils/qualitative_discretizers.py'
MUTANTS = [
 (F, '        return idx - 1\n', '        return idx\n', None),
 (F, '        idx_closest_modality = idx + 1', '        idx_closest_modality = idx + 2', None),
 (F, 'if idx == frequencies.shape[0] - 1:', 'if idx == frequencies.shape[0]:', None),
 (F, '    if idx == 0:\n        return 1', '    if idx == 0:\n        return 0', None),
]
