CONTRACTS = 'contracts.pool'
B = 'AutoCarver/discretizers/utils/base_discretizers.py'; Q = 'AutoCarver/discretizers/utils/quantitative_discretizers.py'
ASYNC_ARGS = '''                        (
                            feature,
                            X[feature],
                            self.values_orders,
                            self.str_nan,
                            self.labels_per_values,
                            x_len,
                        ),
                    )
                    for feature in self.quantitative_features'''
MUTANTS = [
 (B, ASYNC_ARGS, ASYNC_ARGS.replace('for feature in self.quantitative_features', 'for feature in self.quantitative_features[::-1]'), None),
 (B, ASYNC_ARGS, ASYNC_ARGS.replace('for feature in self.quantitative_features', 'for feature in self.quantitative_features[1:]'), None),
 (B, ASYNC_ARGS, ASYNC_ARGS.replace('self.str_nan,', 'self.str_default,') if False else ASYNC_ARGS.replace('x_len,', 'self.n_jobs,'), None),
 (B, ASYNC_ARGS, ASYNC_ARGS.replace('X[feature],', 'X[self.quantitative_features[0]],'), None),
 (B, '                all_transformed = [result.get() for result in all_transformed_async]', '                all_transformed = [result.get() for result in all_transformed_async[1:]]', None),
 (B, '                all_transformed = [result.get() for result in all_transformed_async]', '                all_transformed = [all_transformed_async[0].get() for result in all_transformed_async]', None),
 (Q, '                    self.quantitative_features,\n                )', '                    self.quantitative_features[1:],\n                )', None),
 (Q, '        self.values_orders.update({feature: order for (feature, order) in all_orders})', '        self.values_orders.update({feature: order for (feature, order) in all_orders[1:]})', None),
 (Q, '        self.values_orders.update({feature: order for (feature, order) in all_orders})', '        self.values_orders.update({order[0]: order for (feature, order) in all_orders})', None),
 (Q, '                        fit_feature, X=X[self.quantitative_features], q=self.q, str_nan=self.str_nan\n                    ),', '                        fit_feature, X=X[self.quantitative_features].dropna(how="all"), q=self.q, str_nan=self.str_nan\n                    ),', None),
 (Q, '                    feature, X=X[self.quantitative_features], q=self.q, str_nan=self.str_nan\n                )', '                    feature, X=X[self.quantitative_features], q=self.q, str_nan=feature\n                )', None),
]
# semantically equivalent, correctly NOT reported: handing `dict(self.values_orders)` (an equal copy) to the sequential branch
