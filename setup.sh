#!/bin/sh
# offline set-up: nothing is fetched; only checks that the tools the checks need exist
set -e
cd "$(dirname "$0")"
mkdir -p evidence replays
python3-vt -c "import z3" 
/venv/bin/python -c "import AutoCarver, pandas, numpy, scipy"
echo setup ok
