"""witness classes of the known findings (predicates over the literal witness stored in a replay file)"""


def regression_selector_default_quantitative(w):
    """D6: RegressionSelector with its DEFAULT quantitative measure (distance_measure = 1 - r ranked in decreasing order, 0 treated as undefined).
    Only witnesses that involve the quantitative features of a RegressionSelector with default measures belong to the finding."""
    return isinstance(w, dict) and w.get('selector') == 'RegressionSelector' and w.get('default_measures') is True and w.get('dtype', 'float') == 'float'


def regression_selector_qualitative_feature_with_missing_values(w):
    """D25: kruskal_measure makes an empty group for the missing values of the grouping variable; with RegressionSelector (reversed measure) a qualitative
    feature that holds missing values gets an undefined measure and is left out.  Only witnesses in which the returned list is EXACTLY what the
    recomputation gives when those features are treated as undefined belong to the finding."""
    return (isinstance(w, dict) and w.get('selector') == 'RegressionSelector' and w.get('dtype') == 'str' and w.get('default_measures') is True
            and w.get('returned') is not None and w.get('returned') == w.get('expected_if_features_with_missing_values_are_undefined'))


def min_freq_inverse_rounded_down(w):
    """D26: ContinuousDiscretizer uses q = round(1 / min_freq) quantiles; when 1/min_freq is rounded DOWN the over-representation threshold 1/q is larger than
    min_freq, and a value whose frequency f satisfies min_freq <= f < 1/q need not be a boundary.  Only witnesses in which EVERY frequent non-boundary value
    lies in that gap belong to the finding."""
    if not isinstance(w, dict) or 'min_freq' not in w or 'values' not in w or 'boundaries' not in w: return False
    mf = w['min_freq']; q = round(1 / mf)
    if not (q < 1 / mf): return False
    vals = [v for v in w['values'] if v is not None]; n = len(w['values'])
    from collections import Counter
    cnt = Counter(vals)
    missing = [v for v, c in cnt.items() if c / n >= mf and v not in w['boundaries']]
    return len(missing) > 0 and all(cnt[v] / n < 1 / q for v in missing)
