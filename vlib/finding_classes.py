"""witness classes of the known findings (predicates over the literal witness stored in a replay file)"""
