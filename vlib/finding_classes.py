"""witness classes of the known findings (predicates over the literal witness stored in a replay file)"""


def regression_selector_default_quantitative(w):
    """D6: RegressionSelector with its DEFAULT quantitative measure (distance_measure = 1 - r ranked in decreasing order, 0 treated as undefined).
    Only witnesses that involve the quantitative features of a RegressionSelector with default measures belong to the finding."""
    return isinstance(w, dict) and w.get('selector') == 'RegressionSelector' and w.get('default_measures') is True and w.get('dtype', 'float') == 'float'
