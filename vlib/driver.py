"""./check <Cxx> [--tier quick|thorough] [--replay file]   (run with python3-vt from /verif)

1. engine P (this process + worker pool): VCs of the property's functions from /repo's CURRENT source, census, canaries.
2. engine R (subprocess under /venv/bin/python): bounded contracts of the property on the real functions.
3. triage against baseline/obligations.json and known_findings.json; evidence; exit code:
   0 held | 1 VIOLATION | 2 undecided | 3 checker broken.
"""
import sys, os, json, time, subprocess, argparse, importlib, traceback, multiprocessing, tempfile, glob

ROOT = os.path.dirname(os.path.dirname(os.path.abspath(__file__)))
sys.path.insert(0, ROOT)
REPO = os.environ.get('VERIF_REPO', '/repo')
VENV_PY = '/venv/bin/python'


def p_worker(args):
    modname, qual, repo = args
    try:
        from pyvc.comps import PEngine
        from pyvc.engine import Unsupported
        from pyvc.discharge import discharge
        mod = importlib.import_module(modname)
        eng = PEngine(repo, mod.SPECS); t0 = time.time()
        try:
            obls = eng.verify(qual)
        except Unsupported as u:
            return dict(function=qual, module=modname, status='UNSUPPORTED', detail=str(u), obligations=[], time=time.time() - t0)
        out = discharge(obls)
        return dict(function=qual, module=modname, status='ok', obligations=out, time=time.time() - t0)
    except Exception:
        return dict(function=qual, module=modname, status='CRASH', detail=traceback.format_exc()[-2000:], obligations=[], time=0)


def run_p(items, repo):
    jobs = []
    for modname, quals in items:
        mod = importlib.import_module(modname)
        for q, spec in mod.SPECS.items():
            if quals is not None and q not in quals: continue
            if spec.pure and spec.note.startswith('ASSUMED'): continue
            jobs.append((modname, q, repo))
    if not jobs: return []
    with multiprocessing.Pool(min(14, len(jobs)), maxtasksperchild=1) as pool:          # one fresh process per function: obligations do not depend on what ran before
        return pool.map(p_worker, jobs, chunksize=1)


def assumed_contracts(items):
    out = []
    for modname, quals in items:
        mod = importlib.import_module(modname)
        for q, spec in mod.SPECS.items():
            if spec.pure and spec.note.startswith('ASSUMED'): out.append('%s: %s' % (q, spec.note))
            elif getattr(spec, 'region', None) is not None and (quals is None or q in quals): out.append('%s: %s' % (q, spec.note or 'REGION: entry state assumed'))
            if (quals is None or q in quals) and not spec.pure:
                if getattr(spec, 'pool_model', False): out.append('%s: ASSUMED contract of multiprocessing -- pool.apply_async(g, args).get() == g(*args); pool.imap_unordered(partial(g, **kw), xs) = the values g(x, **kw), x in xs, in an arbitrary order (%s)' % (q, spec.note))
            if getattr(spec, 'deterministic', False): out.append('%s: ASSUMED deterministic (its result is a function of its arguments; in-place writes to a library value it receives are not seen by other calls)' % q)
    return sorted(set(out))


def run_r(prop, rmods, tier, seed):
    results = []; procs = []
    env = dict(os.environ); env['VERIF_REPO'] = REPO; env['PYTHONPATH'] = REPO + os.pathsep + ROOT; env['PYTHONHASHSEED'] = env.get('PYTHONHASHSEED', '0')
    for m in rmods:
        out = tempfile.mktemp(prefix='rtc_', suffix='.json', dir=os.path.join(ROOT, 'replays'))
        p = subprocess.Popen([VENV_PY, '-W', 'ignore', '-m', 'rtc.harness', m, prop, tier, str(seed), out], cwd=ROOT, env=env, stdout=subprocess.PIPE, stderr=subprocess.STDOUT, text=True)
        procs.append((m, p, out))
    for m, p, out in procs:
        log = p.communicate()[0]
        if os.path.exists(out):
            r = json.load(open(out)); os.unlink(out)
        else:
            r = dict(crash='no result file; exit=%s; log tail: %s' % (p.returncode, log[-1500:]), failures=[], stats={}, samples=[], bounds={}, notes=[], wall_s=0)
        r['module'] = m; results.append(r)
    return results


def load_known():
    path = os.path.join(ROOT, 'known_findings.json')
    return json.load(open(path)) if os.path.exists(path) else {'findings': [], 'fixed': []}


def finding_matches(f, prop, clause, witness):
    if f.get('property') != prop or f.get('clause') != clause: return False
    cls = f.get('witness_class')
    if not cls: return True
    from vlib import finding_classes
    pred = getattr(finding_classes, cls, None)
    try:
        return bool(pred and pred(witness))
    except Exception:
        return False


def main():
    ap = argparse.ArgumentParser(); ap.add_argument('prop'); ap.add_argument('--tier', default=os.environ.get('VERIF_TIER', 'quick'))
    ap.add_argument('--replay'); ap.add_argument('--update-baseline', action='store_true')
    a = ap.parse_args()
    from vlib.registry import REGISTRY
    if a.replay:
        from vlib.replay import replay
        sys.exit(replay(a.replay))
    prop = a.prop; cfg = REGISTRY[prop]; tier = a.tier if a.tier in ('quick', 'thorough') else 'quick'
    seed = int(os.environ.get('VERIF_SEED', '0')); t0 = time.time()
    os.makedirs(os.path.join(ROOT, 'replays'), exist_ok=True); os.makedirs(os.path.join(ROOT, 'evidence'), exist_ok=True)
    broken = []; undecided = []; violations = []; known_lines = []
    # ------------------------------------------------------------------ engine P
    pres = run_p(cfg.get('P', []), REPO)
    for spec in cfg.get('S', []):
        # syntactic contract checks on the real AST (back end 'ast'); soft: without a witness from engine R they can only make the run undecided
        modname, fname = spec.split(':'); t1 = time.time()
        try:
            obls = getattr(importlib.import_module(modname), fname)(REPO)
            pres.append(dict(function=fname, module=modname, status='ok', obligations=obls, time=time.time() - t1, soft=True))
        except Exception:
            pres.append(dict(function=fname, module=modname, status='CRASH', detail=traceback.format_exc()[-1500:], obligations=[], time=0, soft=True))
    # engine R runs while we triage P? keep it simple: sequential start after P (P is seconds)
    rres = run_r(prop, cfg.get('R', []), tier, seed) if cfg.get('R') else []
    base_path = os.path.join(ROOT, 'baseline', 'obligations.json')
    baseline = json.load(open(base_path)) if os.path.exists(base_path) else {}
    base = set(baseline.get(prop, []))
    all_obl = []; solver_time = 0.0; by_backend = {}
    for fr in pres:
        if fr['status'] == 'CRASH': broken.append('engine P crashed on %s: %s' % (fr['function'], fr['detail'][-400:]))
        for o in fr['obligations']:
            all_obl.append(o); solver_time += o['time']; by_backend[o['backend']] = by_backend.get(o['backend'], 0) + 1
    names = [o['name'] for o in all_obl]
    if a.update_baseline:
        os.makedirs(os.path.dirname(base_path), exist_ok=True)
        baseline[prop] = sorted(o['name'] for o in all_obl if o['status'] in ('discharged', 'canary-ok'))
        json.dump(baseline, open(base_path, 'w'), indent=0, sort_keys=True)
        print('baseline for %s: %d obligations' % (prop, len(baseline[prop])))
        base = set(baseline[prop])
    known = load_known()
    # R failures
    r_fail = []
    for rr in rres:
        if rr.get('crash'): broken.append('engine R crashed in %s: %s' % (rr['module'], rr['crash'][-600:]))
        for f in rr['failures']: r_fail.append(f)
    def known_for(clause, witness):
        for f in known.get('findings', []):
            if finding_matches(f, prop, clause, witness): return f
        return None
    replay_n = [0]
    def write_replay(kind, payload):
        replay_n[0] += 1
        path = os.path.join(ROOT, 'replays', '%s_%s_%d.json' % (prop, kind, replay_n[0]))
        json.dump(payload, open(path, 'w'), indent=1, default=str); return path
    reported_known = set()
    # P triage
    p_open = []
    for fr in pres:
        if fr['status'] == 'UNSUPPORTED':
            # the function left the verifiable subset (on the unchanged tree this is a broken check)
            fn_base = [b for b in base if b.startswith(fr['function'] + '#')]
            p_open.append(dict(name=fr['function'] + '#UNSUPPORTED', function=fr['function'], status='unsupported', detail=fr['detail'], was_discharged=bool(fn_base)))
        for o in fr['obligations']:
            if o['status'] == 'canary-VACUOUS': broken.append('vacuous premises: ' + o['name'])
            elif o['status'] in ('not-discharged', 'undecided'):
                p_open.append(dict(name=o['name'], function=fr['function'], status=o['status'], detail=o['detail'], was_discharged=(o['name'] in base) and not fr.get('soft')))
    missing = sorted(b for b in base if b not in set(names))
    for po in p_open:
        kf = known_for(po['name'], None)
        if kf is not None:
            if kf['id'] not in reported_known:
                reported_known.add(kf['id']); known_lines.append('KNOWN-FINDING: property=%s %s' % (prop, kf['description']))
            continue
        fn_short = po['function'].split('@')[0]
        wit = [f for f in r_fail if f['function'] == fn_short or f['function'] == po['function'] or f['function'].split('.')[0] == po['name'].split('.')[0]]
        wit = [f for f in wit if known_for(f['clause'], f['witness']) is None]
        if wit:
            path = write_replay('witness', dict(property=prop, obligation=po['name'], function=po['function'], solver=po['detail'], clause=wit[0]['clause'], witness=wit[0]['witness'], message=wit[0]['message'], module=[r['module'] for r in rres]))
            violations.append((path, ''))
            for f in wit: f['_used'] = True
        elif po['was_discharged'] and po['status'] == 'not-discharged':          # (a function that left the verifiable subset is UNDECIDED, not a violation)
            path = write_replay('obligation', dict(property=prop, obligation=po['name'], function=po['function'], status=po['status'], solver_output=po['detail'],
                                                   note='obligation discharged on the pinned tree, not discharged on the current source; bounded search of engine R found no failing input'))
            violations.append((path, ' no-failing-input-found'))
        else:
            undecided.append('%s (%s) %s' % (po['name'], po['status'], po['detail'][:200]))
    # obligations of the baseline that were not generated at all: the function changed shape; only a census mismatch
    if missing and not a.update_baseline:
        fn_unsup = {fr['function'] for fr in pres if fr['status'] == 'UNSUPPORTED'}
        still = [m for m in missing if m.split('#')[0] not in fn_unsup]
        if still: undecided.append('census: %d baseline obligations not generated (e.g. %s)' % (len(still), still[0]))
    # R triage
    for f in r_fail:
        if f.get('_used'): continue
        kf = known_for(f['clause'], f['witness'])
        if kf is not None:
            if kf['id'] not in reported_known:
                reported_known.add(kf['id']); known_lines.append('KNOWN-FINDING: property=%s %s' % (prop, kf['description']))
            continue
        path = write_replay('witness', dict(property=prop, clause=f['clause'], function=f['function'], witness=f['witness'], message=f['message']))
        violations.append((path, ''))
    # vacuity: zero obligations / zero evaluations
    n_obl = len([o for o in all_obl if not o['name'].split('#')[1].startswith('canary')])
    n_dis = len([o for o in all_obl if o['status'] == 'discharged'])
    if cfg.get('P') and n_obl == 0 and not any(fr['status'] == 'UNSUPPORTED' for fr in pres): broken.append('engine P generated zero obligations')
    evals = sum(s['evaluations'] for rr in rres for s in rr['stats'].values())
    distinct = sum(s['distinct_nontrivial'] for rr in rres for s in rr['stats'].values())
    if cfg.get('R') and evals == 0 and not broken: broken.append('engine R evaluated zero cases')
    # ------------------------------------------------------------------ contract / implementation cross-check on recorded real executions
    trace_stats = None
    if cfg.get('traces'):
        try:
            tpath = tempfile.mktemp(prefix='traces_', suffix='.json', dir=os.path.join(ROOT, 'replays'))
            env = dict(os.environ); env['PYTHONPATH'] = REPO + os.pathsep + ROOT
            n_tr = 40 if tier == 'quick' else 400
            subprocess.run([VENV_PY, '-W', 'ignore', '-m', cfg['traces'], tpath, str(n_tr), str(seed)], cwd=ROOT, env=env, capture_output=True, text=True, timeout=600)
            from pyvc.trace_check import check as trace_check
            trace_stats = trace_check(json.load(open(tpath)), 120 if tier == 'quick' else 1200); os.unlink(tpath)
            per = {}
            for f in trace_stats['failed']: per[(f['op'], f['clause'])] = per.get((f['op'], f['clause']), 0) + 1
            trace_stats['unconfirmed_by_clause'] = {'%s#%s' % k: v for k, v in per.items()}
            if trace_stats['clauses'] == 0: broken.append('trace cross-check evaluated no clause')
            elif trace_stats['confirmed'] < 0.9 * trace_stats['clauses']:
                broken.append('contracts do not describe the real executions: only %d of %d clause instances confirmed (%r)' % (trace_stats['confirmed'], trace_stats['clauses'], trace_stats['unconfirmed_by_clause']))
            trace_stats['failed'] = trace_stats['failed'][:3]
        except Exception as e:
            broken.append('trace cross-check could not run: %s' % (traceback.format_exc()[-400:],))
    # ------------------------------------------------------------------ prelude soundness (thorough tier): the axioms of pyvc/theory.py as Lean theorems
    lean_status = 'not run (quick tier)'
    if tier == 'thorough' and cfg.get('P'):
        try:
            import re as _re
            names = set()
            for f in ('pyvc/theory.py', 'pyvc/comps.py', 'contracts/base_carver.py'):
                names |= set(_re.findall(r'-- lean: ([A-Za-z_0-9]+)', open(os.path.join(ROOT, f)).read()))
            lean_src = open(os.path.join(ROOT, 'lean', 'PreludeSound.lean')).read()
            missing_thm = sorted(n for n in names if ('theorem %s ' % n) not in lean_src and ('theorem %s_' % n) not in lean_src)
            pl = subprocess.run([os.path.join(ROOT, 'lean', 'check.sh')], capture_output=True, text=True, timeout=1500)
            lean_status = (pl.stdout.strip().split('\n') or [''])[-1]
            if pl.returncode != 0: broken.append('lean prelude check failed: ' + (pl.stdout + pl.stderr)[-400:])
            if missing_thm: broken.append('prelude axioms without a Lean theorem: %r' % missing_thm)
        except Exception as e:
            broken.append('lean prelude check could not run: %s' % e)
    # ------------------------------------------------------------------ evidence
    level = cfg['level']
    funcs = [dict(function=fr['function'], status=fr['status'], obligations=len(fr['obligations']),
                  discharged=len([o for o in fr['obligations'] if o['status'] in ('discharged',)]), time_s=round(fr['time'], 2)) for fr in pres]
    samples = [o['name'] for o in all_obl[:3]] + [s for rr in rres for s in rr['samples'][:4]]
    cov = dict(
        obligations=n_obl, discharged=n_dis, checker_cmd='python3-vt vlib/driver.py %s --tier %s  (z3 %s E-matching; retry z3 MBQI; cvc5 --full-saturate-quant)' % (prop, tier, _z3v()),
        trusted_base=cfg.get('trusted', []) + TRUSTED_COMMON,
        functions_under_contract=funcs, by_backend=by_backend, solver_time_s=round(solver_time, 2),
        assumed_contracts=assumed_contracts(cfg.get('P', [])),
        open_obligations=[po['name'] for po in p_open],
        bounded=[dict(module=rr['module'], bounds=rr['bounds'], stats=rr['stats'], notes=rr['notes'], wall_s=round(rr['wall_s'], 1)) for rr in rres],
        evaluations=max(evals, 1) if (evals or not cfg.get('P')) else evals, distinct_nontrivial=distinct,
        rule='bounded part (engine R): cases enumerated per contract clause as stated in `bounded[].bounds`; a case is distinct/non-trivial when its literal input differs from all earlier ones and satisfies the clause precondition',
        samples=samples or ['(none)'],
        explanation=cfg.get('explanation', ''),
        lean_prelude=lean_status, contract_vs_implementation=trace_stats, traces_validated_against_impl=(trace_stats or {}).get('traces', 0), exhaustive=False, known_findings_reported=sorted(reported_known), undecided=undecided, checker_problems=broken)
    if not evals:
        cov.pop('evaluations'); cov.pop('distinct_nontrivial')
        if level != 'proof': cov['evaluations'] = 1; cov['distinct_nontrivial'] = 0
    ev = dict(property_id=prop, tier=tier, seed=seed, level=level, coverage=cov, assumptions=ASSUMPTIONS + cfg.get('assumptions', []),
              wall_s=round(time.time() - t0, 2), violations=len(violations))
    ev_dir = os.path.join(ROOT, 'evidence') if os.path.realpath(REPO) == '/repo' else REPO      # scratch-copy runs (self-tests) do not overwrite the evidence
    json.dump(ev, open(os.path.join(ev_dir, prop + '.json'), 'w'), indent=1, default=str)
    # ------------------------------------------------------------------ report
    for line in known_lines: print(line)
    print('%s tier=%s: P %d/%d obligations discharged over %d functions (%.1fs solver); R %d evaluations (%d distinct) in %d modules; %.1fs'
          % (prop, tier, n_dis, n_obl, len(pres), solver_time, evals, distinct, len(rres), time.time() - t0))
    if violations:
        for path, suffix in violations[:6]: print('VIOLATION property=%s replay=%s%s' % (prop, path, suffix))
        sys.exit(1)
    if broken:
        for b in broken: print('CHECKER-BROKEN: ' + b)
        sys.exit(3)
    if undecided:
        for u in undecided: print('UNDECIDED: ' + u)
        sys.exit(2)
    sys.exit(0)


def _z3v():
    import z3
    return z3.get_version_string()


TRUSTED_COMMON = ['CPython semantics as encoded by pyvc (DESIGN.md section 3)', 'z3 / cvc5', 'prelude axioms of pyvc/theory.py and pyvc/comps.py (each stated and proved as a Lean theorem in lean/PreludeSound.lean, compiled in the thorough tier); residual trust: Python list operation = the Lean List function of the same meaning',
                  'the VC generator pyvc itself (mitigated by seeded mutants and canaries)']
ASSUMPTIONS = ['Python int = mathematical integer, float = mathematical real (no rounding modelled)',
               'list elements / dict keys are NaN-free atoms with reflexive equality (a float NaN object used as a value is covered only by engine R)',
               'dict = insertion-ordered duplicate-free key sequence + total map',
               'library calls (numpy, pandas, scipy, json) are abstracted by the assumed contracts listed in coverage.assumed_contracts',
               'termination is not proved except where a decreases clause is stated']

if __name__ == '__main__':
    main()
