"""which contracts (engine P) and bounded checks (engine R) decide which property"""
GL_ALL = ('contracts.grouped_list', None)

REGISTRY = {
 'C13': dict(level='proof', P=[GL_ALL], R=['rtc.c13_grouped_list'],
             explanation='GroupedList: representation invariant WF established by the three constructors and preserved by every mutating method, exact effect of each '
                         'operation on the abstract view (ordered leader -> members), observers equal to their definition over the view: proved for all inputs by engine P '
                         '(induction over the operation history = invariant + per-method contracts). Cross-checked by engine R: the same operations executed on the real class '
                         'against a plain reference model over all operation sequences up to the stated depth (bounded, not counted as proved).',
             trusted=['is_equal(a, b) == (a == b) on NaN-free atoms (assumed; pandas.isna is a library call)', 'numpy.sort returns a permutation (assumed)']),
}
