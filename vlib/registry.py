"""which contracts (engine P) and bounded checks (engine R) decide which property"""
GL_ALL = ('contracts.grouped_list', None)

ENUM = ('contracts.base_carver', ['combinations_at_index', 'consecutive_combinations', 'consecutive_combinations@top', 'nan_combinations'])

REGISTRY = {
 'C01': dict(level='other', P=[ENUM], R=['rtc.c01_carver'],
             explanation='PROVED (engine P, all inputs): the candidate enumerators are sound and complete w.r.t. the recursive spec InPart (every and only order-contiguous '
                         'partitions into 2..max_n_mod groups are generated), NaN placements are exactly FlatMap(Block, C). BOUNDED (engine R, not counted as proved): the real '
                         'BinaryCarver/ContinuousCarver.fit against a brute-force oracle written from the property text (kept iff a viable candidate exists; fitted grouping is viable, '
                         'a union of base modalities, and attains the maximal measure over all viable candidates; two-stage NaN search) on count-table frames with exact ties / '
                         'boundary frequencies and random frames.',
             trusted=['scipy chi2_contingency / kruskal as the statistic of the oracle', 'Discretizer (same parameters) defines the base modalities, as the property states']),
 'C02': dict(level='other', P=[ENUM], R=['rtc.c01_carver'],
             explanation='PROVED (engine P): every candidate ever generated has between 2 and max_n_mod groups, the NaN-alone placement only when len < max_n_mod. '
                         'BOUNDED (engine R): post-conditions of fit+transform on train and dev (label count, per-label frequency >= min_freq_mod, missing handling, same labels and '
                         'same rate ranking on dev) on the same frames as C01.',
             trusted=[]),
 'C13': dict(level='proof', P=[GL_ALL], R=['rtc.c13_grouped_list'],
             explanation='GroupedList: representation invariant WF established by the three constructors and preserved by every mutating method, exact effect of each '
                         'operation on the abstract view (ordered leader -> members), observers equal to their definition over the view: proved for all inputs by engine P '
                         '(induction over the operation history = invariant + per-method contracts). Cross-checked by engine R: the same operations executed on the real class '
                         'against a plain reference model over all operation sequences up to the stated depth (bounded, not counted as proved).',
             trusted=['is_equal(a, b) == (a == b) on NaN-free atoms (assumed; pandas.isna is a library call)', 'numpy.sort returns a permutation (assumed)']),
}
