"""which contracts (engine P) and bounded checks (engine R) decide which property"""
GL_ALL = ('contracts.grouped_list', None)

FCM = ('contracts.qualitative', None)
TRANSFORM = ('contracts.transform', None)
UNSEEN = ('contracts.unseen', None)
VIAB = ('contracts.viability', None)
CONV = ('contracts.conversion', None)
REG_Q = ('contracts.regions', ['QualitativeDiscretizer._prepare_data@marker_loop'])
REG_C = ('contracts.regions', ['ChainedDiscretizer._prepare_data@unknown_values_loop', 'ChainedDiscretizer._prepare_data@marker_loop', 'ChainedDiscretizer.fit@merge_loop'])
ENUM = ('contracts.base_carver', ['combinations_at_index', 'consecutive_combinations', 'consecutive_combinations@top', 'nan_combinations', 'order_apply_combination', 'BaseCarver._combination_formatter'])

REGISTRY = {
 'C01': dict(level='other', P=[ENUM, ('contracts.measures', ['BinaryCarver._association_measure']), VIAB], R=['rtc.c01_carver'],
             explanation='PROVED (engine P, all inputs): BaseCarver._test_viability returns the FIRST candidate of the (association-sorted) list that passes the viability tests and None iff none does, for a list of any length (loop with break under an inductive invariant; the pandas pieces are uninterpreted library symbols, so the proof pins down which computations decide viability and how the loop uses them); BinaryCarver._association_measure computes V = sqrt(chi2/n) and T = V/(rows-1)^(1/4) from the (opaque) scipy chi2; the candidate enumerators are sound and complete w.r.t. the recursive spec InPart (every and only order-contiguous '
                         'partitions into 2..max_n_mod groups are generated), NaN placements are exactly FlatMap(Block, C). BOUNDED (engine R, not counted as proved): the real '
                         'BinaryCarver/ContinuousCarver.fit against a brute-force oracle written from the property text (kept iff a viable candidate exists; fitted grouping is viable, '
                         'a union of base modalities, and attains the maximal measure over all viable candidates; two-stage NaN search) on count-table frames with exact ties / '
                         'boundary frequencies and random frames.',
             trusted=['scipy chi2_contingency / kruskal as the statistic of the oracle', 'Discretizer (same parameters) defines the base modalities, as the property states']),
 'C02': dict(level='other', P=[ENUM, TRANSFORM, VIAB], S=['contracts.forwarding:carver_defaults_obligations'], R=['rtc.c01_carver'],
             explanation='PROVED (engine P): every candidate ever generated has between 2 and max_n_mod groups, the NaN-alone placement only when len < max_n_mod; the combination _test_viability hands back satisfies all(frequency >= min_freq_mod) and pairwise-distinct consecutive rates on train and, with a dev sample, the same rate ranking, all(frequency >= min_freq_mod) and distinct consecutive rates on dev (as verdicts of the uninterpreted pandas computations). '
                         'BOUNDED (engine R): post-conditions of fit+transform on train and dev (label count, per-label frequency >= min_freq_mod, missing handling, same labels and '
                         'same rate ranking on dev) on the same frames as C01.',
             trusted=[]),
 'C03': dict(level='other', P=[ENUM, FCM, CONV, ('contracts.carver_orders', None)], R=['rtc.battery_C03', 'rtc.c01_carver', 'rtc.c09_base'],
             explanation='PROVED: every grouping the carvers ever test is a contiguous partition of the ordered base modalities (enumerator soundness); convert_to_labels gives each feature its non-missing leaders in the '
                         'SAME order (their labels for a quantitative feature), the missing marker last; convert_to_values writes every label group back on the raw values: the raw values of one label group end in one group '
                         'led by one of them (the largest non-missing quantile per the assumed max), raw values of different label groups stay apart, no value is lost, leaders are only removed (so the order of the '
                         'remaining leaders is the order they had), other features are untouched (get_labels / max assumed; three loops, ghost lemmas on the spec functions); BaseCarver._update_orders, checked against those two contracts, writes the chosen combination of one feature on its raw values, leaves every other feature alone and hands back label orders recomputed from the new values orders. BOUNDED: boundaries strictly '
                         'increasing with +inf last, ordinal groups are consecutive runs of the user ranking, categorical leaders in target-rate order, transform is a non-decreasing '
                         'right-closed step function on probes (boundaries, nextafter neighbours, midpoints, +-1e300), fitted carver groups contiguous.'),
 'C04': dict(level='other', P=[('contracts.labels', None), ('contracts.type_discretizers', None), TRANSFORM, ('contracts.unseen', ['transform_quantitative_feature'])], R=['rtc.battery_C04'],
             explanation='PROVED: transform_quantitative_feature rewrites a quantitative column by numpy.select over one mask `column <= q` per non-missing leader q paired (as sets) with x_len copies of the label of q from the label table, missing rows get the label of the group holding the marker; _get_labels_per_values builds, for every feature, a label table defined exactly on the known values in which all members of a group share one label, float labels are the rank of the group, a qualitative str label is the leader, and distinct groups get distinct labels (three nested loop invariants; get_labels assumed); type_discretizers.fit_feature groups every raw value under its string form (str / int / is_integer assumed symbols; string forms assumed pairwise distinct and not themselves raw values). BOUNDED: for every fitted object (all discretizer classes, carvers, objects rebuilt from JSON, re-indexed frames) and every training row the output is the label of '
                         'the unique group containing the value; distinct groups have distinct labels; float labels are ranks; missing-value handling per dropna.'),
 'C05': dict(level='other', P=[UNSEEN], R=['rtc.battery_C05'],
             explanation='PROVED (engine P, all inputs): the final loop of BaseDiscretizer._check_new_values (REGION, entry state assumed) raises AssertionError EXACTLY when some qualitative feature still holds a value its fitted order does not know, so completing it means every remaining value is a known value (hence has a label: _get_labels_per_values, C04) and the fitted object is not written; transform_quantitative_feature raises AssertionError EXACTLY when the column holds missing values and the fitted order does not know the marker, and otherwise rewrites the column by numpy.select over one mask `column <= q` per NON-MISSING leader q, each with x_len copies of the label of q (the marker never becomes a boundary), the missing rows getting the label of the group the marker was merged into; pandas / numpy pieces are uninterpreted library symbols. BOUNDED: transform of unseen data (finite numbers far outside / at the edges of the training range, unseen categories with and without default group, missing values '
                         'where none were seen, empty and single-row frames) either raises AssertionError or returns fitted labels only; no other exception type.'),
 'C06': dict(level='other', P=[('contracts.serialization', None)], R=['rtc.battery_C06'],
             explanation='PROVED: the value converters of serialization.py (single value and list overloads): strings unchanged, non-finite numbers become the marker, finite numbers keep their value, the result is json-serialisable, and decoding the encoded value gives the value back on the domain {strings other than the marker, finite numbers, +inf} (numpy classification predicates assumed). BOUNDED: to_json is json-serialisable; the reloaded object gives the same transform output or the same rejection on train / dev / shifted / unseen / float32 frames, '
                         'the same summary, and re-serialises to the same JSON.'),
 'C07': dict(level='other', P=[TRANSFORM, ('contracts.pool', None)], R=['rtc.battery_C07'],
             explanation='PROVED: BaseDiscretizer.transform writes nothing reachable from self (frame obligation, given the assumed frames of _prepare_data / _transform_qualitative; that of _transform_quantitative is proved: contracts.pool), and its missing-value loop touches exactly the columns of features whose per-feature dropna flag is False. BOUNDED: fit_transform == fit;transform, row-wise purity (subset, permutation, three re-indexings), repeatability, fitted state unchanged by transform, index/columns '
                         'kept, non-feature columns untouched, caller data unmodified with copy=True.'),
 'C08': dict(level='other', P=[GL_ALL, ('contracts.base_discretizers', None), REG_Q, REG_C], R=['rtc.battery_C08', 'rtc.c09_base'],
             explanation='PROVED: every GroupedList operation preserves the ordered-partition invariant (so any values_orders entry built through them is well formed); REGION contracts: the loops of QualitativeDiscretizer._prepare_data and ChainedDiscretizer._prepare_data / fit that append the missing-value marker, handle unknown values and merge along the hierarchy call append / group within their preconditions and leave partitions that lost no value (entry state assumed; defects D13, D28, D30 lived there); the four _remove_feature methods remove the feature from every per-feature attribute and every casting list, leave all other entries unchanged and preserve the coherence invariant COH. BOUNDED: fit completes or '
                         'raises AssertionError; afterwards all per-feature attributes have exactly the kept features as keys, orders are well formed and cover every training value, dropped '
                         'features pass through transform, summary/history do not raise.'),
 'C16': dict(level='other', P=[], R=['rtc.battery_C16'],
             explanation='BOUNDED: summary lists exactly the kept features; qualitative rows partition the known values with the label transform outputs; one row per quantitative group with NaN '
                         'in the group it was merged into; summary(f) only rows of f; history holds raw distribution + tested combinations with measure, last viable one = fitted grouping.'),
 'C17': dict(level='other', P=[GL_ALL, ('contracts.update_discretizer', None)], R=['rtc.c17_edits'],
             explanation='PROVED: update_discretizer (mode group) against the GroupedList contracts: the edited order stays a well-formed partition, the members of the discarded group end under the kept leader, all other groups and all other features are unchanged, no value is lost, features_dropna is set when missing values are grouped, AssertionError exactly for a NaN kept value or non-leader arguments; and the GroupedList operations themselves. '
                         'BOUNDED: seeded sequences of valid edits on fitted objects; after every edit transform maps the discarded rows to the kept label and leaves all other rows grouped as '
                         'before (replace renames only), and labels / summary / JSON round trip agree with transform.'),
 'C09': dict(level='other', P=[FCM], R=['rtc.c09_base'],
             explanation='PROVED: find_closest_modality returns an in-range order neighbour of the rare modality (so merging never skips a bucket). BOUNDED: find_quantiles at function level, '
                         'EXHAUSTIVE over all count vectors up to the stated size plus seeded larger arrays (strictly increasing observed values, frequent values are boundaries, 2.5*len/q bucket bound); '
                         'fitted Discretizer family: ordinal buckets >= min_freq, quantitative >= min_freq/2 unless single, categorical default group iff rarer than min_freq, NaN separate.'),
 'C12': dict(level='other', P=[], S=['contracts.forwarding:multiclass_obligations'], R=['rtc.c12_multiclass'],
             explanation='PROVED on the program text (syntactic contract checks, back end ast): the single BinaryCarver(...) construction in MulticlassCarver.fit receives every constructor parameter '
                         'that MulticlassCarver accepts as self.<p> plus **self.kwargs, MulticlassCarver.__init__ forwards every parameter to BaseCarver.__init__, which stores it. '
                         'BOUNDED: column-by-column equality of MulticlassCarver.transform with independently fitted BinaryCarvers on 1[y=c] (kept iff kept), raw columns unchanged, '
                         'classes = all but the first in string order (numeric labels 9/10/11 included).'),
 'C19': dict(level='other', P=[], S=['contracts.forwarding:refit_guard_obligations'], R=['rtc.c19_malformed'],
             explanation='PROVED on the program text (syntactic contract checks): the first statement of every public fit is the refit guard `assert not self.is_fitted`, so a second fit is refused '
                         'before any write to the object. BOUNDED: every malformation of the property list injected at a seeded row into valid samples, for the three carvers and the Discretizer '
                         'family, on fresh and on fitted objects: AssertionError and nothing else; values_orders / to_json / transform of a fitted object unchanged by the rejected call.'),
 'C10': dict(level='other', P=[('contracts.pool', None)], R=['rtc.c10_independence'],
             explanation='PROVED (engine P, every n_jobs): in BaseDiscretizer._transform_quantitative the list of per-feature results handed to the DataFrame assembly is, position by position, transform_quantitative_feature(feature, X[feature], values_orders, str_nan, labels_per_values, len(X)) over self.quantitative_features in that order, in the sequential branch AND in the pool branch -- so what transform outputs for a feature depends neither on n_jobs nor on which other features are listed; ASSUMED: multiprocessing (apply_async(g, args).get() == g(*args)), transform_quantitative_feature deterministic (its own contract: contracts.unseen), the pandas assembly. BOUNDED relational contracts on the real fit/transform of the Discretizer family and the carvers: each feature alone vs among the others; reversed feature lists and '
                         'shuffled columns; PYTHONHASHSEED in {0,1,2,3} (sub-processes); n_jobs in {2,3} with a pool that delivers imap_unordered results in arbitrary (seeded) completion order. '
                         'The two fit-time pool sites (StringDiscretizer.fit apply_async, ContinuousDiscretizer.fit imap_unordered) and the independence argument over the pandas code are bounded only.',
             note='Not covered: the behaviour of the real multiprocessing.Pool (replaced by an in-process pool with arbitrary completion order).'),
 'C11': dict(level='other', P=[], R=['rtc.c11_invariance'],
             explanation='BOUNDED relational contracts only (a two-run property of the pandas pipeline; nothing is proved): for count-table frames with exact ties and for random frames, the kept '
                         'features and the row partition induced by transform are compared between the original sample and its re-encodings: row permutation / reversal, three index relabellings, '
                         'exact affine maps of the quantitative features, order-preserving renaming of the categories.'),
 'C18': dict(level='other', P=[GL_ALL, REG_C], R=['rtc.c18_chained'],
             explanation='PROVED: the GroupedList operations the merge loop is made of (group, append, sort_by, get_group, values) meet their contracts; REGION contracts (a loop verified from an assumed entry state): the merge loop of ChainedDiscretizer.fit keeps every order a partition and loses no value whatever the pandas frequencies are (every value known to the hierarchy stays in values_orders), the unknown-values loop of _prepare_data raises AssertionError exactly when unknown_handling is raise and an unknown value exists and otherwise puts every unknown value in the group led by the missing-value marker, the marker loop adds the marker exactly where the column holds missing values -- each append / group call is shown to meet its precondition (the defects D13 and D28 lived there). BOUNDED: ChainedDiscretizer on seeded small '
                         'hierarchies with leaf frequencies placed around min_freq: known_values complete, every hierarchy value still present, a value keeps its own modality iff frequent, rare values merged '
                         'into an ancestor, rare intermediate groups merged further up, unknown values raise / are merged with the missing values, transform outputs the group leader.'),
 'C14': dict(level='other', P=[('contracts.measures', None)], R=['rtc.c14_selectors'],
             explanation='PROVED: the arithmetic and bookkeeping of chi2_measure, cramerv_measure and tschuprowt_measure over opaque pandas / scipy values: V = sqrt(chi2/n/(min(r,c)-1)), T = sqrt(chi2/n/sqrt((r-1)(c-1))) or 0 when a dimension is 1, the chi2 statistic carried in the measurement; the overload with a caller-supplied chi2_statistic exhibits the known finding D10 (unbound local). BOUNDED: select of ClassificationSelector / RegressionSelector (default measures and filters) against an oracle that recomputes chi2-based Tschuprow T, Kruskal-Wallis H, '
                         'Spearman / Pearson with scipy / pandas and replays the greedy filter: returned features are distinct inputs, at most n_best per measure, in decreasing association, pairwise '
                         'associated at most thresh_corr, equal to the recomputed selection (cases with ties are not judged); X and y unmodified. One known finding (D6, RegressionSelector default '
                         'quantitative measure) is reported as KNOWN-FINDING.'),
 'C15': dict(level='other', P=[], R=['rtc.c14_selectors'],
             explanation='BOUNDED relational contracts on select: negation / positive rescaling of a quantitative feature, renaming of categories, row and column permutations leave the returned list '
                         'unchanged; a copy and a strictly monotone image of the target are returned. Known finding D6 (RegressionSelector default quantitative measure) reported as KNOWN-FINDING.'),
 'C13': dict(level='proof', P=[GL_ALL], R=['rtc.c13_grouped_list'], traces='rtc.c13_grouped_list',
             explanation='GroupedList: representation invariant WF established by the three constructors and preserved by every mutating method, exact effect of each '
                         'operation on the abstract view (ordered leader -> members), observers equal to their definition over the view: proved for all inputs by engine P '
                         '(induction over the operation history = invariant + per-method contracts). Cross-checked by engine R: the same operations executed on the real class '
                         'against a plain reference model over all operation sequences up to the stated depth (bounded, not counted as proved).',
             trusted=['is_equal(a, b) == (a == b) on NaN-free atoms (assumed; pandas.isna is a library call)', 'numpy.sort returns a permutation (assumed)']),
}

NOT_APPLICABLE = {}
