"""./check --replay <file>: re-run a stored witness against the real code / print a failed obligation"""
import json, os, subprocess, sys
ROOT = os.path.dirname(os.path.dirname(os.path.abspath(__file__)))
def replay(path):
    r = json.load(open(path))
    if 'witness' not in r:
        print('obligation %s of %s is not discharged on the current source (no failing input found by the bounded search)' % (r.get('obligation'), r.get('function')))
        print('solver: ' + str(r.get('solver_output'))); return 1
    env = dict(os.environ); repo = os.environ.get('VERIF_REPO', '/repo'); env['PYTHONPATH'] = repo + os.pathsep + ROOT
    p = subprocess.run(['/venv/bin/python', '-W', 'ignore', '-m', 'rtc.replay', path], cwd=ROOT, env=env)
    return p.returncode
