#!/bin/sh
# run every registered quick check on /repo (rewrites evidence), validate MANIFEST + evidence
cd /verif; python3 tools/gen_manifest.py
for c in $(python3 -c "import json;print(' '.join(x['property_id'] for x in json.load(open('MANIFEST.json'))['checks']))"); do
  ./check $c --tier ${TIER:-quick} > /tmp/refresh_$c.log 2>&1; echo "$c exit=$? $(tail -1 /tmp/refresh_$c.log | cut -c1-150)"
done
python3-vt -c "
import json,jsonschema,glob
m=json.load(open('MANIFEST.json')); jsonschema.validate(m,json.load(open('/root/.vp/MANIFEST.schema.json')))
for c in m['checks']: jsonschema.validate(json.load(open(c['evidence_file'])),json.load(open('/root/.vp/EVIDENCE.schema.json')))
print('manifest + evidence valid')"
