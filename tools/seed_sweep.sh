#!/bin/sh
# tools/seed_sweep.sh "<seeds>" [checks...]: run the quick checks under several seeds, print only the non-zero exits
SEEDS="$1"; shift
CHECKS="${@:-$(python3 -c "import json;print(' '.join(x['property_id'] for x in json.load(open('MANIFEST.json'))['checks']))")}"
for s in $SEEDS; do for c in $CHECKS; do
  VERIF_SEED=$s ./check $c --tier ${TIER:-quick} > /tmp/sweep_${c}_$s.log 2>&1; rc=$?
  [ $rc -ne 0 ] && { echo "seed=$s $c exit=$rc"; grep -E "VIOLATION|UNDECIDED|BROKEN" /tmp/sweep_${c}_$s.log | head -3; for f in $(grep -o "replay=[^ ]*" /tmp/sweep_${c}_$s.log | head -2 | cut -d= -f2); do cp $f /tmp/sweep_${c}_${s}_$(basename $f); done; }
done; done; echo sweep done
