#!/usr/bin/env python3
"""regenerate MANIFEST.json from vlib/registry.py (checks) and properties.jsonl (not_applicable for everything not claimed)"""
import json, sys, os, subprocess
ROOT = os.path.dirname(os.path.dirname(os.path.abspath(__file__))); sys.path.insert(0, ROOT)
from vlib.registry import REGISTRY, NOT_APPLICABLE
ids = [json.loads(l)['id'] for l in open(ROOT + '/properties.jsonl')]
fix_commits = subprocess.run(['git', '-C', '/repo', 'log', '--format=%h %s', 'baa1f4d..HEAD'], capture_output=True, text=True).stdout.strip().split('\n')
checks = []
for pid in ids:
    if pid not in REGISTRY: continue
    c = REGISTRY[pid]; proved = bool(c.get('P'))
    tech = ('contract-based deductive verification: VCs generated from the real source (ast) against sidecar contracts, discharged by z3/cvc5' if proved else '') + \
           ((('; ' if proved else 'contract-based: ') + 'syntactic contract obligations decided on the real AST (argument forwarding / guard placement; soft: undecided without a bounded witness)') if c.get('S') else '') + \
           ('; ' if (proved or c.get('S')) and c.get('R') else '') + ('bounded run-time contracts of the real functions against oracles written from the property (labelled bounded, never counted as proved)' if c.get('R') else '')
    checks.append({"property_id": pid, "quick_cmd": "./check %s --tier quick" % pid, "thorough_cmd": "./check %s --tier thorough" % pid, "evidence_file": "evidence/%s.json" % pid,
                   "replay_cmd_template": "./check %s --replay {path}" % pid, "engine": "pyvc+rtc" if proved and c.get('R') else ("pyvc" if proved else "rtc"),
                   "level_claimed": {"category": c['level'], "text": c['explanation'], "design_ref": "DESIGN.md section 12 (as built) and section 5, " + pid},
                   "level_note": c.get('note', "Proved part (if any): trusts the VC generator pyvc and its encoding of Python (DESIGN.md section 3), z3/cvc5, the prelude axioms. Bounded part: covers only the stated scopes; pandas/numpy/scipy semantics are outside any prover present."),
                   "technique": tech})
m = {"version": 1, "setup_cmd": "./setup.sh",
     "hooks": {"guard": "AUTOCARVER_VERIF", "enable": "no source hooks: contracts are sidecar files in /verif attached at run time; the guard name is reserved and unused", 
               "baseline_off_cmd": "cd /repo && /venv/bin/python -m pytest -q -p no:cacheprovider --timeout=900 -n 8", "source_commits": [], "add_only": True},
     "engines": [{"name": "pyvc", "path": "pyvc/", "serves_properties": [p for p in ids if p in REGISTRY and REGISTRY[p].get('P')], "kind_free_text": "engine P: verification-condition generator over the real Python source (ast), sidecar contracts in contracts/, discharged by z3 (E-matching, MBQI retry) and cvc5"},
                 {"name": "rtc", "path": "rtc/", "serves_properties": [p for p in ids if p in REGISTRY and REGISTRY[p].get('R')], "kind_free_text": "engine R: bounded run-time contract checks of the real functions against oracles / reference models (never counted as proved)"}],
     "checks": checks,
     "notes": "fix: commits in /repo (genuine defects found by the checks, see known_findings.json and DESIGN.md section 14): " + ' | '.join(fix_commits),
     "not_applicable": [{"property_id": p, "reason": NOT_APPLICABLE.get(p, "check not built yet (work in progress; see DESIGN.md section 5 for the plan)")} for p in ids if p not in REGISTRY]}
json.dump(m, open(ROOT + '/MANIFEST.json', 'w'), indent=1)
print('checks:', [c['property_id'] for c in checks], 'n/a:', [x['property_id'] for x in m['not_applicable']])
