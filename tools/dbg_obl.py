"""debug helper: python3-vt tools/dbg_obl.py <contracts.module> <qual> <substring of obligation name> [file with hints]
The hints file defines  hints(o, obl) -> list of z3 formulas, each tried (a) as an extra goal from the same premises, (b) as extra premise for the open goal."""
import sys, importlib; sys.path.insert(0, '/verif')
from pyvc.comps import PEngine
from pyvc.discharge import background, check_one, conjuncts
from pyvc.engine import Obl
from z3 import unsat
mod = importlib.import_module(sys.argv[1]); q = sys.argv[2]; sub = sys.argv[3]
eng = PEngine('/repo', mod.SPECS); obls = eng.verify(q); ax = background()
for o in obls:
    if sub in o.name and o.kind != 'canary':
        pc = list(o.pc)
        for i, c in enumerate(conjuncts(o.goal)):
            r, reason, dt, s = check_one(Obl(o.name, pc, c), ax, 15000)
            print(o.name, 'conjunct', i, r, '%.1fs' % dt)
            if r != unsat:
                print('   GOAL', str(c)[:1500])
                if len(sys.argv) > 4:
                    ns = {}; exec(open(sys.argv[4]).read(), ns)
                    for label, h in ns['hints'](eng, o, mod):
                        r1 = check_one(Obl('h', pc, h), ax, 15000)[0]
                        r2 = check_one(Obl('g', pc + [h], c), ax, 15000)[0]
                        print('   hint %-40s provable: %s   goal with hint: %s' % (label, r1, r2))
                break
            pc.append(c)
