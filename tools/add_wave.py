"""tools/add_wave.py <src dir> <property> <id prefix> <try log>   turn a sub-agent's m<i>.diff / m<i>_demo.py / m<i>.txt / m<i>.confirm.json into seeded/<prefix>m<i>/
(kept only when confirmed: applies, demonstration exit 0 without and non-zero with the change, unedited test-suite passes); the checks' verdicts are read from the
log of tools/try_patch.sh runs ("### <tag> m<i>" headers followed by "== Cxx exit=<rc> ..." lines)."""
import sys, json, os, re, shutil
src, prop, prefix, log = sys.argv[1:5]; tag = os.path.basename(src.rstrip('/'))
verd = {}; cur = None
for line in open(log):
    m = re.match(r'### (\S+) m(\d+)', line)
    if m: cur = (m.group(1), int(m.group(2))); continue
    m = re.match(r'== (C\d+) exit=(\d+)', line)
    if m and cur: verd.setdefault(cur, {})[m.group(1)] = {'0': 'exit 0', '1': 'exit 1 VIOLATION', '2': 'exit 2 UNDECIDED', '3': 'exit 3 BROKEN'}.get(m.group(2), 'exit ' + m.group(2))
for i in (1, 2, 3, 4, 5, 6):
    d = '%s/m%d.diff' % (src, i)
    if not os.path.exists(d): continue
    conf = json.load(open('%s/m%d.confirm.json' % (src, i)))
    ok = conf.get('applies') and conf.get('demo_exit_clean') == 0 and conf.get('demo_exit_patched') not in (0, None) and conf.get('tests', '').startswith('102 passed')
    sid = '%sm%d' % (prefix, i)
    if not ok: print('NOT KEPT', sid, conf); continue
    out = 'seeded/' + sid; os.makedirs(out, exist_ok=True)
    shutil.copy(d, out + '/patch.diff'); shutil.copy('%s/m%d_demo.py' % (src, i), out + '/demo.py')
    txt = open('%s/m%d.txt' % (src, i)).read().strip() if os.path.exists('%s/m%d.txt' % (src, i)) else ''
    files = sorted(set(re.findall(r'^\+\+\+ b/(\S+)', open(d).read(), re.M)))
    runs = verd.get((tag, i), {})
    meta = dict(id=sid, property=prop, files_changed=files, needs_to_manifest=txt, produced_by='independent sub-agent given only the property text and a scratch worktree of /repo (nothing from /verif)',
                confirmed=dict(how='tools/confirm_seeded.sh: scratch copy of /repo HEAD; demo without patch, patch applied, demo with patch, unedited test-suite with patch', **conf),
                checks_run=runs, caught_by=sorted(c for c, v in runs.items() if 'VIOLATION' in v), how_run='tools/try_patch.sh seeded/%s/patch.diff <Cxx>  (scratch copy; /repo itself is never modified)' % sid)
    json.dump(meta, open(out + '/meta.json', 'w'), indent=1); print('kept', sid, 'caught by', meta['caught_by'])
