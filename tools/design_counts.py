#!/usr/bin/env python3
"""patch the obligation counts of the table in DESIGN.md section 12 from baseline/obligations.json (last 'NNN obl.' of each row)"""
import json, re
b = json.load(open('/verif/baseline/obligations.json')); s = open('/verif/DESIGN.md').read(); out = []
for line in s.split('\n'):
    m = re.match(r'\| (C\d\d) \| ', line)
    if m and m.group(1) in b and re.search(r'\d+ obl\.', line):
        names = b[m.group(1)]; n = len(names if isinstance(names, list) else names.get('obligations', names))
        hits = list(re.finditer(r'\d+ obl\.', line)); h = hits[-1]
        line = line[:h.start()] + '%d obl.' % n + line[h.end():]
    out.append(line)
open('/verif/DESIGN.md', 'w').write('\n'.join(out)); print('patched')
