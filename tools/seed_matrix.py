#!/usr/bin/env python3
"""run the registered check of each candidate seeded change (sub-agent output under /tmp/wt_out) on a scratch copy; write /tmp/scratch/seed_matrix.json"""
import json, os, subprocess, glob, sys, re
out = {}
path = '/tmp/scratch/seed_matrix.json'
if os.path.exists(path): out = json.load(open(path))
extra = {'C01': ['C02'], 'C02': ['C01'], 'C03': ['C04'], 'C04': ['C17'], 'C05': ['C07'], 'C06': ['C17'], 'C07': ['C05'], 'C08': ['C09'], 'C09': ['C08'], 'C10': ['C07'],
         'C11': ['C01'], 'C12': [], 'C13': ['C17'], 'C14': ['C15'], 'C15': ['C14'], 'C16': ['C17'], 'C17': ['C04'], 'C18': [], 'C19': []}
def sources():
    for d in sorted(glob.glob('/tmp/wt_out/C*')): yield d, os.path.basename(d), ''
    for d in sorted(glob.glob('/tmp/wt2_out/C*')): yield d, os.path.basename(d), 'w2'
    for d in sorted(glob.glob('/tmp/wt2_out/D*')): yield d, 'C' + os.path.basename(d)[1:], 'w3'
    for d in sorted(glob.glob('/tmp/wt3_out/E*')): yield d, 'C' + os.path.basename(d)[1:], 'w4'
    for d in sorted(glob.glob('/tmp/wt3_out/F*')): yield d, 'C' + os.path.basename(d)[1:], 'w5'
    for d in sorted(glob.glob('/tmp/wt3_out/G*')): yield d, 'C' + os.path.basename(d)[1:], 'w6'
SHARD = os.environ.get('SHARD')          # "i/k": only every k-th change, results in seed_matrix.<i>.json (merge with tools/seed_matrix.py --merge)
if '--merge' in sys.argv:
    for f in sorted(glob.glob('/tmp/scratch/seed_matrix.*.json')): out.update(json.load(open(f)))
    json.dump(out, open(path, 'w'), indent=1); print('merged', len(out)); sys.exit(0)
if SHARD:
    si, sk = map(int, SHARD.split('/')); path = '/tmp/scratch/seed_matrix.%d.json' % si; out = json.load(open(path)) if os.path.exists(path) else {}
n_seen = 0
for d, pid, wave in sources():
    for diff in sorted(glob.glob(d + '/m[0-9].diff')):
        key = pid + '-' + wave + os.path.basename(diff)[:-5]
        n_seen += 1
        if os.environ.get('ONLY') and pid not in os.environ['ONLY'].split(','): continue
        if SHARD and n_seen % sk != si: continue
        if key in out and not os.environ.get('FORCE'): continue
        res = {}
        for c in [pid] + extra.get(pid, []):
            p = subprocess.run(['/verif/tools/try_patch.sh', diff, c], capture_output=True, text=True)
            m = re.search(r'exit=(\d+)', p.stdout); res[c] = int(m.group(1)) if m else ('noapply' if 'DOES NOT APPLY' in p.stdout else 'err')
            if 'DOES NOT APPLY' in p.stdout: break
        out[key] = res; json.dump(out, open(path, 'w'), indent=1); print(key, res, flush=True)
