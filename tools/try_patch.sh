#!/bin/sh
# tools/try_patch.sh <patch.diff> <Cxx> [<Cxx> ...]   run checks against a scratch copy of /repo with the patch applied (never touches /repo)
P="$1"; shift
D=$(mktemp -d /tmp/scr_XXXXXX)
git -C /repo archive HEAD | tar -x -C "$D"
if ! (cd "$D" && git apply --whitespace=nowarn "$P" 2>/dev/null || patch -p1 -s < "$P"); then echo "PATCH DOES NOT APPLY: $P"; rm -rf "$D"; exit 9; fi
for C in "$@"; do
  VERIF_REPO="$D" /verif/check "$C" --tier "${TIER:-quick}" > "$D/out_$C.txt" 2>&1; rc=$?
  echo "== $C exit=$rc  $(grep -c VIOLATION "$D/out_$C.txt") violation lines"; grep -E "VIOLATION|UNDECIDED|BROKEN" "$D/out_$C.txt" | head -${SHOW:-3}
done
rm -rf "$D"
