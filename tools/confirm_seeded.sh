#!/bin/sh
# tools/confirm_seeded.sh <Cxx> <i> : confirm a sub-agent's change in a scratch copy (applies to HEAD of /repo, demo fails with / passes without, test-suite passes)
C=$1; I=$2; case "$C" in /*) SRC=$C;; *) SRC=/tmp/wt_out/$C;; esac; OUT=$SRC/m$I.confirm.json
[ -f "$OUT" ] && { cat "$OUT"; exit 0; }
D=$(mktemp -d /tmp/conf_XXXXXX)
git -C /repo archive HEAD | tar -x -C "$D"
PYTHONPATH=$D timeout 300 /venv/bin/python -W ignore $SRC/m${I}_demo.py > $D/demo_clean.log 2>&1; clean=$?
if ! (cd "$D" && patch -p1 -s < $SRC/m$I.diff); then echo "{\"applies\": false}" > $OUT; rm -rf $D; cat $OUT; exit 1; fi
PYTHONPATH=$D timeout 300 /venv/bin/python -W ignore $SRC/m${I}_demo.py > $D/demo_patched.log 2>&1; patched=$?
(cd $D && PYTHONPATH=$D timeout 3000 /venv/bin/python -m pytest -q -p no:cacheprovider --timeout=900 -n ${NPROC:-5} -x 2>&1 | tail -1 > $D/tests.log)
tests=$(cat $D/tests.log)
printf '{"applies": true, "demo_exit_clean": %s, "demo_exit_patched": %s, "tests": "%s"}\n' "$clean" "$patched" "$tests" > $OUT
rm -rf $D; cat $OUT
