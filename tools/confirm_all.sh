#!/bin/sh
# tools/confirm_all.sh [parallel jobs]: (re-)confirm every sub-agent change of every wave against the CURRENT HEAD of /repo (scratch copies; /repo is never touched).
# FORCE=1 forgets earlier confirmations first.  Each confirmation = demo without patch, patch applies, demo with patch, unedited test-suite with patch.
J=${1:-3}
LIST=$(mktemp)
for d in /tmp/wt_out/C* /tmp/wt2_out/C* /tmp/wt2_out/D* /tmp/wt3_out/E* /tmp/wt3_out/F* /tmp/wt3_out/G*; do
  [ -d "$d" ] || continue
  for f in $d/m[0-9].diff; do [ -f "$f" ] || continue; i=$(basename $f .diff | cut -c2-); [ -n "$FORCE" ] && rm -f $d/m$i.confirm.json; [ -f $d/m$i.confirm.json ] || echo "$d $i" >> $LIST; done
done
echo "to confirm: $(wc -l < $LIST)"
cat $LIST | NPROC=4 xargs -P $J -L 1 sh -c '/verif/tools/confirm_seeded.sh $0 $1 > /dev/null 2>&1; echo "$0 m$1: $(cat $0/m$1.confirm.json 2>/dev/null | cut -c1-150)"'
rm -f $LIST; echo confirm-all done
