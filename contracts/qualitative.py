"""Sidecar contracts (engine P) for AutoCarver/discretizers/utils/qualitative_discretizers.py  --  C03, C09.
find_closest_modality: a rare modality is merged with one of its two ORDER NEIGHBOURS (never further away, never itself, always in range).
numpy 1-d arrays are modelled as lists of mathematical reals (no NaN: a 0/0 target rate is outside the encoding, covered by engine R)."""
from z3 import And, Or, Not, Implies, If
from pyvc.types import *
from pyvc.engine import FunctionSpec

FILE = 'AutoCarver/discretizers/utils/qualitative_discretizers.py'
LR = TList(REAL); lr = LR.th()
SPECS = {}
SPECS['find_closest_modality'] = FunctionSpec(qual='find_closest_modality', file=FILE,
    params=[('idx', INT), ('frequencies', LR), ('target_rates', LR), ('min_freq', REAL)], returns=INT,
    requires=lambda o: And(lr.Len(o['frequencies']) >= 2, lr.Len(o['target_rates']) == lr.Len(o['frequencies']), 0 <= o['idx'], o['idx'] < lr.Len(o['frequencies'])),
    ensures=lambda o, n, r: [('order_neighbour', Or(r == o['idx'] - 1, r == o['idx'] + 1)), ('in_range', And(0 <= r, r < lr.Len(o['frequencies'])))])
