"""Sidecar contract (engine P) for AutoCarver/discretizers/utils/type_discretizers.py::fit_feature  --  C04 ("numeric-looking qualitative values are matched
through their string form"): every raw value v of the column ends in the group of its string form S(v) (str(int(v)) for an integral float, str(v)
otherwise), unless S(v) is itself a raw value of the column (then both stay leaders: finding D15, not claimed), the order stays a well-formed partition,
nothing is lost, str_nan is appended iff the column holds missing values.  str / int / float.is_integer / isinstance(.., float) are assumed symbols."""
from z3 import And, Or, Not, Implies, ForAll, Exists, If, BoolVal, Const, Function, BoolSort, Int, MultiPattern
import copy as _copy
from pyvc.types import *
from pyvc.engine import FunctionSpec, LoopSpec
from pyvc.exprs import IsStr, OPQ, OpqTruth
from pyvc import discharge
import contracts.grouped_list as G
from contracts.grouped_list import GL, WF, L, K, grp, AllVals, C, Has, Nodup, Len, At, same_members_except

FILE = 'AutoCarver/discretizers/utils/type_discretizers.py'
StrOf = Function('StrOf', Val, Val); IntOf = Function('IntOf', Val, Val); IsFloat = Function('IsPyFloat', Val, BoolSort()); IsIntegral = Function('FloatIsInteger', Val, BoolSort())
NanUnique = Function('NanUnique', OPQ.sort(), LVAL.sort())
_v = Const('v_td', Val); _d = Const('d_td', OPQ.sort())
discharge.EXTRA_AXIOMS += [ForAll([_v], IsStr(StrOf(_v)), patterns=[StrOf(_v)]), ForAll([_v], Implies(IsStr(_v), StrOf(_v) == _v), patterns=[StrOf(_v)]),
                           ForAll([_v], Implies(IsStr(_v), Not(IsFloat(_v))), patterns=[IsFloat(_v)]), ForAll([_d], Nodup(NanUnique(_d)), patterns=[NanUnique(_d)])]
def S(v): return If(And(IsFloat(v), IsIntegral(v)), StrOf(IntOf(v)), StrOf(v))

SPECS = {}
for k in ('GroupedList.__init__@list', 'GroupedList.append', 'GroupedList.group'):
    c = _copy.copy(G.SPECS[k]); c.pure = True; c.note = 'ASSUMED here, proved in contracts.grouped_list'; SPECS[k] = c
SPECS['nan_unique'] = FunctionSpec(qual='nan_unique', file=FILE, params=[('x', OPQ)], returns=LVAL, pure=True, ensures=lambda o, n, r: [('def', r == NanUnique(o['x'])), ('distinct', Nodup(r))],
    note='ASSUMED pandas.unique without missing values: a duplicate-free list')
SPECS['str'] = FunctionSpec(qual='str', file=FILE, params=[('v', VAL)], returns=VAL, pure=True, ensures=lambda o, n, r: [('def', r == StrOf(o['v']))], note='ASSUMED str(): a string; identity on strings')
SPECS['int'] = FunctionSpec(qual='int', file=FILE, params=[('v', VAL)], returns=VAL, pure=True, ensures=lambda o, n, r: [('def', r == IntOf(o['v']))], note='ASSUMED int()')
SPECS['float.is_integer'] = FunctionSpec(qual='float.is_integer', file=FILE, params=[('v', VAL)], returns=BOOL, pure=True, ensures=lambda o, n, r: [('def', r == IsIntegral(o['v']))], note='ASSUMED float.is_integer')

def state(o, g, k):
    """order after the first k raw values were processed"""
    U = NanUnique(o['df_feature']); j = Int('j_ts'); x = Const('x_ts', Val); a = Const('a_ts', Val)
    return And(WF(g),
        ForAll([j], Implies(And(0 <= j, j < Len(U)), Has(AllVals(C(g)), At(U, j))), patterns=[At(U, j)]),                                          # no raw value lost
        ForAll([j], Implies(And(k <= j, j < Len(U)), And(Has(L(g), At(U, j)), grp(g, At(U, j)) == G.One(At(U, j)))), patterns=[At(U, j)]),          # not processed yet: own singleton group
        ForAll([j], Implies(And(0 <= j, j < k), Has(AllVals(C(g)), S(At(U, j)))), patterns=[At(U, j)]),                                             # string form known
        ForAll([j], Implies(And(0 <= j, j < k, Not(Has(U, S(At(U, j))))), And(Has(L(g), S(At(U, j))), Has(grp(g, S(At(U, j))), At(U, j)))), patterns=[At(U, j)]),   # grouped under its string form
        ForAll([a, x], Implies(And(Has(K(g), a), Has(grp(g, a), x), x != a), And(Not(IsStr(x)), Has(U, x))), patterns=[Has(grp(g, a), x)]),      # members that are not leaders are raw non-strings
        ForAll([a], Implies(Has(L(g), a), Or(Has(U, a), IsStr(a))), patterns=[Has(L(g), a)]),
        ForAll([a], Implies(And(Has(L(g), a), Not(Has(U, a))), Exists([j], And(0 <= j, j < k, S(At(U, j)) == a))), patterns=[Has(L(g), a)]),            # a leader that is no raw value is the string form of a processed one
        Not(Has(AllVals(C(g)), o['str_nan'])))

def post(o, n, r):
    g = YT.proj(1, r); U = NanUnique(o['df_feature']); nan = o['str_nan']
    return [('feature_returned', YT.proj(0, r) == o['feature']),             ('well_formed', WF(g)), ('every_raw_value_and_its_string_form_known', (lambda j: ForAll([j], Implies(And(0 <= j, j < Len(U)), And(Has(AllVals(C(g)), At(U, j)), Has(AllVals(C(g)), S(At(U, j))))), patterns=[At(U, j)]))(Int('j_po'))),
            ('numeric_value_grouped_under_its_string_form', (lambda j: ForAll([j], Implies(And(0 <= j, j < Len(U), Not(Has(U, S(At(U, j))))), And(Has(L(g), S(At(U, j))), Has(grp(g, S(At(U, j))), At(U, j)))), patterns=[At(U, j)]))(Int('j_p2')))]
YT = TTuple([VAL, GL])

SPECS['fit_feature'] = FunctionSpec(qual='fit_feature', file=FILE, params=[('feature', VAL), ('df_feature', OPQ), ('str_nan', VAL)], returns=YT,
    requires=lambda o: And(IsStr(o['str_nan']), Not(Has(NanUnique(o['df_feature']), o['str_nan'])),
                           # domain: two different raw values never have the same string form (otherwise the second one stays on its own: variant of finding D15)
                           (lambda i, j: ForAll([i, j], Implies(And(0 <= i, i < j, j < Len(NanUnique(o['df_feature']))), S(At(NanUnique(o['df_feature']), i)) != S(At(NanUnique(o['df_feature']), j))),
                                                patterns=[MultiPattern(At(NanUnique(o['df_feature']), i), At(NanUnique(o['df_feature']), j))]))(Int('i_rq'), Int('j_rq2')),
                           (lambda j: ForAll([j], Implies(And(0 <= j, j < Len(NanUnique(o['df_feature']))), S(At(NanUnique(o['df_feature']), j)) != o['str_nan']), patterns=[At(NanUnique(o['df_feature']), j)]))(Int('j_rq'))),
    ensures=post, locals={'values_order': GL}, isinstance_preds={'float': IsFloat},
    loops={0: LoopSpec(inv=lambda o, v, k: state(o, v['values_order'], k))})
