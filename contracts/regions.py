"""REGION contracts (engine P): small list / GroupedList loops embedded in pandas-heavy functions, verified on their own from an ASSUMED entry state.

A region is one loop statement of a real function (found by its ordinal, as loop invariants are); `params` are the names the loop reads, `requires` is what is
assumed about them where the loop starts (NOT proved: the code before the loop is pandas), everything inside the loop is checked as usual: the preconditions of
the GroupedList operations it calls (append needs a value that is not known yet, group needs two leaders), its exceptions, what it leaves behind.  These are the
places where three genuine defects of the pinned tree lived (D13, D28, D30: a value appended although already known).

 * QualitativeDiscretizer._prepare_data, loop 1   the missing-value marker is added to the order of every feature whose column holds missing values        (C08)
 * ChainedDiscretizer._prepare_data, loop 1        unknown values: AssertionError (unknown_handling='raise') or grouped with the marker ('drop')             (C18, C08)
 * ChainedDiscretizer._prepare_data, loop 2        the marker is added to every order whose column holds missing values                                      (C18, C08)
"""
from z3 import And, Or, Not, Implies, ForAll, Exists, If, BoolVal, Const, Int, MultiPattern, Function, BoolSort
import copy as _copy
from pyvc.types import *
from pyvc.engine import FunctionSpec, LoopSpec, str_const
from pyvc.exprs import OPQ, OpqTruth, OpqAsList, opaque_apply
import contracts.grouped_list as G
from contracts.grouped_list import GL, WF, L, K, grp, AllVals, C, Has, Nodup, Len, At

DVG = TDict(VAL, GL); DF = TDict(VAL, OPQ); lv = LVAL.th()
SPECS = {}
for k in ('GroupedList.contains', 'GroupedList.append', 'GroupedList.group'):
    c = _copy.copy(G.SPECS[k]); c.pure = True; c.note = 'ASSUMED here, proved in contracts.grouped_list'; SPECS[k] = c

def all_wf(vo):
    f = Const('f_rg', Val); return ForAll([f], Implies(DVG.has(vo, f), WF(DVG.get(vo, f))), patterns=[DVG.has(vo, f)])
def grows_only(vo0, vo1):
    """same features; every order stays a partition and loses no value"""
    f = Const('f_go', Val)
    return And(DVG.keys(vo1) == DVG.keys(vo0), ForAll([f], Implies(DVG.has(vo0, f), And(WF(DVG.get(vo1, f)), G.same_members_except(DVG.get(vo0, f), DVG.get(vo1, f)))), patterns=[DVG.has(vo0, f)]))

# ------------------------------------------------------------------------------------------------ QualitativeDiscretizer._prepare_data, loop 1
QDP = TObj('QualitativeDiscretizerP', [('features', LVAL), ('values_orders', DVG), ('str_nan', VAL)])
def Q(o, n): return QDP.get(o, n)
def has_missing(x_copy, f): return OpqTruth(opaque_apply('fn_any', [opaque_apply('meth_isna_', [DF.get(x_copy, f)])]))

def q_req(o):
    s = o['self']; f = Const('f_qr', Val)
    return And(all_wf(Q(s, 'values_orders')), Nodup(DVG.keys(Q(s, 'values_orders'))), ForAll([f], Implies(Has(Q(s, 'features'), f), DF.has(o['x_copy'], f)), patterns=[Has(Q(s, 'features'), f)]))
def q_inv(o, v, k):
    s0, s1 = o['self'], v['self']; feats = Q(s0, 'features'); j = Int('j_qi'); vo0, vo1 = Q(s0, 'values_orders'), Q(s1, 'values_orders')
    return And(Q(s1, 'features') == feats, Q(s1, 'str_nan') == Q(s0, 'str_nan'), v['x_copy'] == o['x_copy'], grows_only(vo0, vo1), all_wf(vo1), Nodup(DVG.keys(vo1)),
               ForAll([j], Implies(And(0 <= j, j < k, DVG.has(vo0, At(feats, j)), has_missing(o['x_copy'], At(feats, j))), Has(AllVals(C(DVG.get(vo1, At(feats, j)))), Q(s0, 'str_nan'))), patterns=[At(feats, j)]),
               untouched_without_missing(o, vo0, vo1))
def untouched_without_missing(o, vo0, vo1):
    f = Const('f_uw', Val); s0 = o['self']
    return ForAll([f], Implies(Or(Not(Has(Q(s0, 'features'), f)), Not(has_missing(o['x_copy'], f))), DVG.get(vo1, f) == DVG.get(vo0, f)), patterns=[DVG.get(vo1, f)])
def q_post(o, n, r):
    s0, s1 = o['self'], n['self']; feats = Q(s0, 'features'); f = Const('f_qp', Val); vo0, vo1 = Q(s0, 'values_orders'), Q(s1, 'values_orders')
    return [('orders_stay_partitions_and_lose_nothing', grows_only(vo0, vo1)),
            ('orders_of_columns_without_missing_values_untouched', untouched_without_missing(o, vo0, vo1)),
            ('marker_known_wherever_the_column_holds_missing_values', ForAll([f], Implies(And(Has(feats, f), DVG.has(vo0, f), has_missing(o['x_copy'], f)), Has(AllVals(C(DVG.get(vo1, f))), Q(s0, 'str_nan'))), patterns=[Has(feats, f)]))]
SPECS['QualitativeDiscretizer._prepare_data@marker_loop'] = FunctionSpec(qual='QualitativeDiscretizer._prepare_data', name='QualitativeDiscretizer._prepare_data@marker_loop', file='AutoCarver/discretizers/discretizers.py',
    cls='QualitativeDiscretizerP', region=1, params=[('self', QDP), ('x_copy', DF)], modifies=['self'], requires=q_req, ensures=q_post, locals={'order': GL}, loops={1: LoopSpec(inv=q_inv, modifies=['self'])},
    note='REGION: entry state assumed (orders well formed, every feature column present)')

# ------------------------------------------------------------------------------------------------ ChainedDiscretizer._prepare_data, loops 1 (unknown values) and 2 (marker)
CDP = TObj('ChainedDiscretizerP', [('features', LVAL), ('values_orders', DVG), ('known_values', LVAL), ('str_nan', VAL), ('unknown_handling', VAL)])
def Cf(o, n): return CDP.get(o, n)
RAISE = str_const('raise')
def uniques(x_copy, f): return OpqAsList(opaque_apply('meth_unique_', [DF.get(x_copy, f)]))
def is_unknown(s, v): return And(Not(Has(Cf(s, 'known_values'), v)), v != Cf(s, 'str_nan'))

def c_req(o):
    s = o['self']; f = Const('f_cr', Val); vo = Cf(s, 'values_orders')
    return And(all_wf(vo), Nodup(DVG.keys(vo)), Nodup(Cf(s, 'features')),
               ForAll([f], Implies(Has(Cf(s, 'features'), f), And(DF.has(o['x_copy'], f), DVG.has(vo, f), Nodup(uniques(o['x_copy'], f)))), patterns=[Has(Cf(s, 'features'), f)]))
def c_frame(s0, s1): return And(*[Cf(s1, n) == Cf(s0, n) for n in ('features', 'known_values', 'str_nan', 'unknown_handling')])
def handled(s0, x_copy, f, g1):
    """order g1 of feature f after its unknown values were handled ('drop'): each of them sits in the group led by the marker"""
    i = Int('i_hd'); U = uniques(x_copy, f)
    return ForAll([i], Implies(And(0 <= i, i < Len(U), is_unknown(s0, At(U, i))), And(Has(L(g1), Cf(s0, 'str_nan')), Has(grp(g1, Cf(s0, 'str_nan')), At(U, i)))), patterns=[At(U, i)])
def marker_leads(s0, g): return Implies(Has(AllVals(C(g)), Cf(s0, 'str_nan')), Has(L(g), Cf(s0, 'str_nan')))
def none_unknown(s0, x_copy, f):
    i = Int('i_nu'); U = uniques(x_copy, f); return ForAll([i], Implies(And(0 <= i, i < Len(U)), Not(is_unknown(s0, At(U, i)))), patterns=[At(U, i)])
def c_outer(o, v, k):
    s0, s1 = o['self'], v['self']; feats = Cf(s0, 'features'); j = Int('j_co'); vo0, vo1 = Cf(s0, 'values_orders'), Cf(s1, 'values_orders'); f = Const('f_co', Val)
    return And(ForAll([f], Implies(Has(feats, f), marker_leads(s0, DVG.get(vo1, f))), patterns=[Has(feats, f)]),
               ForAll([j], Implies(And(0 <= j, j < k, Cf(s0, 'unknown_handling') == RAISE), none_unknown(s0, o['x_copy'], At(feats, j))), patterns=[At(feats, j)]),
               c_frame(s0, s1), v['x_copy'] == o['x_copy'], grows_only(vo0, vo1), all_wf(vo1), Nodup(DVG.keys(vo1)),
               ForAll([j], Implies(And(0 <= j, j < k), handled(s0, o['x_copy'], At(feats, j), DVG.get(vo1, At(feats, j)))), patterns=[At(feats, j)]),
               ForAll([f], Implies(Not(Has(lv.Take(feats, k), f)), DVG.get(vo1, f) == DVG.get(vo0, f)), patterns=[DVG.get(vo1, f)]))
def c_inner(o, v, k):
    """k unknown values of the current feature grouped with the marker"""
    s0, s1 = o['self'], v['self']; f = v['feature']; g = DVG.get(Cf(s1, 'values_orders'), f); e = o['$entry']; uv = v['unknown_values']; i = Int('i_ci'); h = Const('h_ci', Val)
    vo_e = Cf(e['self'], 'values_orders')
    return And(marker_leads(s0, g), Cf(s0, 'unknown_handling') != RAISE, c_frame(s0, s1), v['x_copy'] == o['x_copy'], Has(Cf(s0, 'features'), f), v['order'] == g, WF(g), G.same_members_except(DVG.get(vo_e, f), g), uv == e['unknown_values'], Nodup(uv),
               DVG.keys(Cf(s1, 'values_orders')) == DVG.keys(vo_e), ForAll([h], Implies(h != f, DVG.get(Cf(s1, 'values_orders'), h) == DVG.get(vo_e, h)), patterns=[DVG.get(Cf(s1, 'values_orders'), h)]),
               ForAll([i], Implies(And(0 <= i, i < k), And(Has(L(g), Cf(s0, 'str_nan')), Has(grp(g, Cf(s0, 'str_nan')), At(uv, i)))), patterns=[At(uv, i)]),
               # unknown values not handled yet are not members of the marker's group unless they lead a group of their own
               ForAll([i], Implies(And(k <= i, i < Len(uv)), And(At(uv, i) != Cf(s0, 'str_nan'), Implies(Has(AllVals(C(g)), At(uv, i)), Has(L(g), At(uv, i))))), patterns=[At(uv, i)]))
def c_post(o, n, r):
    s0, s1 = o['self'], n['self']; f = Const('f_cp', Val)
    return [('orders_stay_partitions_and_lose_nothing', grows_only(Cf(s0, 'values_orders'), Cf(s1, 'values_orders'))),
            ('the_marker_if_known_leads_a_group', ForAll([f], Implies(Has(Cf(s0, 'features'), f), marker_leads(s0, DVG.get(Cf(s1, 'values_orders'), f))), patterns=[Has(Cf(s0, 'features'), f)])),
            ('unknown_values_sit_in_the_group_of_the_marker', ForAll([f], Implies(Has(Cf(s0, 'features'), f), handled(s0, o['x_copy'], f, DVG.get(Cf(s1, 'values_orders'), f))), patterns=[Has(Cf(s0, 'features'), f)]))]
def c_raises(o):
    s = o['self']; f = Const('f_rz', Val); i = Int('i_rz')
    return And(Cf(s, 'unknown_handling') == RAISE, Exists([f, i], And(Has(Cf(s, 'features'), f), 0 <= i, i < Len(uniques(o['x_copy'], f)), is_unknown(s, At(uniques(o['x_copy'], f), i)))))
SPECS['ChainedDiscretizer._prepare_data@unknown_values_loop'] = FunctionSpec(qual='ChainedDiscretizer._prepare_data', name='ChainedDiscretizer._prepare_data@unknown_values_loop',
    file='AutoCarver/discretizers/utils/qualitative_discretizers.py', cls='ChainedDiscretizerP', region=1, params=[('self', CDP), ('x_copy', DF)], modifies=['self'],
    requires=lambda o: And(c_req(o), unknown_members_lead(o)), ensures=c_post, raises={'AssertionError': c_raises}, locals={'order': GL, 'unknown_values': LVAL},
    loops={1: LoopSpec(inv=c_outer, modifies=['self']), 3: LoopSpec(inv=c_inner, modifies=['self', 'order'])}, note='REGION: entry state assumed (orders well formed; a value unknown to the hierarchy is either absent from the order or leads a group of its own; the marker, if known, leads a group)')
def unknown_members_lead(o):
    s = o['self']; f = Const('f_ul', Val); x = Const('x_ul', Val); vo = Cf(s, 'values_orders'); nan = Cf(s, 'str_nan')
    return ForAll([f, x], Implies(And(Has(Cf(s, 'features'), f), Has(AllVals(C(DVG.get(vo, f))), x), Or(is_unknown(s, x), x == nan)), Has(L(DVG.get(vo, f)), x)), patterns=[MultiPattern(Has(Cf(s, 'features'), f), Has(AllVals(C(DVG.get(vo, f))), x))])

# ------------------------------------------------------------------------------------------------ ChainedDiscretizer._prepare_data, loop 2 (marker added where the column holds missing values)
def col_has_missing(s, x_copy, f):
    c = DF.get(x_copy, f)
    return Or(OpqTruth(opaque_apply('fn_any', [opaque_apply('meth_isna_', [c])])), OpqTruth(opaque_apply('fn_any', [opaque_apply('cmp_Eq', [c, opaque_apply('box_Val', [Cf(s, 'str_nan')])])])))
def m_req(o):
    s = o['self']; f = Const('f_mr', Val); vo = Cf(s, 'values_orders')
    return And(all_wf(vo), Nodup(DVG.keys(vo)), ForAll([f], Implies(DVG.has(vo, f), And(DF.has(o['x_copy'], f), marker_leads(s, DVG.get(vo, f)))), patterns=[DVG.has(vo, f)]))
def m_inv(o, v, k):
    s0, s1 = o['self'], v['self']; vo0, vo1 = Cf(s0, 'values_orders'), Cf(s1, 'values_orders'); keys = DVG.keys(vo0); j = Int('j_mi'); f = Const('f_mi', Val)
    return And(c_frame(s0, s1), v['x_copy'] == o['x_copy'], grows_only(vo0, vo1), all_wf(vo1),
               ForAll([j], Implies(And(0 <= j, j < k, col_has_missing(s0, o['x_copy'], At(keys, j))), Has(L(DVG.get(vo1, At(keys, j))), Cf(s0, 'str_nan'))), patterns=[At(keys, j)]),
               ForAll([f], Implies(Not(Has(lv.Take(keys, k), f)), DVG.get(vo1, f) == DVG.get(vo0, f)), patterns=[DVG.get(vo1, f)]))
def m_post(o, n, r):
    s0, s1 = o['self'], n['self']; vo0, vo1 = Cf(s0, 'values_orders'), Cf(s1, 'values_orders'); f = Const('f_mp', Val)
    return [('orders_stay_partitions_and_lose_nothing', grows_only(vo0, vo1)),
            ('marker_leads_a_group_wherever_the_column_holds_missing_values', ForAll([f], Implies(And(DVG.has(vo0, f), col_has_missing(s0, o['x_copy'], f)), Has(L(DVG.get(vo1, f)), Cf(s0, 'str_nan'))), patterns=[DVG.has(vo0, f)]))]
SPECS['ChainedDiscretizer._prepare_data@marker_loop'] = FunctionSpec(qual='ChainedDiscretizer._prepare_data', name='ChainedDiscretizer._prepare_data@marker_loop',
    file='AutoCarver/discretizers/utils/qualitative_discretizers.py', cls='ChainedDiscretizerP', region=2, params=[('self', CDP), ('x_copy', DF)], modifies=['self'],
    requires=m_req, ensures=m_post, locals={'order': GL}, loops={2: LoopSpec(inv=m_inv, modifies=['self'])},
    note='REGION: entry state assumed (orders well formed; the marker, if known, leads a group -- what the unknown-values loop leaves behind)')

# ------------------------------------------------------------------------------------------------ ChainedDiscretizer.fit, loop 0 (with its two nested loops): the merge along the hierarchy
# Which values are merged depends on pandas frequencies (uninterpreted here).  Proved, whatever those frequencies are: every order stays a partition and NO VALUE IS
# LOST ("after fit every value known to the hierarchy is still present in values_orders"), the features and their other attributes are untouched.  `group` refuses
# (AssertionError) a value that is not a leader: that exit is allowed, not characterised (may_raise).
LGL = TList(GL)
CDF = TObj('ChainedDiscretizerF', [('features', LVAL), ('values_orders', DVG), ('chained_orders', LGL), ('str_nan', VAL), ('min_freq', OPQ)])
def Ff(o, n): return CDF.get(o, n)
lg = LGL.th()
for k in ('GroupedList.values', 'GroupedList.get_group'):
    c = _copy.copy(G.SPECS[k]); c.pure = True; c.note = 'ASSUMED here, proved in contracts.grouped_list'; SPECS[k] = c
def f_frame(s0, s1): return And(*[Ff(s1, n) == Ff(s0, n) for n in ('features', 'chained_orders', 'str_nan', 'min_freq')])
def f_req(o):
    s = o['self']; f = Const('f_fr', Val); vo = Ff(s, 'values_orders'); i = Int('i_fr')
    return And(all_wf(vo), Nodup(DVG.keys(vo)), ForAll([f], Implies(Has(Ff(s, 'features'), f), And(DF.has(o['x_copy'], f), DVG.has(vo, f))), patterns=[Has(Ff(s, 'features'), f)]),
               ForAll([i], Implies(And(0 <= i, i < lg.Len(Ff(s, 'chained_orders'))), WF(lg.At(Ff(s, 'chained_orders'), i))), patterns=[lg.At(Ff(s, 'chained_orders'), i)]))
def f_state(o, v):
    s0, s1 = o['self'], v['self']; f = Const('f_fs', Val)
    return And(f_frame(s0, s1), grows_only(Ff(s0, 'values_orders'), Ff(s1, 'values_orders')), all_wf(Ff(s1, 'values_orders')), Nodup(DVG.keys(Ff(s1, 'values_orders'))), DF.keys(v['x_copy']) == DF.keys(o['x_copy']))
def f_inv_pairs(o, v, k): return And(f_state(o, v), Has(Ff(o['self'], 'features'), v['feature']))
SPECS['ChainedDiscretizer.fit@merge_loop'] = FunctionSpec(qual='ChainedDiscretizer.fit', name='ChainedDiscretizer.fit@merge_loop', file='AutoCarver/discretizers/utils/qualitative_discretizers.py',
    cls='ChainedDiscretizerF', region=0, params=[('self', CDF), ('x_copy', DF)], modifies=['self', 'x_copy'], requires=f_req,
    ensures=lambda o, n, r: [('orders_stay_partitions_and_no_value_known_to_the_hierarchy_is_lost', grows_only(Ff(o['self'], 'values_orders'), Ff(n['self'], 'values_orders'))), ('only_values_orders_written', f_frame(o['self'], n['self']))],
    raises={'AssertionError': lambda o: BoolVal(True)}, may_raise=['AssertionError'], opaque_functions={'select'},
    locals={'to_keep': LVAL, 'values_to_group': LVAL, 'groups_value': LVAL, 'df_to_input': TList(OPQ), 'frequencies': OPQ, 'values': OPQ},
    loops={0: LoopSpec(inv=lambda o, v, k: f_state(o, v), modifies=['self', 'x_copy']), 1: LoopSpec(inv=f_inv_pairs, modifies=['self', 'x_copy']), 2: LoopSpec(inv=f_inv_pairs, modifies=['self'])},
    note='REGION: entry state assumed (orders and hierarchy levels well formed, feature columns present)')
