"""Sidecar contract (engine P) for BaseCarver._test_viability  --  C01 ("the carver keeps the MOST associated VIABLE combination"), C02 (every kept
combination passed the min_freq_mod / distinct-rates tests on train, and the rank / min_freq_mod / distinct-rates tests on dev when a dev sample is given).

`associations_xagg` is the list of candidate combinations in decreasing order of association (sorted by pandas in _get_best_association: assumed).  Proved,
for a list of ANY length: the function returns the FIRST candidate of the list that is viable, and None iff no candidate is viable, where

    viable(a)  =  train_viable(a)  and  (no dev sample  or  dev_viable(a))
    train_viable(a) = all(frequency(a) >= min_freq_mod)  and  not any(isclose(rate(a)[1:], rate(a).shift(1)[1:]))
    dev_viable(a)   = all(sorted-by-rate index of train == sorted-by-rate index of dev)  and  all(dev frequency >= min_freq_mod)  and  not any(isclose(consecutive dev rates))

The pandas / numpy pieces (`_printer`, `_grouper`, subscripting, `>=`, isclose, any, all, sort_values, .index, .shift) are uninterpreted library symbols:
the contract pins down WHICH library computations decide viability and how their verdicts are combined and used by the loop (first viable candidate wins,
`break`), not what pandas computes (that part is bounded: engine R, oracle of C01 / C02).  `_historize_viability_test` is assumed to write only self._history."""
from z3 import And, Or, Not, Implies, ForAll, If, BoolVal, Const, Int, IntVal
from pyvc.types import *
from pyvc.engine import FunctionSpec, LoopSpec, str_const
from pyvc.exprs import OPQ, opaque_apply, OpqTruth

FILE = 'AutoCarver/carvers/base_carver.py'
LOPQ = TList(OPQ); lo = LOPQ.th()
BCV = TObj('BaseCarverV', [('min_freq_mod', OPQ), ('verbose', BOOL), ('_history', OPQ)])
def F(o, n): return BCV.get(o, n)
def box(s): return opaque_apply('box_Val', [str_const(s)])
def boxi(i): return opaque_apply('box_Int', [IntVal(i)])
def getitem(a, k): return opaque_apply('getitem', [a, k])
def Printer(x): return opaque_apply('carver_printer', [x])
def Grouper(x, by): return opaque_apply('carver_grouper', [x, by])
def tail(x): return opaque_apply('slice_1:', [x])          # x[1:]
def truth(x): return OpqTruth(x)

def freq_ok(rates, mfm): return truth(opaque_apply('fn_all', [opaque_apply('cmp_GtE', [getitem(rates, box('frequency')), mfm])]))
def distinct(rates):
    r = getitem(rates, box('target_rate'))
    return Not(truth(opaque_apply('fn_any', [opaque_apply('fn_isclose_', [tail(r), tail(opaque_apply('meth_shift_', [r, boxi(1)]))])])))
def sorted_index(rates): return opaque_apply('attr_index', [opaque_apply('meth_sort_values_', [rates, box('target_rate')])])
def same_ranks(tr, dv): return truth(opaque_apply('fn_all', [opaque_apply('cmp_Eq', [sorted_index(tr), sorted_index(dv)])]))

def train_viable(s, a): tr = Printer(getitem(a, box('xagg'))); return And(freq_ok(tr, F(s, 'min_freq_mod')), distinct(tr))
def dev_viable(s, a, dev):
    tr = Printer(getitem(a, box('xagg'))); dv = Printer(Grouper(dev, getitem(a, box('index_to_groupby'))))
    return And(same_ranks(tr, dv), freq_ok(dv, F(s, 'min_freq_mod')), distinct(dv))
def viable(s, a, dev): return And(train_viable(s, a), dev_viable(s, a, dev)) if dev is not None else train_viable(s, a)

SPECS = {}
SPECS['BaseCarverV._printer'] = FunctionSpec(qual='BaseCarver._printer', name='BaseCarverV._printer', file=FILE, cls='BaseCarverV', params=[('self', BCV), ('xagg', OPQ)], returns=OPQ, pure=True,
    ensures=lambda o, n, r: [('def', r == Printer(o['xagg']))], note='ASSUMED (abstract method of the carvers: target rate and frequency per modality of a crosstab; pandas) -- a function of the crosstab only')
SPECS['BaseCarverV._grouper'] = FunctionSpec(qual='BaseCarver._grouper', name='BaseCarverV._grouper', file=FILE, cls='BaseCarverV', params=[('self', BCV), ('xagg', OPQ), ('groupby', OPQ)], returns=OPQ, pure=True,
    ensures=lambda o, n, r: [('def', r == Grouper(o['xagg'], o['groupby']))], note='ASSUMED (abstract method of the carvers: crosstab grouped by a combination; pandas) -- a function of its two arguments only')
SPECS['BaseCarverV._historize_viability_test'] = FunctionSpec(qual='BaseCarver._historize_viability_test', name='BaseCarverV._historize_viability_test', file=FILE, cls='BaseCarverV',
    params=[('self', BCV), ('feature', VAL), ('association', OPQ), ('order', OPQ), ('n_combination', INT), ('associations_xagg', LOPQ), ('dropna', BOOL), ('verbose', BOOL)],
    defaults={'n_combination': None, 'associations_xagg': None, 'dropna': False, 'verbose': False}, var_keyword=True, modifies=['self'], pure=True,
    ensures=lambda o, n, r: [('writes_only_the_history', And(F(n['self'], 'min_freq_mod') == F(o['self'], 'min_freq_mod'), F(n['self'], 'verbose') == F(o['self'], 'verbose')))],
    note='ASSUMED here: appends to self._history[feature] and writes nothing else (bounded: engine R, C03 / C07 history clauses)')


def make(dev):
    params = [('self', BCV), ('feature', VAL), ('order', OPQ), ('associations_xagg', LOPQ), ('xagg_dev', OPQ if dev else None), ('dropna', BOOL)]
    D = (lambda o: o['xagg_dev']) if dev else (lambda o: None)
    def none_before(o, k):
        j = Int('j_vb'); A = o['associations_xagg']
        return ForAll([j], Implies(And(0 <= j, j < k), Not(viable(o['self'], lo.At(A, j), D(o)))), patterns=[lo.At(A, j)])
    def inv(o, v, k):
        return And(v['$none']['best_association'], none_before(o, k), F(v['self'], 'min_freq_mod') == F(o['self'], 'min_freq_mod'), F(v['self'], 'verbose') == F(o['self'], 'verbose'))
    def post(o, n, r, loc):
        A = o['associations_xagg']; i = loc.get('n_combination', Int('no_iteration')); none = loc['$result_none']
        return [('None_iff_no_candidate_is_viable', none == none_before(o, lo.Len(A))),
                ('otherwise_the_first_viable_candidate_in_the_given_order', Implies(Not(none), And(0 <= i, i < lo.Len(A), r == lo.At(A, i), viable(o['self'], lo.At(A, i), D(o)), none_before(o, i))))]
    return FunctionSpec(qual='BaseCarver._test_viability', name='BaseCarver._test_viability@' + ('dev' if dev else 'nodev'), file=FILE, cls='BaseCarverV', params=params, returns=OPQ, returns_optional=True,
        modifies=['self'], ensures=post, locals={'test_results': TDict(VAL, OPQ), 'best_association': OPQ, 'train_viable': BOOL, 'dev_viable': BOOL},
        opaque_functions={'isclose'}, loops={0: LoopSpec(inv=inv)})

SPECS['BaseCarver._test_viability@nodev'] = make(False)
SPECS['BaseCarver._test_viability@dev'] = make(True)
