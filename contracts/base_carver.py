"""Sidecar contracts (engine P) for the pure kernels of AutoCarver/carvers/base_carver.py  --  C01, C02, C03.

combinations_at_index   : exact characterisation of the yields
consecutive_combinations: soundness (only order-contiguous partitions into 2..max groups) AND completeness against the recursive
                          spec predicate InPart; accumulator only grows; termination (decreases)
nan_combinations        : result is exactly FlatMap(Block, C) for ANY result C of the callee
"""
from z3 import (And, Or, Not, Implies, ForAll, Exists, If, BoolVal, IntVal, Const, Consts, Function, IntSort, BoolSort, Int, Ints, MultiPattern)
from pyvc.types import *
from pyvc.engine import FunctionSpec, LoopSpec
from pyvc import discharge

FILE = 'AutoCarver/carvers/base_carver.py'
G = LVAL; Cmb = TList(G); AllT = TList(Cmb); YT = TTuple([G, INT, INT]); YL = TList(YT)
g, cm, al, yl = G.th(), Cmb.th(), AllT.th(), YL.th()
comb_ = lambda t: YT.proj(0, t); nxt_ = lambda t: YT.proj(1, t); rem_ = lambda t: YT.proj(2, t)
SPECS = {}

# ---------------------------------------------------------------------------------------------- spec functions
Flat = Function('Flat', Cmb.sort(), G.sort())                                       # concatenation of the groups of a combination
InPart = Function('InPart', Cmb.sort(), G.sort(), IntSort(), IntSort(), BoolSort())  # c partitions order[i:] into <= r contiguous non-empty groups
c1, c2, c = Consts('c1_bc c2_bc c_bc', Cmb.sort()); gg, od = Consts('gg_bc od_bc', G.sort()); i, r = Ints('i_bc r_bc')
c0 = cm.At(c, 0); e = i + g.Len(c0)
sA, tA = Consts('sA_bc tA_bc', AllT.sort()); zc = Const('zc_bc', Cmb.sort())
discharge.EXTRA_AXIOMS += [
    Flat(cm.Emp) == g.Emp,
    ForAll([gg], Flat(cm.One(gg)) == gg, patterns=[cm.One(gg)]),
    ForAll([c1, c2], Flat(cm.App(c1, c2)) == g.App(Flat(c1), Flat(c2)), patterns=[cm.App(c1, c2)]),
    ForAll([c, od, i, r], InPart(c, od, i, r) == Or(And(cm.Len(c) == 0, i == g.Len(od)),
        And(cm.Len(c) >= 1, g.Len(c0) >= 1, e <= g.Len(od), c0 == g.Slice(od, i, e), Or(r > 1, e == g.Len(od)), InPart(cm.Drop(c, 1), od, e, r - 1))),
        patterns=[InPart(c, od, i, r)]),
    ForAll([c], Implies(cm.Len(c) >= 1, c == cm.App(cm.One(cm.At(c, 0)), cm.Drop(c, 1))), patterns=[cm.Drop(c, 1)]),            # -- lean: cons_head_tail
    ForAll([sA, zc], al.Has(al.App(sA, al.One(zc)), zc), patterns=[al.App(sA, al.One(zc))]),
]


# ---------------------------------------------------------------------------------------------- combinations_at_index
def YPost(order, start, nb, Ys, sz):
    n = g.Len(order); k = Int('k_yp'); cnt = If(sz - 1 <= n - start, sz - 1, n - start)
    return And(
        Implies(nb > 1, And(yl.Len(Ys) == If(cnt < 0, 0, cnt), ForAll([k], Implies(And(0 <= k, k < yl.Len(Ys)), And(nxt_(yl.At(Ys, k)) == start + k + 1,
            comb_(yl.At(Ys, k)) == g.Slice(order, start, start + k + 1), rem_(yl.At(Ys, k)) == nb - 1)), patterns=[yl.At(Ys, k)]))),
        Implies(nb <= 1, And(yl.Len(Ys) == If(And(n - start >= 1, n - start < sz), 1, 0),
            Implies(yl.Len(Ys) == 1, And(nxt_(yl.At(Ys, 0)) == n, comb_(yl.At(Ys, 0)) == g.Slice(order, start, n), rem_(yl.At(Ys, 0)) == nb - 1)))))

SPECS['combinations_at_index'] = FunctionSpec(qual='combinations_at_index', file=FILE,
    params=[('start_idx', INT), ('order', G), ('nb_remaining_groups', INT), ('min_group_size', INT)], defaults={'min_group_size': IntVal(1)},
    returns=YL, generator=True,
    requires=lambda o: And(0 <= o['start_idx'], o['start_idx'] <= g.Len(o['order']), o['min_group_size'] == 1),
    ensures=lambda o, n, res: [('yields_exact', YPost(o['order'], o['start_idx'], o['nb_remaining_groups'], res, g.Len(o['order']) + 1))],
    loops={0: LoopSpec(inv=lambda o, v, sz: YPost(o['order'], o['start_idx'], o['nb_remaining_groups'], v['$yields'], sz))})


# ---------------------------------------------------------------------------------------------- consecutive_combinations
def NonEmpty(cb, tag):
    k = Int('ne_' + tag); return ForAll([k], Implies(And(0 <= k, k < cm.Len(cb)), g.Len(cm.At(cb, k)) >= 1), patterns=[cm.At(cb, k)])
def SoundComb(z, order, mx, tag): return And(Flat(z) == order, NonEmpty(z, tag), 2 <= cm.Len(z), cm.Len(z) <= mx)
def SoundFrom(allc, lo, order, mx, tag):
    k = Int('sf_' + tag); return ForAll([k], Implies(And(lo <= k, k < al.Len(allc)), SoundComb(al.At(allc, k), order, mx, tag + 'i')), patterns=[al.At(allc, k)])
def Complete(cur, order, idx, nbr, mx, allc, tag):
    q = Const('cq_' + tag, Cmb.sort())
    return ForAll([q], Implies(And(InPart(q, order, idx, nbr), 1 < cm.Len(cur) + cm.Len(q), cm.Len(cur) + cm.Len(q) <= mx), al.Has(allc, cm.App(cur, q))), patterns=[InPart(q, order, idx, nbr)])

def CC_req(o):
    return And(o['min_group_size'] == 1, 0 <= o['next_index'], o['next_index'] <= g.Len(o['raw_order']), Or(o['nb_remaining_group'] >= 1, o['next_index'] == g.Len(o['raw_order'])),
               Flat(o['current_combination']) == g.Take(o['raw_order'], o['next_index']), NonEmpty(o['current_combination'], 'rq'))
def CC_ens(o, n, res):
    a0, a1 = o['all_combinations'], n['all_combinations']
    return [('accumulator_only_grows', al.Prefix(a0, a1)), ('sound', SoundFrom(a1, al.Len(a0), o['raw_order'], o['max_group_size'], 'e')),
            ('complete', Complete(o['current_combination'], o['raw_order'], o['next_index'], o['nb_remaining_group'], o['max_group_size'], a1, 'e'))] + \
           ([('returns_accumulator', res == a1)] if res is not None else [])
def CC_inv(o, v, k):
    a0, ak = o['all_combinations'], v['all_combinations']; q = Const('iq', Cmb.sort())
    pos = If(o['nb_remaining_group'] > 1, g.Len(cm.At(q, 0)) - 1, 0)
    return And(al.Prefix(a0, ak), SoundFrom(ak, al.Len(a0), o['raw_order'], o['max_group_size'], 'iv'),
        ForAll([q], Implies(And(InPart(q, o['raw_order'], o['next_index'], o['nb_remaining_group']), 1 < cm.Len(o['current_combination']) + cm.Len(q),
                                cm.Len(o['current_combination']) + cm.Len(q) <= o['max_group_size'], Or(cm.Len(q) == 0, pos < k)), al.Has(ak, cm.App(o['current_combination'], q))),
               patterns=[InPart(q, o['raw_order'], o['next_index'], o['nb_remaining_group'])]))
CC_PARAMS = [('raw_order', G), ('max_group_size', INT), ('min_group_size', INT), ('nb_remaining_group', INT), ('current_combination', Cmb), ('next_index', INT), ('all_combinations', AllT)]
SPECS['consecutive_combinations'] = FunctionSpec(qual='consecutive_combinations', file=FILE, params=CC_PARAMS, returns=AllT, modifies=['all_combinations'],
    requires=CC_req, ensures=CC_ens, decreases=lambda o: g.Len(o['raw_order']) - o['next_index'],
    loops={0: LoopSpec(inv=CC_inv, modifies=['all_combinations'])})

# top-level overload: only (raw_order, max_group_size, min_group_size=1) given
def CCtop_ens(o, n, res):
    q = Const('tq', Cmb.sort())
    return [('sound', SoundFrom(res, 0, o['raw_order'], o['max_group_size'], 't')),
            ('complete', ForAll([q], Implies(And(InPart(q, o['raw_order'], 0, o['max_group_size']), 1 < cm.Len(q), cm.Len(q) <= o['max_group_size']), al.Has(res, q)),
                                patterns=[InPart(q, o['raw_order'], 0, o['max_group_size'])]))]
SPECS['consecutive_combinations@top'] = FunctionSpec(qual='consecutive_combinations', name='consecutive_combinations@top', file=FILE,
    params=[('raw_order', G), ('max_group_size', INT), ('min_group_size', INT), ('nb_remaining_group', None), ('current_combination', None), ('next_index', None), ('all_combinations', None)],
    defaults={'nb_remaining_group': None, 'current_combination': None, 'next_index': None, 'all_combinations': None}, returns=AllT,
    requires=lambda o: And(o['min_group_size'] == 1, o['max_group_size'] >= 1),
    ensures=CCtop_ens, locals={'current_combination': Cmb, 'all_combinations': AllT},
    loops={0: LoopSpec(modifies=['all_combinations'], inv=lambda o, v, k: CC_inv(dict(o, all_combinations=al.Emp, current_combination=cm.Emp, next_index=IntVal(0), nb_remaining_group=o['max_group_size']), v, k))})


# ---------------------------------------------------------------------------------------------- nan_combinations
Block = Function('Block', Cmb.sort(), IntSort(), Val, AllT.sort())              # placements of str_nan on one combination c (spec)
FM = Function('FlatMapBlock', AllT.sort(), IntSort(), IntSort(), Val, AllT.sort())   # FlatMap(Block, Cs[:i])
cB = Const('cB', Cmb.sort()); jB, mxB, iB = Ints('jB mxB iB'); nvB = Const('nvB', Val); sAB = Const('sAB', AllT.sort())
def place(c_, j_, nv_): return cm.Upd(c_, j_, g.App(cm.At(c_, j_), g.One(nv_)))
def alone(c_, nv_): return cm.App(c_, cm.One(g.One(nv_)))
discharge.EXTRA_AXIOMS += [
  ForAll([cB, mxB, nvB], al.Len(Block(cB, mxB, nvB)) == cm.Len(cB) + If(cm.Len(cB) < mxB, 1, 0), patterns=[Block(cB, mxB, nvB)]),
  ForAll([cB, mxB, nvB, jB], Implies(And(0 <= jB, jB < cm.Len(cB)), al.At(Block(cB, mxB, nvB), jB) == place(cB, jB, nvB)), patterns=[al.At(Block(cB, mxB, nvB), jB)]),
  ForAll([cB, mxB, nvB], Implies(cm.Len(cB) < mxB, al.At(Block(cB, mxB, nvB), cm.Len(cB)) == alone(cB, nvB)), patterns=[Block(cB, mxB, nvB)]),
  ForAll([sAB, mxB, nvB], FM(sAB, 0, mxB, nvB) == al.Emp, patterns=[FM(sAB, 0, mxB, nvB)]),
  ForAll([sAB, iB, mxB, nvB], Implies(And(0 <= iB, iB < al.Len(sAB)), FM(sAB, iB + 1, mxB, nvB) == al.App(FM(sAB, iB, mxB, nvB), Block(al.At(sAB, iB), mxB, nvB))),
         patterns=[MultiPattern(FM(sAB, iB, mxB, nvB), al.At(sAB, iB))]),
]
def nan_inner_inv(o, v, n_):
    jj = Int('jj_ni'); NC = v['nan_combination']; cc = v['combination']
    return And(al.Len(NC) == n_, ForAll([jj], Implies(And(0 <= jj, jj < n_), al.At(NC, jj) == place(cc, jj, o['str_nan'])), patterns=[al.At(NC, jj)]))
def nan_outer_inv(o, v, k): return al.Ext(v['nan_combis'], FM(v['combinations'], k, o['max_n_mod'], o['str_nan']))
SPECS['nan_combinations'] = FunctionSpec(qual='nan_combinations', file=FILE, params=[('raw_order', G), ('str_nan', VAL), ('max_n_mod', INT)], returns=AllT,
    requires=lambda o: o['max_n_mod'] >= 1,
    ghost={},
    ensures=lambda o, n, res: [],        # the exact post-condition is the outer invariant at exit, re-stated as ghost assertion below (needs the callee's result)
    locals={'nan_combis': AllT, 'nan_combination': AllT},
    loops={0: LoopSpec(inv=nan_outer_inv), 1: LoopSpec(inv=nan_inner_inv)})


# ---------------------------------------------------------------------------------------------- order_apply_combination
import contracts.grouped_list as GLC
from contracts.grouped_list import GL, WF, L, K, grp, same_members_except, Has as HasV, Nodup as NodupV
for _k in ('GroupedList.group_list', 'GroupedList.__init__@copy', 'GroupedList.__init__@list', 'GroupedList.__init__@dict'):
    _c = __import__('copy').copy(GLC.SPECS[_k]); _c.pure = True; _c.note = 'ASSUMED here, proved in contracts.grouped_list'; SPECS[_k] = _c

def comb_wellformed(order, comb):
    j, i2 = Int('j_oa'), Int('i_oa'); x = Const('x_oa', Val)
    return And(
        ForAll([j], Implies(And(0 <= j, j < cm.Len(comb)), And(g.Len(cm.At(comb, j)) >= 1, NodupV(cm.At(comb, j)))), patterns=[cm.At(comb, j)]),
        ForAll([j, x], Implies(And(0 <= j, j < cm.Len(comb), HasV(cm.At(comb, j), x)), HasV(L(order), x)), patterns=[HasV(cm.At(comb, j), x)]),
        ForAll([j, i2, x], Implies(And(0 <= j, j < i2, i2 < cm.Len(comb), HasV(cm.At(comb, j), x)), Not(HasV(cm.At(comb, i2), x))), patterns=[MultiPattern(HasV(cm.At(comb, j), x), cm.At(comb, i2))]))

def oac_state(order, oc, comb, k):
    """order_copy after the first k groups of the combination were merged under their first element"""
    j = Int('j_os'); x, v = Consts('x_os v_os', Val)
    head = lambda jj: g.At(cm.At(comb, jj), 0)
    return And(WF(oc), same_members_except(order, oc),
        # groups not processed yet: their modalities are still leaders with their own members
        ForAll([j, x], Implies(And(k <= j, j < cm.Len(comb), HasV(cm.At(comb, j), x)), And(HasV(L(oc), x), grp(oc, x) == grp(order, x))), patterns=[HasV(cm.At(comb, j), x)]),
        # processed groups: every member value of every modality of the group sits under the group's first modality, which is still a leader
        ForAll([j, x, v], Implies(And(0 <= j, j < k, HasV(cm.At(comb, j), x), HasV(grp(order, x), v)), And(HasV(L(oc), head(j)), HasV(grp(oc, head(j)), v))), patterns=[MultiPattern(HasV(cm.At(comb, j), x), HasV(grp(order, x), v))]),
        ForAll([j, x], Implies(And(0 <= j, j < k, HasV(cm.At(comb, j), x), x != head(j)), Not(HasV(L(oc), x))), patterns=[MultiPattern(HasV(cm.At(comb, j), x), HasV(L(oc), x))]),
        # leaders never come from nowhere
        ForAll([x], Implies(HasV(L(oc), x), HasV(L(order), x)), patterns=[HasV(L(oc), x)]))

SPECS['order_apply_combination'] = FunctionSpec(qual='order_apply_combination', file=FILE, params=[('order', GL), ('combination', Cmb)], returns=GL,
    requires=lambda o: And(WF(o['order']), comb_wellformed(o['order'], o['combination'])),
    ensures=lambda o, n, r: [('merged_view', oac_state(o['order'], r, o['combination'], cm.Len(o['combination'])))],
    locals={'order_copy': GL},
    loops={0: LoopSpec(inv=lambda o, v, k: oac_state(o['order'], v['order_copy'], o['combination'], k))})


# ------------------------------------------------------------------------------------------------ BaseCarver._combination_formatter
# {modal: group[0] for group in combination for modal in group}: every modality of a combination is mapped to the first modality of its group (the dict pandas
# groups the crosstab by).  Precondition from the enumerators' contracts: groups are non-empty and no modality occurs twice.
from pyvc.types import TDict
DVVc = TDict(VAL, VAL); BCF = TObj('BaseCarverF', [('str_nan', VAL)])
def cf_req(o):
    Cm = o['combination']; a, b, a2, b2 = Int('a_cf'), Int('b_cf'), Int('a_cg'), Int('b_cg')
    inr = lambda x, y: And(0 <= x, x < cm.Len(Cm), 0 <= y, y < g.Len(cm.At(Cm, x)))
    return And(ForAll([a], Implies(And(0 <= a, a < cm.Len(Cm)), g.Len(cm.At(Cm, a)) > 0), patterns=[cm.At(Cm, a)]),
               ForAll([a, b, a2, b2], Implies(And(inr(a, b), inr(a2, b2), Or(a != a2, b != b2)), g.At(cm.At(Cm, a), b) != g.At(cm.At(Cm, a2), b2)), patterns=[MultiPattern(g.At(cm.At(Cm, a), b), g.At(cm.At(Cm, a2), b2))]))
def cf_post(o, n, r):
    Cm = o['combination']; a, b = Int('a_cp'), Int('b_cp'); x = Const('x_cp', Val)
    inr = And(0 <= a, a < cm.Len(Cm), 0 <= b, b < g.Len(cm.At(Cm, a)))
    return [('every_modality_mapped_to_the_first_of_its_group', ForAll([a, b], Implies(inr, And(DVVc.has(r, g.At(cm.At(Cm, a), b)), DVVc.get(r, g.At(cm.At(Cm, a), b)) == g.At(cm.At(Cm, a), 0))), patterns=[g.At(cm.At(Cm, a), b)])),
            ('nothing_else_is_mapped', ForAll([x], Implies(DVVc.has(r, x), Exists([a, b], And(inr, x == g.At(cm.At(Cm, a), b)))), patterns=[DVVc.has(r, x)]))]
SPECS['BaseCarver._combination_formatter'] = FunctionSpec(qual='BaseCarver._combination_formatter', file=FILE, cls='BaseCarverF', params=[('self', BCF), ('combination', TList(LVAL))], returns=DVVc,
    requires=cf_req, ensures=cf_post)
