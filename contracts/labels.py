"""Sidecar contract (engine P) for BaseDiscretizer._get_labels_per_values  --  C04 ("distinct groups always receive distinct labels", float labels
are the group's rank, a qualitative 'str' label is the leader, members of one group share one label, the label table covers exactly the known values).

Precondition taken from the call sites (every fit path ends with it; see NanLast in DESIGN section 5, C04): each order is a well-formed GroupedList and
`str_nan`, if it is a leader, is the LAST leader.  `get_labels` (numpy.isfinite + string formatting) is an assumed contract: one label per non-missing
leader, pairwise distinct, none equal to str_nan (the distinctness is a bounded clause of engine R on format_quantiles)."""
from z3 import And, Or, Not, Implies, ForAll, Exists, If, BoolVal, Const, Consts, Select, Function, IntSort, BoolSort, Int, MultiPattern
import copy as _copy
from pyvc.types import *
from pyvc.engine import FunctionSpec, LoopSpec, IntAsVal, str_const
from pyvc import discharge
import contracts.grouped_list as G
from contracts.grouped_list import GL, WF, L, K, grp, AllVals, C, Has, Nodup, Len, At, Idx

FILE = 'AutoCarver/discretizers/utils/base_discretizers.py'
DVG = TDict(VAL, GL); DVV = TDict(VAL, VAL); RES = TDict(VAL, DVV)
BDL = TObj('BaseDiscretizerL', [('features', LVAL), ('quantitative_features', LVAL), ('values_orders', DVG), ('str_nan', VAL)])
def F(o, n): return BDL.get(o, n)
def order_of(o, f): return DVG.get(F(o, 'values_orders'), f)
GetLabels = Function('GetLabels', LVAL.sort(), Val, LVAL.sort())
_i, _j = Int('i_lb'), Int('j_lb')
discharge.EXTRA_AXIOMS += [ForAll([_i, _j], Implies(IntAsVal(_i) == IntAsVal(_j), _i == _j), patterns=[MultiPattern(IntAsVal(_i), IntAsVal(_j))])]      # int labels are distinct values

_q = Const('q_lb', LVAL.sort()); _nn = Const('nan_lb', Val)
discharge.EXTRA_AXIOMS += [ForAll([_q, _nn], Implies(Nodup(_q), And(Len(GetLabels(_q, _nn)) == Len(_q) - If(Has(_q, _nn), 1, 0), Nodup(GetLabels(_q, _nn)), Not(Has(GetLabels(_q, _nn), _nn)))),
                                  patterns=[GetLabels(_q, _nn)])]          # the ASSUMED contract of get_labels, as a fact about the spec function
FLOAT = str_const('float')
SPECS = {}
_c = _copy.copy(G.SPECS['GroupedList.get']); _c.pure = True; _c.note = 'ASSUMED here, proved in contracts.grouped_list'; SPECS['GroupedList.get'] = _c
SPECS['get_labels'] = FunctionSpec(qual='get_labels', file=FILE, params=[('quantiles', LVAL), ('str_nan', VAL)], returns=LVAL, pure=True,
    requires=lambda o: Nodup(o['quantiles']),
    ensures=lambda o, n, r: [('def', r == GetLabels(o['quantiles'], o['str_nan'])), ('one_label_per_non_missing_leader', Len(r) == Len(o['quantiles']) - If(Has(o['quantiles'], o['str_nan']), 1, 0)),
                             ('distinct', Nodup(r)), ('never_the_missing_marker', Not(Has(r, o['str_nan'])))],
    note='ASSUMED (numpy.isfinite + %e formatting): one label per non-missing leader of a quantitative order (finite quantiles then +inf), distinct, none equal to str_nan; bounded in engine R (C04)')


def nan_last(g, nan): return Implies(Has(L(g), nan), At(L(g), Len(L(g)) - 1) == nan)


def exp_label(s, od, f, i):
    """label the contract expects for the i-th leader of feature f"""
    g = order_of(s, f); nan = F(s, 'str_nan'); ld = At(L(g), i)
    return If(od == FLOAT, IntAsVal(i), If(Has(F(s, 'quantitative_features'), f), If(ld == nan, nan, At(GetLabels(L(g), nan), i)), ld))


def table_ok(s, od, f, m, upto=None, partial=None):
    """m is the label table of feature f: (a) defined exactly on the known values, (b) every member of the i-th group carries exp_label(i).
    upto: only the first `upto` groups are filled in (+ the first `partial` members of group `upto`)"""
    g = order_of(s, f); i = Int('i_tk'); v = Const('v_tk', Val); n = Len(L(g)) if upto is None else upto
    done = lambda vv: Exists([i], And(0 <= i, i < n, Has(grp(g, At(L(g), i)), vv)))
    in_partial = (lambda vv: Has(G.lv.Take(grp(g, At(L(g), upto)), partial), vv)) if partial is not None else (lambda vv: BoolVal(False))
    return And(
        ForAll([v], DVV.has(m, v) == Or(done(v), in_partial(v)), patterns=[DVV.has(m, v)]),
        ForAll([i, v], Implies(And(0 <= i, i < n, Has(grp(g, At(L(g), i)), v)), DVV.get(m, v) == exp_label(s, od, f, i)), patterns=[MultiPattern(Has(grp(g, At(L(g), i)), v), DVV.get(m, v))]),
        ForAll([v], Implies(in_partial(v), DVV.get(m, v) == exp_label(s, od, f, upto)), patterns=[DVV.get(m, v)]) if partial is not None else BoolVal(True),
        G.Nodup(DVV.keys(m)))


def req(o):
    s = o['self']; f = Const('f_rq', Val)
    return And(Nodup(F(s, 'features')), Not(od_is_weird(o)),
               ForAll([f], Implies(Has(F(s, 'features'), f), And(DVG.has(F(s, 'values_orders'), f), WF(order_of(s, f)), nan_last(order_of(s, f), F(s, 'str_nan')))), patterns=[Has(F(s, 'features'), f)]))
def od_is_weird(o): return BoolVal(False)


def labels_ready(s, od, f, labels):
    g = order_of(s, f); i = Int('i_lr')
    return And(Len(labels) == Len(L(g)), ForAll([i], Implies(And(0 <= i, i < Len(L(g))), At(labels, i) == exp_label(s, od, f, i)), patterns=[At(labels, i)]))


def outer_inv(o, v, k):
    s, od = o['self'], o['output_dtype']; res = v['labels_per_values']; j = Int('j_oi'); feats = F(s, 'features')
    return And(RES.keys(res) == G.lv.Take(feats, k), 0 <= k, k <= Len(feats),
               ForAll([j], Implies(And(0 <= j, j < k), table_ok(s, od, At(feats, j), RES.get(res, At(feats, j)))), patterns=[At(feats, j)]))


def middle_inv(o, v, i):
    s, od = o['self'], o['output_dtype']; f = v['feature']
    return And(labels_ready(s, od, f, v['labels']), v['values'] == order_of(s, f), Has(F(s, 'features'), f), table_ok(s, od, f, v['label_per_value'], upto=i), 0 <= i, i <= Len(L(order_of(s, f))))


def inner_inv(o, v, t):
    s, od = o['self'], o['output_dtype']; f = v['feature']; g = order_of(s, f)
    i = Idx(L(g), v['group_of_values'])
    return And(labels_ready(s, od, f, v['labels']), v['values'] == g, Has(L(g), v['group_of_values']), v['label'] == exp_label(s, od, f, i), 0 <= t,
               t <= Len(grp(g, v['group_of_values'])), table_ok(s, od, f, v['label_per_value'], upto=i, partial=t))


def post(o, n, r):
    s, od = o['self'], o['output_dtype']; f = Const('f_po', Val); a, b = Ints = (Int('a_po'), Int('b_po'))
    return [('one_table_per_feature', RES.keys(r) == F(s, 'features')),
            ('table_covers_exactly_the_known_values_and_groups_share_their_label', ForAll([f], Implies(Has(F(s, 'features'), f), table_ok(s, od, f, RES.get(r, f))), patterns=[RES.get(r, f)])),
            ('distinct_groups_get_distinct_labels', ForAll([f, a, b], Implies(And(Has(F(s, 'features'), f), 0 <= a, a < b, b < Len(L(order_of(s, f)))), exp_label(s, od, f, a) != exp_label(s, od, f, b)),
                                                           patterns=[MultiPattern(At(L(order_of(s, f)), a), At(L(order_of(s, f)), b))]))]


SPECS['BaseDiscretizer._get_labels_per_values'] = FunctionSpec(qual='BaseDiscretizer._get_labels_per_values', file=FILE, cls='BaseDiscretizerL',
    params=[('self', BDL), ('output_dtype', VAL)], returns=RES, requires=req, ensures=post,
    locals={'labels_per_values': RES, 'label_per_value': DVV, 'labels': LVAL},
    loops={0: LoopSpec(inv=outer_inv), 1: LoopSpec(inv=middle_inv), 2: LoopSpec(inv=inner_inv)})
