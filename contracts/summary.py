"""REGION contract (engine P) for C16: the loop of BaseDiscretizer.summary() that builds the (feature, dtype, label, content) rows handed to the pandas aggregation.

PROVED from an assumed entry state (label tables present for every requested feature -- what _get_labels_per_values leaves, C04):
 * every row is a row of a REQUESTED feature (summary(f) holds rows of f only; summary() rows of kept features only);
 * every row of a qualitative feature pairs a known value with the label the label table -- hence transform -- gives it, its dtype is the feature's input dtype;
 * every row of a quantitative feature carries the label of a known value and, as content, the raw ('str') label of that value;
 * completeness for quantitative features: every known value (except a missing marker that stays missing) has a row with its label and its raw label;
 * completeness for qualitative features: every known value that is not a number, not the default marker and not a missing marker that stays missing has its row.
The grouping of those rows per label (DataFrame.groupby / unique / sort) is pandas and stays bounded (engine R, C16).
"""
from z3 import And, Or, Not, Implies, ForAll, Exists, If, BoolVal, Const, Int, Function, BoolSort, MultiPattern
from pyvc.types import *
from pyvc.engine import FunctionSpec, LoopSpec, str_const

FILE = 'AutoCarver/discretizers/utils/base_discretizers.py'
DVV = TDict(VAL, VAL); LPV = TDict(VAL, DVV); DVB = TDict(VAL, BOOL); LREC = TList(DVV); lr = LREC.th(); lv = LVAL.th()
BDS = TObj('BaseDiscretizerS', [('labels_per_values', LPV), ('features_dropna', DVB), ('dropna', BOOL), ('str_nan', VAL), ('str_default', VAL), ('input_dtypes', DVV),
                                ('qualitative_features', LVAL), ('quantitative_features', LVAL)])
def S(o, n): return BDS.get(o, n)
IsFloating = Function('np_isinstance_floating', Val, BoolSort()); IsFloatS = Function('py_isinstance_float', Val, BoolSort())
IsInteger = Function('np_isinstance_integer', Val, BoolSort()); IsIntS = Function('py_isinstance_int', Val, BoolSort())
PREDS = {'floating': IsFloating, 'float': IsFloatS, 'integer': IsInteger, 'int': IsIntS}
FEAT, DT, LAB, CONT = (str_const(x) for x in ('feature', 'dtype', 'label', 'content'))
def fld(rec, k): return DVV.get(rec, k)

def req(o):
    s = o['self']; f = Const('f_sr', Val); v = Const('v_sr', Val); raw = o['raw_labels_per_values']; lpv = S(s, 'labels_per_values')
    return And(ForAll([f], Implies(lv.Has(o['requested_features'], f), And(LPV.has(lpv, f), DVV.has(S(s, 'input_dtypes'), f), lv.Nodup(DVV.keys(LPV.get(lpv, f))),
                                   Implies(lv.Has(S(s, 'quantitative_features'), f), And(LPV.has(raw, f), ForAll([v], Implies(DVV.has(LPV.get(lpv, f), v), DVV.has(LPV.get(raw, f), v)), patterns=[DVV.has(LPV.get(lpv, f), v)]))))),
                      patterns=[lv.Has(o['requested_features'], f)]))
def kept_as_missing(s, f, v):
    """the missing marker of a feature whose missing values stay missing has no row"""
    fd = S(s, 'features_dropna'); dn = If(DVB.has(fd, f), DVB.get(fd, f), S(s, 'dropna'))
    return And(Not(dn), v == S(s, 'str_nan'))
def row_ok(o, rec):
    s = o['self']; f = fld(rec, FEAT); lab = LPV.get(S(s, 'labels_per_values'), f); raw = LPV.get(o['raw_labels_per_values'], f); v = Const('v_ro', Val)
    return And(lv.Has(o['requested_features'], f), fld(rec, DT) == DVV.get(S(s, 'input_dtypes'), f),
               Implies(lv.Has(S(s, 'qualitative_features'), f), And(DVV.has(lab, fld(rec, CONT)), fld(rec, LAB) == DVV.get(lab, fld(rec, CONT)))),
               Implies(Not(lv.Has(S(s, 'qualitative_features'), f)), Exists([v], And(DVV.has(lab, v), fld(rec, LAB) == DVV.get(lab, v), fld(rec, CONT) == DVV.get(raw, v)))))
def rows_ok(o, summ):
    i = Int('i_rk'); n0 = lr.Len(o['summaries'])
    return And(lr.Prefix(o['summaries'], summ), ForAll([i], Implies(And(n0 <= i, i < lr.Len(summ)), row_ok(o, lr.At(summ, i))), patterns=[lr.At(summ, i)]))
def wanted(s, f, v):
    return And(Not(kept_as_missing(s, f, v)), Not(IsFloating(v)), Not(IsFloatS(v)), Not(IsInteger(v)), Not(IsIntS(v)), v != S(s, 'str_default'))
def has_row(o, summ, f, v):
    s = o['self']; rec = Const('rec_hr', DVV.sort())
    return Exists([rec], And(lr.Has(summ, rec), fld(rec, FEAT) == f, fld(rec, CONT) == v, fld(rec, LAB) == DVV.get(LPV.get(S(s, 'labels_per_values'), f), v)), patterns=[lr.Has(summ, rec)])
def has_row_q(o, summ, f, v):
    s = o['self']; rec = Const('rec_hq', DVV.sort())
    return Exists([rec], And(lr.Has(summ, rec), fld(rec, FEAT) == f, fld(rec, CONT) == DVV.get(LPV.get(o['raw_labels_per_values'], f), v), fld(rec, LAB) == DVV.get(LPV.get(S(s, 'labels_per_values'), f), v)), patterns=[lr.Has(summ, rec)])
def is_quanti(s, f): return And(Not(lv.Has(S(s, 'qualitative_features'), f)), lv.Has(S(s, 'quantitative_features'), f))
def complete_q(o, summ, f, upto=None):
    s = o['self']; keys = DVV.keys(LPV.get(S(s, 'labels_per_values'), f)); j = Int('j_cq'); hi = lv.Len(keys) if upto is None else upto
    return ForAll([j], Implies(And(0 <= j, j < hi, Not(kept_as_missing(s, f, lv.At(keys, j)))), has_row_q(o, summ, f, lv.At(keys, j))), patterns=[lv.At(keys, j)])
def complete_for(o, summ, f, upto=None):
    s = o['self']; keys = DVV.keys(LPV.get(S(s, 'labels_per_values'), f)); j = Int('j_cf'); hi = lv.Len(keys) if upto is None else upto
    return ForAll([j], Implies(And(0 <= j, j < hi, wanted(s, f, lv.At(keys, j))), has_row(o, summ, f, lv.At(keys, j))), patterns=[lv.At(keys, j)])
def outer(o, v, k):
    s = o['self']; rq = o['requested_features']; j = Int('j_ot')
    return And(v['self'] == s, v['requested_features'] == rq, v['raw_labels_per_values'] == o['raw_labels_per_values'], rows_ok(o, v['summaries']),
               ForAll([j], Implies(And(0 <= j, j < k, lv.Has(S(s, 'qualitative_features'), lv.At(rq, j))), complete_for(o, v['summaries'], lv.At(rq, j))), patterns=[lv.At(rq, j)]),
               ForAll([j], Implies(And(0 <= j, j < k, is_quanti(s, lv.At(rq, j))), complete_q(o, v['summaries'], lv.At(rq, j))), patterns=[lv.At(rq, j)]))
def inner(o, v, k):
    s = o['self']; rq = o['requested_features']; e = o['$entry']; f = v['feature']; j = Int('j_in')
    return And(v['self'] == s, v['requested_features'] == rq, v['raw_labels_per_values'] == o['raw_labels_per_values'], rows_ok(o, v['summaries']), lv.Has(rq, f),
               lr.Prefix(e['summaries'], v['summaries']),
               Implies(lv.Has(S(s, 'qualitative_features'), f), complete_for(o, v['summaries'], f, upto=k)), Implies(is_quanti(s, f), complete_q(o, v['summaries'], f, upto=k)))
def post(o, n, r, loc):
    s = o['self']; f = Const('f_sp', Val); summ = loc['summaries']
    return [('every_row_belongs_to_a_requested_feature_and_pairs_a_known_value_with_its_label', rows_ok(o, summ)),
            ('every_reportable_value_of_a_requested_qualitative_feature_has_its_row', ForAll([f], Implies(And(lv.Has(o['requested_features'], f), lv.Has(S(s, 'qualitative_features'), f)), complete_for(o, summ, f)), patterns=[lv.Has(o['requested_features'], f)])),
            ('every_value_of_a_requested_quantitative_feature_has_a_row_with_its_label_and_its_raw_label', ForAll([f], Implies(And(lv.Has(o['requested_features'], f), is_quanti(s, f)), complete_q(o, summ, f)), patterns=[lv.Has(o['requested_features'], f)])),
            ('fitted_object_not_written', n['self'] == s)]
def last_row(o, v):
    """ghost lemma after `summaries += [feature_summary]`: names the row just appended (the witness of has_row)"""
    summ = v['summaries']
    return [('appended_row_is_a_member', Implies(lr.Len(summ) > 0, lr.Has(summ, lr.At(summ, lr.Len(summ) - 1))))]
SPECS = {}
SPECS['BaseDiscretizer.summary@rows_loop'] = FunctionSpec(qual='BaseDiscretizer.summary', name='BaseDiscretizer.summary@rows_loop', file=FILE, cls='BaseDiscretizerS', region=0,
    params=[('self', BDS), ('requested_features', LVAL), ('raw_labels_per_values', LPV), ('summaries', LREC)], modifies=['summaries'], requires=req, ensures=post, isinstance_preds=PREDS, lemmas={'summaries': last_row},
    locals={'feature_summary': DVV, 'summaries': LREC}, loops={0: LoopSpec(inv=outer, modifies=['summaries']), 3: LoopSpec(inv=inner, modifies=['summaries'])},
    note='REGION: entry state assumed (label tables present for every requested feature, raw labels defined on the same values)')
