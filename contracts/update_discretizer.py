"""Sidecar contract (engine P) for BaseDiscretizer.update_discretizer  --  C17.  The fitted orders are GroupedLists; the method is verified against the
GroupedList contracts (callee bodies are never inlined)."""
from z3 import And, Or, Not, Implies, ForAll, Exists, If, BoolVal, Const, Consts, Select, Function, IntSort, BoolSort, Int, MultiPattern
import copy as _copy
from pyvc.types import *
from pyvc.engine import FunctionSpec, LoopSpec
import contracts.grouped_list as G
from contracts.grouped_list import GL, WF, L, K, grp, AllVals, C, Has, same_members_except

FILE = 'AutoCarver/discretizers/utils/base_discretizers.py'
DVG = TDict(VAL, GL); DVBo = TDict(VAL, BOOL)
BDU = TObj('BaseDiscretizerU', [('values_orders', DVG), ('features_dropna', DVBo), ('labels_per_values', ANY), ('str_nan', VAL), ('output_dtype', VAL)])
def F(o, n): return BDU.get(o, n)
def order_of(o, f): return DVG.get(F(o, 'values_orders'), f)
IsNaNVal = Function('IsNaNVal', Val, BoolSort())           # pandas.isna on a scalar
LabelsOf = Function('LabelsPerValues', BDU.sort(), Val, AnyS)   # result of _get_labels_per_values on the current state

SPECS = {}
for k in ('GroupedList.get_group', 'GroupedList.contains', 'GroupedList.append', 'GroupedList.group', 'GroupedList.replace_group_leader'):
    c = _copy.copy(G.SPECS[k]); c.pure = True; c.note = 'ASSUMED here, proved in contracts.grouped_list'; SPECS[k] = c
SPECS['isna'] = FunctionSpec(qual='isna', file=FILE, params=[('v', VAL)], returns=BOOL, pure=True, ensures=lambda o, n, r: [('def', r == IsNaNVal(o['v']))], note='ASSUMED pandas.isna on a scalar')
SPECS['BaseDiscretizer._get_labels_per_values'] = FunctionSpec(qual='BaseDiscretizer._get_labels_per_values', file=FILE, cls='BaseDiscretizerU', params=[('self', BDU), ('output_dtype', VAL)], returns=ANY, pure=True,
    ensures=lambda o, n, r: [('def', r == LabelsOf(o['self'], o['output_dtype']))], note='ASSUMED here (label table is a function of the current state); its own contract is bounded (C04)')
SPECS['BaseDiscretizerU._get_labels_per_values'] = SPECS['BaseDiscretizer._get_labels_per_values']

GROUP, REPLACE = 'group', 'replace'
from pyvc.engine import str_const

def upd_requires(o):
    s, f = o['self'], o['feature']; x = Const('x_ud', Val)
    return And(DVG.has(F(s, 'values_orders'), f), WF(order_of(s, f)), G.Nodup(DVG.keys(F(s, 'values_orders'))), Not(IsNaNVal(F(s, 'str_nan'))),
               o['mode'] == str_const(GROUP))          # this contract covers mode='group' (the 'replace' path is covered by the bounded check)

def upd_post(o, n, r):
    s0, s1, f = o['self'], n['self'], o['feature']; g0, g1 = order_of(s0, f), order_of(s1, f)
    d = If(IsNaNVal(o['discarded_value']), F(s0, 'str_nan'), o['discarded_value']); k = o['kept_value']; x = Const('x_up', Val)
    already = If(Has(AllVals(C(g0)), d), And(Has(K(g0), k), Has(grp(g0, k), d)), d == k)       # get_group(d) == kept
    return [
        ('other_features_orders_unchanged', ForAll([x], Implies(x != f, order_of(s1, x) == order_of(s0, x)), patterns=[order_of(s1, x)])),
        ('same_features', DVG.keys(F(s1, 'values_orders')) == DVG.keys(F(s0, 'values_orders'))),
        ('order_stays_well_formed', WF(g1)),
        ('no_value_lost', same_members_except(g0, g1)),
        ('discarded_members_under_kept', Implies(And(Not(already), d != k), And(Has(L(g1), k), ForAll([x], Implies(Or(And(Has(K(g0), d), Has(grp(g0, d), x)), x == d), Has(grp(g1, k), x)), patterns=[Has(grp(g1, k), x)])))),
        ('discarded_no_longer_a_leader', Implies(And(Not(already), d != k), Not(Has(L(g1), d)))),
        ('other_groups_unchanged', Implies(Not(already), ForAll([x], Implies(And(x != d, x != k), grp(g1, x) == grp(g0, x)), patterns=[grp(g1, x)]))),
        ('nothing_changes_when_already_grouped', Implies(already, g1 == g0)),
        ('dropna_set_when_missing_values_are_grouped', Implies(IsNaNVal(o['discarded_value']), DVBo.get(F(s1, 'features_dropna'), f) == BoolVal(True))),
    ]

def upd_raises(o):
    s, f = o['self'], o['feature']; g0 = order_of(s, f)
    d = If(IsNaNVal(o['discarded_value']), F(s, 'str_nan'), o['discarded_value']); k = o['kept_value']
    already = If(Has(AllVals(C(g0)), d), And(Has(K(g0), k), Has(grp(g0, k), d)), d == k)
    # refused: kept is NaN; or (not already grouped and) kept / discarded is known only as a non-leader member
    return Or(IsNaNVal(k), And(Not(already), d != k, Or(And(Has(AllVals(C(g0)), k), Not(Has(L(g0), k))), And(Has(AllVals(C(g0)), d), Not(Has(L(g0), d))))))

SPECS['BaseDiscretizer.update_discretizer'] = FunctionSpec(qual='BaseDiscretizer.update_discretizer', file=FILE, cls='BaseDiscretizerU',
    params=[('self', BDU), ('feature', VAL), ('mode', VAL), ('discarded_value', VAL), ('kept_value', VAL)], modifies=['self'],
    requires=upd_requires, ensures=upd_post, raises={'AssertionError': upd_raises}, locals={'values_orders': DVG})


# ------------------------------------------------------------------------------------------------ mode='replace': the group led by `discarded_value` gets `kept_value` as its leader
def rep_requires(o):
    s, f = o['self'], o['feature']
    return And(DVG.has(F(s, 'values_orders'), f), WF(order_of(s, f)), G.Nodup(DVG.keys(F(s, 'values_orders'))), Not(IsNaNVal(F(s, 'str_nan'))), o['mode'] == str_const(REPLACE))

def rep_terms(o):
    s, f = o['self'], o['feature']; g0 = order_of(s, f)
    d = If(IsNaNVal(o['discarded_value']), F(s, 'str_nan'), o['discarded_value']); k = o['kept_value']
    already = If(Has(AllVals(C(g0)), d), And(Has(K(g0), k), Has(grp(g0, k), d)), d == k)       # get_group(d) == kept
    return s, f, g0, d, k, already

def rep_post(o, n, r):
    s0, f, g0, d, k, already = rep_terms(o); s1 = n['self']; g1 = order_of(s1, f); x = Const('x_rp', Val)
    return [
        ('other_features_orders_unchanged', ForAll([x], Implies(x != f, order_of(s1, x) == order_of(s0, x)), patterns=[order_of(s1, x)])),
        ('same_features', DVG.keys(F(s1, 'values_orders')) == DVG.keys(F(s0, 'values_orders'))),
        ('order_stays_well_formed', WF(g1)),
        ('no_value_lost', same_members_except(g0, g1)),
        ('nothing_changes_when_already_grouped', Implies(already, g1 == g0)),
        # the new name leads, the old leader does not; the group holds every former member of the old leader's group (and the new name, and its former members if it led a group)
        ('new_name_leads_the_members_of_the_old_leader', Implies(Not(already), And(Has(L(g1), k), Not(Has(L(g1), d)), Has(grp(g1, k), k),
            ForAll([x], Implies(Has(grp(g0, d), x), Has(grp(g1, k), x)), patterns=[Has(grp(g1, k), x)])))),
        ('a_brand_new_name_takes_the_place_of_the_old_leader', Implies(And(Not(already), Not(Has(AllVals(C(g0)), k))), And(G.Len(L(g1)) == G.Len(L(g0)), G.Idx(L(g1), k) == G.Idx(L(g0), d),
            ForAll([x], Implies(And(Has(L(g0), x), x != d), G.Idx(L(g1), x) == G.Idx(L(g0), x)), patterns=[G.Idx(L(g1), x)])))),
        ('other_groups_unchanged', Implies(Not(already), ForAll([x], Implies(And(x != d, x != k), grp(g1, x) == grp(g0, x)), patterns=[grp(g1, x)]))),
        ('dropna_set_when_missing_values_are_grouped', Implies(IsNaNVal(o['discarded_value']), DVBo.get(F(s1, 'features_dropna'), f) == BoolVal(True))),
    ]

def rep_raises(o):
    s, f, g0, d, k, already = rep_terms(o)
    # refused: the new name is NaN; or (not already grouped and) the old leader is not a leader, or the new name is known only as a non-leader member
    return Or(IsNaNVal(k), And(Not(already), Or(Not(Has(L(g0), d)), And(Has(AllVals(C(g0)), k), Not(Has(L(g0), k))))))

SPECS['BaseDiscretizer.update_discretizer@replace'] = FunctionSpec(qual='BaseDiscretizer.update_discretizer', name='BaseDiscretizer.update_discretizer@replace', file=FILE, cls='BaseDiscretizerU',
    params=[('self', BDU), ('feature', VAL), ('mode', VAL), ('discarded_value', VAL), ('kept_value', VAL)], modifies=['self'],
    requires=rep_requires, ensures=rep_post, raises={'AssertionError': rep_raises}, locals={'values_orders': DVG})
