"""Sidecar contract (engine P) for BaseDiscretizer.update_discretizer  --  C17.  The fitted orders are GroupedLists; the method is verified against the
GroupedList contracts (callee bodies are never inlined)."""
from z3 import And, Or, Not, Implies, ForAll, Exists, If, BoolVal, Const, Consts, Select, Function, IntSort, BoolSort, Int, MultiPattern
import copy as _copy
from pyvc.types import *
from pyvc.engine import FunctionSpec, LoopSpec
import contracts.grouped_list as G
from contracts.grouped_list import GL, WF, L, K, grp, AllVals, C, Has, same_members_except

FILE = 'AutoCarver/discretizers/utils/base_discretizers.py'
DVG = TDict(VAL, GL); DVBo = TDict(VAL, BOOL)
BDU = TObj('BaseDiscretizerU', [('values_orders', DVG), ('features_dropna', DVBo), ('labels_per_values', ANY), ('str_nan', VAL), ('output_dtype', VAL)])
def F(o, n): return BDU.get(o, n)
def order_of(o, f): return DVG.get(F(o, 'values_orders'), f)
IsNaNVal = Function('IsNaNVal', Val, BoolSort())           # pandas.isna on a scalar
LabelsOf = Function('LabelsPerValues', BDU.sort(), Val, AnyS)   # result of _get_labels_per_values on the current state

SPECS = {}
for k in ('GroupedList.get_group', 'GroupedList.contains', 'GroupedList.append', 'GroupedList.group', 'GroupedList.replace_group_leader'):
    c = _copy.copy(G.SPECS[k]); c.pure = True; c.note = 'ASSUMED here, proved in contracts.grouped_list'; SPECS[k] = c
SPECS['isna'] = FunctionSpec(qual='isna', file=FILE, params=[('v', VAL)], returns=BOOL, pure=True, ensures=lambda o, n, r: [('def', r == IsNaNVal(o['v']))], note='ASSUMED pandas.isna on a scalar')
SPECS['BaseDiscretizer._get_labels_per_values'] = FunctionSpec(qual='BaseDiscretizer._get_labels_per_values', file=FILE, cls='BaseDiscretizerU', params=[('self', BDU), ('output_dtype', VAL)], returns=ANY, pure=True,
    ensures=lambda o, n, r: [('def', r == LabelsOf(o['self'], o['output_dtype']))], note='ASSUMED here (label table is a function of the current state); its own contract is bounded (C04)')
SPECS['BaseDiscretizerU._get_labels_per_values'] = SPECS['BaseDiscretizer._get_labels_per_values']

GROUP, REPLACE = 'group', 'replace'
from pyvc.engine import str_const

def upd_requires(o):
    s, f = o['self'], o['feature']; x = Const('x_ud', Val)
    return And(DVG.has(F(s, 'values_orders'), f), WF(order_of(s, f)), G.Nodup(DVG.keys(F(s, 'values_orders'))), Not(IsNaNVal(F(s, 'str_nan'))),
               o['mode'] == str_const(GROUP))          # this contract covers mode='group' (the 'replace' path is covered by the bounded check)

def upd_post(o, n, r):
    s0, s1, f = o['self'], n['self'], o['feature']; g0, g1 = order_of(s0, f), order_of(s1, f)
    d = If(IsNaNVal(o['discarded_value']), F(s0, 'str_nan'), o['discarded_value']); k = o['kept_value']; x = Const('x_up', Val)
    already = If(Has(AllVals(C(g0)), d), And(Has(K(g0), k), Has(grp(g0, k), d)), d == k)       # get_group(d) == kept
    return [
        ('other_features_orders_unchanged', ForAll([x], Implies(x != f, order_of(s1, x) == order_of(s0, x)), patterns=[order_of(s1, x)])),
        ('same_features', DVG.keys(F(s1, 'values_orders')) == DVG.keys(F(s0, 'values_orders'))),
        ('order_stays_well_formed', WF(g1)),
        ('no_value_lost', same_members_except(g0, g1)),
        ('discarded_members_under_kept', Implies(And(Not(already), d != k), And(Has(L(g1), k), ForAll([x], Implies(Or(And(Has(K(g0), d), Has(grp(g0, d), x)), x == d), Has(grp(g1, k), x)), patterns=[Has(grp(g1, k), x)])))),
        ('discarded_no_longer_a_leader', Implies(And(Not(already), d != k), Not(Has(L(g1), d)))),
        ('other_groups_unchanged', Implies(Not(already), ForAll([x], Implies(And(x != d, x != k), grp(g1, x) == grp(g0, x)), patterns=[grp(g1, x)]))),
        ('nothing_changes_when_already_grouped', Implies(already, g1 == g0)),
        ('dropna_set_when_missing_values_are_grouped', Implies(IsNaNVal(o['discarded_value']), DVBo.get(F(s1, 'features_dropna'), f) == BoolVal(True))),
    ]

def upd_raises(o):
    s, f = o['self'], o['feature']; g0 = order_of(s, f)
    d = If(IsNaNVal(o['discarded_value']), F(s, 'str_nan'), o['discarded_value']); k = o['kept_value']
    already = If(Has(AllVals(C(g0)), d), And(Has(K(g0), k), Has(grp(g0, k), d)), d == k)
    # refused: kept is NaN; or (not already grouped and) kept / discarded is known only as a non-leader member
    return Or(IsNaNVal(k), And(Not(already), d != k, Or(And(Has(AllVals(C(g0)), k), Not(Has(L(g0), k))), And(Has(AllVals(C(g0)), d), Not(Has(L(g0), d))))))

SPECS['BaseDiscretizer.update_discretizer'] = FunctionSpec(qual='BaseDiscretizer.update_discretizer', file=FILE, cls='BaseDiscretizerU',
    params=[('self', BDU), ('feature', VAL), ('mode', VAL), ('discarded_value', VAL), ('kept_value', VAL)], modifies=['self'],
    requires=upd_requires, ensures=upd_post, raises={'AssertionError': upd_raises}, locals={'values_orders': DVG})
