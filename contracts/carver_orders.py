"""Sidecar contract (engine P) for BaseCarver._update_orders  --  C03: the combination chosen on the LABELS of a feature is written back on its raw values
(convert_to_values), every other feature is untouched, and the label orders handed back are recomputed from the new values orders (convert_to_labels).
The two conversion functions are used through their contracts (proved in contracts.conversion); this function is checked against them."""
from contracts.conversion import CSPECS as SPECS
