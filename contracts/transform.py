"""Sidecar contract (engine P) for BaseDiscretizer.transform  --  C02 / C04 / C07: the loop that puts missing values back.

The DataFrame is a dict column-name -> opaque column; _prepare_data / _transform_quantitative / _transform_qualitative are assumed (bounded in engine R) to
return a frame holding every feature column and not to touch `self` (the frame obligation `frame.self` of this function then PROVES that transform writes
nothing reachable from self: repeated / interleaved transforms cannot alter the fitted state).  Proved about the loop: exactly the features whose PER-FEATURE
flag features_dropna[f] is False and whose label table knows str_nan get the label of str_nan replaced by NaN; every other column is left as the discretization
step produced it."""
from z3 import And, Or, Not, Implies, ForAll, If, BoolVal, Const, Int, MultiPattern
from pyvc.types import *
from pyvc.engine import FunctionSpec, LoopSpec
from pyvc.exprs import OPQ, opaque_apply

FILE = 'AutoCarver/discretizers/utils/base_discretizers.py'
DF = TDict(VAL, OPQ); DVB = TDict(VAL, BOOL); DVV = TDict(VAL, VAL); LPV = TDict(VAL, DVV)
BDT = TObj('BaseDiscretizerT', [('quantitative_features', LVAL), ('qualitative_features', LVAL), ('features_dropna', DVB), ('labels_per_values', LPV), ('str_nan', VAL), ('dropna', BOOL)])
def F(o, n): return BDT.get(o, n)
lv = LVAL.th(); NAN = Const('numpy_nan', OPQ.sort())
def replaced(col, label): return opaque_apply('meth_replace_', [col, opaque_apply('box_Val', [label]), NAN])

def covers(s, frame):
    f = Const('f_cv', Val)
    return ForAll([f], Implies(DVB.has(F(s, 'features_dropna'), f), And(DF.has(frame, f), LPV.has(F(s, 'labels_per_values'), f))), patterns=[DVB.has(F(s, 'features_dropna'), f)])

SPECS = {}
for name in ('__prepare_data', '_transform_quantitative', '_transform_qualitative'):
    SPECS['BaseDiscretizerT.' + name] = FunctionSpec(qual='BaseDiscretizer.' + name.lstrip('_') if False else 'BaseDiscretizer.' + name, name='BaseDiscretizerT.' + name, file=FILE, cls='BaseDiscretizerT',
        params=[('self', BDT), ('X', DF), ('y', OPQ)], returns=DF, pure=True,
        ensures=lambda o, n, r: [('keeps_feature_columns', covers(o['self'], r))],
        note='ASSUMED here: returns a frame that still holds every fitted feature column and does not modify self (bounded: engine R, C04 / C07)')

def want(s, mid, f):
    """column f of the result, given the frame `mid` produced by the discretization steps"""
    fd, lp, nan = F(s, 'features_dropna'), F(s, 'labels_per_values'), F(s, 'str_nan')
    cond = And(DVB.has(fd, f), Not(DVB.get(fd, f)), DVV.has(LPV.get(lp, f), nan))
    return If(cond, replaced(DF.get(mid, f), DVV.get(LPV.get(lp, f), nan)), DF.get(mid, f))

def inv(o, v, k):
    s = o['self']; keys = DVB.keys(F(s, 'features_dropna')); mid = o['$entry']['x_copy']; cur = v['x_copy']; j = Int('j_ti'); f = Const('f_ti', Val)
    return And(covers(s, cur), DF.keys(cur) == DF.keys(mid), lv.Nodup(keys),
               ForAll([j], Implies(And(0 <= j, j < k), DF.get(cur, lv.At(keys, j)) == want(s, mid, lv.At(keys, j))), patterns=[lv.At(keys, j)]),
               ForAll([f], Implies(Not(lv.Has(lv.Take(keys, k), f)), DF.get(cur, f) == DF.get(mid, f)), patterns=[DF.get(cur, f)]))

SPECS['BaseDiscretizer.transform'] = FunctionSpec(qual='BaseDiscretizer.transform', file=FILE, cls='BaseDiscretizerT', params=[('self', BDT), ('X', DF), ('y', OPQ)], returns=DF,
    requires=lambda o: lv.Nodup(DVB.keys(F(o['self'], 'features_dropna'))), globals_={'nan': (OPQ, NAN)},
    ensures=lambda o, n, r: [('every_feature_column_present', covers(o['self'], r))],
    loops={0: LoopSpec(inv=inv)})
