"""Syntactic contract checks (engine P, back end 'ast'): argument-forwarding obligations decided on the real AST.

A forwarding obligation  `<caller>#call.<Callee>.forwards.<p>`  states that the call passes keyword `p` with exactly the expression
`self.p` (resp. the bare parameter `p` for a super().__init__ call); `...stores.<p>` states that a constructor assigns `self.p` from its
parameter `p` on every path (directly, or after the `if p is None: p = <default>` idiom).  They hold for all inputs because they are
properties of the program text; nothing is executed."""
import ast, time


def _func(tree, cls, name):
    for n in tree.body:
        if isinstance(n, ast.ClassDef) and n.name == cls:
            for m in n.body:
                if isinstance(m, ast.FunctionDef) and m.name == name: return m
    return None


def _params(fn):
    a = fn.args
    return [x.arg for x in a.args + a.kwonlyargs if x.arg != 'self'], (a.kwarg.arg if a.kwarg else None)


def _calls(fn, pred):
    return [c for c in ast.walk(fn) if isinstance(c, ast.Call) and pred(c)]


def _is_self_attr(e, name): return isinstance(e, ast.Attribute) and isinstance(e.value, ast.Name) and e.value.id == 'self' and e.attr == name


def ob(name, ok, detail=''):
    return dict(name=name, status='discharged' if ok else 'not-discharged', backend='ast', time=0.0, detail=detail)


def multiclass_obligations(repo):
    out = []; t0 = time.time()
    src = lambda f: ast.parse(open(repo.rstrip('/') + '/' + f).read())
    mc = src('AutoCarver/carvers/multiclass_carver.py'); bc = src('AutoCarver/carvers/binary_carver.py'); base = src('AutoCarver/carvers/base_carver.py')
    bd = src('AutoCarver/discretizers/utils/base_discretizers.py')
    fit = _func(mc, 'MulticlassCarver', 'fit'); mc_init = _func(mc, 'MulticlassCarver', '__init__'); bc_init = _func(bc, 'BinaryCarver', '__init__')
    bcar_init = _func(base, 'BaseCarver', '__init__'); bd_init = _func(bd, 'BaseDiscretizer', '__init__')
    F = 'MulticlassCarver.fit'
    if not all([fit, mc_init, bc_init, bcar_init, bd_init]):
        return [ob(F + '#call.BinaryCarver.found', False, 'function not found')]
    bc_params, bc_kw = _params(bc_init); mc_params, mc_kw = _params(mc_init)
    calls = _calls(fit, lambda c: isinstance(c.func, ast.Name) and c.func.id == 'BinaryCarver')
    out.append(ob(F + '#call.BinaryCarver.exactly-one-construction', len(calls) == 1, '%d BinaryCarver(...) calls' % len(calls)))
    if len(calls) != 1: return out
    call = calls[0]; kws = {k.arg: k.value for k in call.keywords if k.arg}
    by_design = {'values_orders': 'the shared raw orders (each BinaryCarver copies them)', 'copy': 'True: the per-class carvers never touch the caller data'}
    for p in bc_params:
        if p not in mc_params or p in by_design: continue
        v = kws.get(p)
        out.append(ob('%s#call.BinaryCarver.forwards.%s' % (F, p), v is not None and _is_self_attr(v, p), 'keyword %s=%s' % (p, ast.unparse(v) if v is not None else '<absent>')))
    # "a BinaryCarver with the same parameters": a parameter nobody passes has the same default in both constructors
    def defaults(fn):
        a = fn.args; pos = a.posonlyargs + a.args; d = {}
        for arg, val in zip(pos[len(pos) - len(a.defaults):], a.defaults): d[arg.arg] = ast.dump(val)
        for arg, val in zip(a.kwonlyargs, a.kw_defaults):
            if val is not None: d[arg.arg] = ast.dump(val)
        return d
    dm, db = defaults(mc_init), defaults(bc_init)
    for p in sorted(set(dm) & set(db)):
        out.append(ob('MulticlassCarver.__init__#defaults.same_as_BinaryCarver.%s' % p, dm[p] == db[p], 'default of %s: MulticlassCarver %s, BinaryCarver %s' % (p, dm[p][:60], db[p][:60])))
    star = [k.value for k in call.keywords if k.arg is None]
    out.append(ob(F + '#call.BinaryCarver.forwards.**kwargs', any(_is_self_attr(v, 'kwargs') for v in star), 'starred keywords: %r' % [ast.unparse(v) for v in star]))
    if 'copy' in kws: out.append(ob(F + '#call.BinaryCarver.copy-is-True', isinstance(kws['copy'], ast.Constant) and kws['copy'].value is True, ast.unparse(kws['copy'])))
    # MulticlassCarver.__init__ hands every named parameter to BaseCarver.__init__ and keeps **kwargs
    sup = _calls(mc_init, lambda c: isinstance(c.func, ast.Attribute) and c.func.attr == '__init__' and isinstance(c.func.value, ast.Call) and getattr(c.func.value.func, 'id', '') == 'super')
    skw = {k.arg: k.value for c in sup for k in c.keywords if k.arg}
    for p in mc_params:
        v = skw.get(p)
        out.append(ob('MulticlassCarver.__init__#call.super.forwards.%s' % p, isinstance(v, ast.Name) and v.id == p, 'keyword %s=%s' % (p, ast.unparse(v) if v is not None else '<absent>')))
    stores_kwargs = any(isinstance(s, ast.Assign) and _is_self_attr(s.targets[0], 'kwargs') and isinstance(s.value, ast.Name) and s.value.id == mc_kw for s in ast.walk(mc_init))
    out.append(ob('MulticlassCarver.__init__#stores.kwargs', stores_kwargs, ''))
    # the attributes read back in fit are stored from the parameters of the same name
    def stores(fn, p):
        for s in ast.walk(fn):
            if isinstance(s, ast.Assign) and len(s.targets) == 1 and _is_self_attr(s.targets[0], p) and isinstance(s.value, ast.Name) and s.value.id == p: return True
        return False
    bcar_sup = _calls(bcar_init, lambda c: isinstance(c.func, ast.Attribute) and c.func.attr == '__init__' and isinstance(c.func.value, ast.Call) and getattr(c.func.value.func, 'id', '') == 'super')
    bcar_kw = {k.arg: k.value for c in bcar_sup for k in c.keywords if k.arg}
    for p in bc_params:
        if p not in mc_params or p in by_design or p in ('quantitative_features', 'qualitative_features', 'ordinal_features', 'verbose'): continue
        direct = stores(bcar_init, p)
        via_base = isinstance(bcar_kw.get(p), ast.Name) and bcar_kw[p].id == p and stores(bd_init, p)
        out.append(ob('BaseCarver.__init__#stores.%s' % p, direct or via_base, 'self.%s = %s %s' % (p, p, '(in BaseCarver)' if direct else '(via BaseDiscretizer)' if via_base else 'NOT FOUND')))
    # the per-class carvers receive self.ordinal_features / self.features by reference: BaseCarver.__init__ must store FRESH lists
    # (its _remove_feature mutates them in place, which would otherwise leak from one class to the next)
    for attr in ('ordinal_features', 'features'):
        fresh = False
        for s in ast.walk(bcar_init):
            if isinstance(s, ast.Assign) and len(s.targets) == 1 and _is_self_attr(s.targets[0], attr):
                fresh = isinstance(s.value, (ast.Call, ast.ListComp, ast.BinOp, ast.List)) and not (isinstance(s.value, ast.Name))
        out.append(ob('BaseCarver.__init__#frame.fresh_list.%s' % attr, fresh, 'self.%s must not alias the argument' % attr))
    for o in out: o['time'] = (time.time() - t0) / max(1, len(out))
    return out


def refit_guard_obligations(repo):
    """C19, second sentence: a second `fit` of a fitted object is refused BEFORE any write to self.  Decided on the program text: the first
    statement of each public fit is `assert not self.is_fitted`; BinaryCarver / ContinuousCarver.fit may first call `self._prepare_data`
    (whose own writes are obligations of engine R) and must then delegate to BaseCarver.fit."""
    out = []
    src = lambda f: ast.parse(open(repo.rstrip('/') + '/' + f).read())
    sites = [('AutoCarver/carvers/base_carver.py', 'BaseCarver'), ('AutoCarver/carvers/multiclass_carver.py', 'MulticlassCarver'),
             ('AutoCarver/discretizers/discretizers.py', 'Discretizer'), ('AutoCarver/discretizers/discretizers.py', 'QualitativeDiscretizer'),
             ('AutoCarver/discretizers/discretizers.py', 'QuantitativeDiscretizer'), ('AutoCarver/discretizers/utils/qualitative_discretizers.py', 'CategoricalDiscretizer'),
             ('AutoCarver/discretizers/utils/qualitative_discretizers.py', 'OrdinalDiscretizer'), ('AutoCarver/discretizers/utils/qualitative_discretizers.py', 'ChainedDiscretizer'),
             ('AutoCarver/discretizers/utils/quantitative_discretizers.py', 'ContinuousDiscretizer'), ('AutoCarver/discretizers/utils/type_discretizers.py', 'StringDiscretizer')]
    def is_guard(st):
        return isinstance(st, ast.Assert) and isinstance(st.test, ast.UnaryOp) and isinstance(st.test.op, ast.Not) and _is_self_attr(st.test.operand, 'is_fitted')
    for f, cls in sites:
        fn = _func(src(f), cls, 'fit')
        if fn is None: out.append(ob('%s.fit#raises.AssertionError.refit_guard_is_first_statement' % cls, False, 'fit not found')); continue
        body = [s for s in fn.body if not (isinstance(s, ast.Expr) and isinstance(s.value, ast.Constant))]
        # statements before the guard may only be output (print) under `if self.verbose`
        k = 0
        while k < len(body) and isinstance(body[k], ast.If) and ast.unparse(body[k].test) == 'self.verbose' and all(isinstance(x, ast.Expr) and isinstance(x.value, ast.Call) and getattr(x.value.func, 'id', '') == 'print' for x in body[k].body): k += 1
        out.append(ob('%s.fit#raises.AssertionError.refit_guard_is_first_statement' % cls, k < len(body) and is_guard(body[k]), 'first statement: %s' % (ast.unparse(body[k])[:80] if k < len(body) else '<none>')))
    for f, cls in (('AutoCarver/carvers/binary_carver.py', 'BinaryCarver'), ('AutoCarver/carvers/continuous_carver.py', 'ContinuousCarver')):
        fn = _func(src(f), cls, 'fit')
        body = [s for s in fn.body if not (isinstance(s, ast.Expr) and isinstance(s.value, ast.Constant))] if fn else []
        ok = len(body) >= 2 and isinstance(body[0], ast.Assign) and 'self._prepare_data(' in ast.unparse(body[0].value) and 'super().fit(' in ast.unparse(body[1])
        out.append(ob('%s.fit#call.super.fit.reached_before_any_write' % cls, ok, ' ; '.join(ast.unparse(s)[:60] for s in body[:2])))
    return out


def carver_defaults_obligations(repo):
    """C02: `min_freq_mod` defaults to min_freq / 2 exactly when the argument is None (an explicit 0 must be kept).  Decided on the text of BaseCarver.__init__:
    the only statements mentioning min_freq_mod are  `if min_freq_mod is None: min_freq_mod = min_freq / 2`  and  `self.min_freq_mod = min_freq_mod`."""
    out = []
    tree = ast.parse(open(repo.rstrip('/') + '/AutoCarver/carvers/base_carver.py').read())
    fn = _func(tree, 'BaseCarver', '__init__')
    if fn is None: return [ob('BaseCarver.__init__#post.min_freq_mod_default', False, '__init__ not found')]
    guard_ok = store_ok = False; others = []
    for st in fn.body:
        txt = ast.unparse(st)
        if 'min_freq_mod' not in txt or isinstance(st, ast.Expr) and isinstance(st.value, ast.Constant): continue
        if isinstance(st, ast.If) and ast.unparse(st.test) == 'min_freq_mod is None' and len(st.body) == 1 and not st.orelse and ast.unparse(st.body[0]).replace(' ', '') == 'min_freq_mod=min_freq/2': guard_ok = True
        elif isinstance(st, ast.Assign) and txt.replace(' ', '') == 'self.min_freq_mod=min_freq_mod': store_ok = True
        elif isinstance(st, ast.Expr) and isinstance(st.value, ast.Call) and 'super().__init__' in txt: others.append('forwarded to super().__init__')
        else: others.append(txt[:60])
    out.append(ob('BaseCarver.__init__#post.min_freq_mod_is_half_min_freq_iff_None', guard_ok and store_ok and not [o for o in others if not o.startswith('forwarded')], 'guard=%s store=%s other statements=%r' % (guard_ok, store_ok, others)))
    return out
