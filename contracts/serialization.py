"""Sidecar contracts (engine P) for AutoCarver/discretizers/utils/serialization.py  --  C06 (the value converters used by to_json / load_*).

Values are atoms with assumed classifying predicates (the real tests are numpy / isinstance calls): IsStr, IsFin (numpy.isfinite), NpInt / NpFloat
(isinstance of numpy.integer / numpy.floating).  ASSUMED: int(v) / float(v) of a numpy scalar is the same value (equal, hence the same dict key and the same
comparison result) and is json-serialisable; python str / int / float are json-serialisable; numpy.inf is a non-string, non-finite value.
Domain of the converters (what a fitted values_orders can hold): strings other than the marker "numpy.inf", finite numbers, +inf."""
from z3 import And, Or, Not, Implies, ForAll, If, BoolVal, Const, Function, BoolSort, Int, MultiPattern
from pyvc.types import *
from pyvc.engine import FunctionSpec, str_const
from pyvc.exprs import IsStr
from pyvc import discharge

FILE = 'AutoCarver/discretizers/utils/serialization.py'
IsFin = Function('IsFinite', Val, BoolSort()); NpInt = Function('IsNumpyInteger', Val, BoolSort()); NpFloat = Function('IsNumpyFloating', Val, BoolSort())
PyInt = Function('PyInt', Val, Val); PyFloat = Function('PyFloat', Val, Val); JsonOK = Function('JsonSerialisable', Val, BoolSort())
INF = Const('numpy_inf', Val); MARK = str_const('numpy.inf')
_v = Const('v_ser', Val)
Same = Function('SameValue', Val, Val, BoolSort())        # equal as Python values (1 == numpy.int64(1)); json-serialisability depends on the representation, not on the value
_w, _u = Const('w_ser', Val), Const('u_ser', Val)
discharge.EXTRA_AXIOMS += [
    Not(IsStr(INF)), Not(IsFin(INF)), IsStr(MARK),
    ForAll([_v], Same(_v, _v), patterns=[Same(_v, _v)]),
    ForAll([_v, _w], Implies(Same(_v, _w), Same(_w, _v)), patterns=[Same(_v, _w)]),
    ForAll([_v], Implies(NpInt(_v), And(Same(PyInt(_v), _v), JsonOK(PyInt(_v)), Not(IsStr(_v)))), patterns=[PyInt(_v)]),
    ForAll([_v], Implies(NpFloat(_v), And(Same(PyFloat(_v), _v), JsonOK(PyFloat(_v)), Not(IsStr(_v)))), patterns=[PyFloat(_v)]),
    ForAll([_v], Implies(IsStr(_v), JsonOK(_v)), patterns=[JsonOK(_v)]),
    ForAll([_v], Implies(And(Not(IsStr(_v)), IsFin(_v), Not(NpInt(_v)), Not(NpFloat(_v))), JsonOK(_v)), patterns=[JsonOK(_v)]),      # python int / float
    ForAll([_v], Implies(Same(_v, MARK), _v == MARK), patterns=[Same(_v, MARK)]),                                                     # nothing but the marker string equals it
]
def domain(v): return And(Implies(IsStr(v), v != MARK), Implies(And(Not(IsStr(v)), Not(IsFin(v))), v == INF))
def decode(r): return If(r == MARK, INF, r)
def base_clauses(v, r):
    return [('string_unchanged', Implies(IsStr(v), r == v)), ('non_finite_becomes_the_marker', Implies(And(Not(IsStr(v)), Not(IsFin(v))), r == MARK)),
            ('finite_number_keeps_its_value', Implies(And(Not(IsStr(v)), IsFin(v)), Same(r, v))), ('json_serialisable', JsonOK(r)),
            ('round_trip', Implies(domain(v), Same(decode(r), v)))]

SPECS = {}
SPECS['isfinite'] = FunctionSpec(qual='isfinite', file=FILE, params=[('v', VAL)], returns=BOOL, pure=True, ensures=lambda o, n, r: [('def', r == IsFin(o['v']))], note='ASSUMED numpy.isfinite on a scalar')
SPECS['int'] = FunctionSpec(qual='int', file=FILE, params=[('v', VAL)], returns=VAL, pure=True, ensures=lambda o, n, r: [('def', r == PyInt(o['v']))], note='ASSUMED int() of a numpy integer is the same value')
SPECS['float'] = FunctionSpec(qual='float', file=FILE, params=[('v', VAL)], returns=VAL, pure=True, ensures=lambda o, n, r: [('def', r == PyFloat(o['v']))], note='ASSUMED float() of a numpy float is the same value')
PREDS = {'integer': NpInt, 'floating': NpFloat}
SPECS['convert_value_to_base_type'] = FunctionSpec(qual='convert_value_to_base_type', file=FILE, params=[('value', VAL)], returns=VAL, isinstance_preds=PREDS,
    ensures=lambda o, n, r: base_clauses(o['value'], r))
SPECS['convert_value_to_numpy_type'] = FunctionSpec(qual='convert_value_to_numpy_type', file=FILE, params=[('value', VAL)], returns=VAL, globals_={'inf': (VAL, INF)},
    ensures=lambda o, n, r: [('marker_becomes_inf_everything_else_unchanged', r == decode(o['value']))])

lv = LVAL.th(); DVL = TDict(VAL, LVAL)
def list_post(o, n, r, conv):
    i = Int('i_sl'); it = o['iterable']
    return [('same_length', lv.Len(r) == lv.Len(it)),
            ('element_wise', ForAll([i], Implies(And(0 <= i, i < lv.Len(it)), And(*[f for _, f in conv(lv.At(it, i), lv.At(r, i))])), patterns=[lv.At(r, i)])) ]
SPECS['convert_values_to_base_types@list'] = FunctionSpec(qual='convert_values_to_base_types', name='convert_values_to_base_types@list', file=FILE, params=[('iterable', LVAL)], returns=LVAL,
    ensures=lambda o, n, r: list_post(o, n, r, base_clauses), locals={'output': LVAL})
SPECS['convert_values_to_numpy_types@list'] = FunctionSpec(qual='convert_values_to_numpy_types', name='convert_values_to_numpy_types@list', file=FILE, params=[('iterable', LVAL)], returns=LVAL,
    ensures=lambda o, n, r: list_post(o, n, r, lambda v, x: [('decode', x == decode(v))]), locals={'output': LVAL})

# the dict overloads ({leader: members} -> converted keys / member lists) and the json.dumps / json.loads wrappers stay bounded (engine R, C06)
