"""Sidecar contracts (engine P) for C05: what transform does with values that were not seen at fit.

 * BaseDiscretizer._check_new_values, loop 0 (REGION)   the final loop over the qualitative features: AssertionError EXACTLY when some feature still holds a value
                                                        that its fitted order does not know (after the pandas replacement by the default group); completing the loop
                                                        means every remaining value of every feature is a known value, hence has an entry in the label table
                                                        (`_get_labels_per_values`, C04) -- "raw values never leak".  Entry state assumed: `uniques` (the pandas
                                                        per-column unique values) has an entry for every feature, every feature has an order.
 * transform_quantitative_feature                       AssertionError EXACTLY when the column holds missing values and the fitted order does not know the marker;
                                                        otherwise the column is rewritten by numpy.select over one mask `column <= q` per NON-MISSING leader q, in the
                                                        order of the fitted order, each mask paired with x_len copies of the label of q; when there is no such leader
                                                        the column is handed back as it is; missing rows get the label of the group the marker was merged into (the
                                                        marker itself when that group has no label).  pandas / numpy pieces are uninterpreted library symbols.
"""
from z3 import And, Or, Not, Implies, ForAll, Exists, If, BoolVal, Const, Int, MultiPattern
import copy as _copy
from pyvc.types import *
from pyvc.engine import FunctionSpec, LoopSpec
from pyvc.exprs import OPQ, OpqTruth, OpqAsList, opaque_apply
import contracts.grouped_list as G
from contracts.grouped_list import GL, WF, L, K, grp, AllVals, C, Has, Nodup, Len, At

FILE = 'AutoCarver/discretizers/utils/base_discretizers.py'
DVG = TDict(VAL, GL); DUL = TDict(VAL, LVAL); lv = LVAL.th()
SPECS = {}
for k in ('GroupedList.values', 'GroupedList.contains', 'GroupedList.get_group'):
    c = _copy.copy(G.SPECS[k]); c.pure = True; c.note = 'ASSUMED here, proved in contracts.grouped_list'; SPECS[k] = c

# ------------------------------------------------------------------------------------------------ BaseDiscretizer._check_new_values, loop 0
BDU = TObj('BaseDiscretizerU', [('values_orders', DVG), ('str_nan', VAL), ('str_default', VAL)])
def U(o, n): return BDU.get(o, n)
def known(s, f, x): return Has(AllVals(C(DVG.get(U(s, 'values_orders'), f))), x)
def all_known(s, uniques, f):
    i = Int('i_ak'); un = DUL.get(uniques, f)
    return ForAll([i], Implies(And(0 <= i, i < Len(un)), known(s, f, At(un, i))), patterns=[At(un, i)])
def cnv_req(o):
    s = o['self']; f = Const('f_nr', Val)
    return ForAll([f], Implies(Has(o['features'], f), And(DUL.has(o['uniques'], f), DVG.has(U(s, 'values_orders'), f))), patterns=[Has(o['features'], f)])
def cnv_inv(o, v, k):
    s = o['self']; j = Int('j_ni')
    return And(v['self'] == s, v['uniques'] == o['uniques'], v['features'] == o['features'],
               ForAll([j], Implies(And(0 <= j, j < k), all_known(s, o['uniques'], At(o['features'], j))), patterns=[At(o['features'], j)]))
def cnv_raises(o):
    s = o['self']; j = Int('j_nx'); i = Int('i_nx'); f = At(o['features'], j); un = DUL.get(o['uniques'], f)
    return Exists([j, i], And(0 <= j, j < Len(o['features']), 0 <= i, i < Len(un), Not(known(s, f, At(un, i)))))
def cnv_post(o, n, r):
    s = o['self']; f = Const('f_np', Val)
    return [('every_remaining_value_of_every_feature_is_a_known_value', ForAll([f], Implies(Has(o['features'], f), all_known(s, o['uniques'], f)), patterns=[Has(o['features'], f)])),
            ('fitted_object_not_written', n['self'] == s)]
SPECS['BaseDiscretizer._check_new_values@unexpected_loop'] = FunctionSpec(qual='BaseDiscretizer._check_new_values', name='BaseDiscretizer._check_new_values@unexpected_loop', file=FILE,
    cls='BaseDiscretizerU', region=0, params=[('self', BDU), ('features', LVAL), ('uniques', DUL)], requires=cnv_req, ensures=cnv_post, raises={'AssertionError': cnv_raises},
    locals={'unexpected': LVAL}, loops={0: LoopSpec(inv=cnv_inv)},
    note='REGION: entry state assumed (`uniques` -- pandas per-column unique values after the default-group replacement -- has an entry for every feature; every feature has an order)')

# ------------------------------------------------------------------------------------------------ transform_quantitative_feature
DVV = TDict(VAL, VAL); LPV = TDict(VAL, DVV); LOPQ = TList(OPQ); LLV = TList(LVAL); lo = LOPQ.th(); ll = LLV.th()
def box(x): return opaque_apply('box_Val', [x])
def col_has_missing(col): return OpqTruth(opaque_apply('fn_any', [opaque_apply('fn_isna_', [col])]))
def tq_req(o):
    g = DVG.get(o['values_orders'], o['feature']); lab = LPV.get(o['labels_per_values'], o['feature']); x = Const('x_tq', Val)
    return And(DVG.has(o['values_orders'], o['feature']), WF(g), LPV.has(o['labels_per_values'], o['feature']),
               ForAll([x], Implies(And(Has(L(g), x), x != o['str_nan']), DVV.has(lab, x)), patterns=[Has(L(g), x)]))
def tq_raises(o):
    g = DVG.get(o['values_orders'], o['feature'])
    return And(col_has_missing(o['df_feature']), Not(Has(AllVals(C(g)), o['str_nan'])))
def lte(col, q): return opaque_apply('cmp_LtE', [col, box(q)])
def tq_post(o, n, r, loc):
    """col1 = the column the masks are computed on: the input column, with the missing rows overwritten by the leader of the marker's group when the marker was merged into one"""
    f, df0, nan = o['feature'], o['df_feature'], o['str_nan']; g = DVG.get(o['values_orders'], f); lab = LPV.get(o['labels_per_values'], f)
    miss = col_has_missing(df0); nans = opaque_apply('fn_isna_', [df0]); nv = loc['nan_value']
    col1 = If(And(miss, nv != nan), opaque_apply('setitem', [df0, nans, box(nv)]), df0)
    vtg, gl = loc['values_to_group'], loc['group_labels']; q = Const('q_tp', Val); i = Int('i_tp'); j = Int('j_tp')
    sel = If(lo.Len(vtg) > 0, opaque_apply('fn_select_default', [opaque_apply('box_' + repr(LOPQ), [vtg]), opaque_apply('box_' + repr(LLV), [gl]), col1]), col1)
    fin = If(miss, opaque_apply('setitem', [sel, nans, box(If(DVV.has(lab, nv), DVV.get(lab, nv), nan))]), sel)
    RT = TTuple([VAL, LVAL])
    return [('names_its_feature', RT.proj(0, r) == f),
            ('with_missing_rows_the_marker_is_known_and_its_group_leader_is_used', Implies(miss, And(Has(AllVals(C(g)), nan), Has(K(g), nv), Has(grp(g, nv), nan)))),
            ('every_non_missing_leader_has_its_mask_and_its_label_repeated_x_len_times', ForAll([q], Implies(And(Has(L(g), q), q != nan), And(lo.Has(vtg, lte(col1, q)), ll.Has(gl, lv.Rep(DVV.get(lab, q), If(o['x_len'] < 0, 0, o['x_len']))))), patterns=[Has(L(g), q)])),
            ('every_mask_compares_the_column_with_a_non_missing_leader', ForAll([i], Implies(And(0 <= i, i < lo.Len(vtg)), Exists([j], And(0 <= j, j < Len(L(g)), At(L(g), j) != nan, lo.At(vtg, i) == lte(col1, At(L(g), j))))), patterns=[lo.At(vtg, i)])),
            ('result_is_numpy_select_over_those_masks_then_the_label_of_the_missing_rows', RT.proj(1, r) == OpqAsList(fin))]
SPECS['transform_quantitative_feature'] = FunctionSpec(qual='transform_quantitative_feature', file=FILE,
    params=[('feature', VAL), ('df_feature', OPQ), ('values_orders', DVG), ('str_nan', VAL), ('labels_per_values', LPV), ('x_len', INT)], returns=TTuple([VAL, LVAL]),
    requires=tq_req, raises={'AssertionError': tq_raises}, opaque_functions={'select', 'isna', 'isfinite', 'isnan', 'isnull', 'notna'},
    locals={'values_to_group': LOPQ, 'group_labels': LLV},
    ensures=tq_post,
    note='masks / labels characterised as SETS (membership both ways); that the i-th mask is paired with the i-th label list and that masks follow the fitted order is bounded (engine R, C03 / C04)')
