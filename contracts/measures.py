"""Sidecar contracts (engine P) for AutoCarver/selectors/measures/qualitative_measures.py  --  C14 (the chi2-based association values).

x, y (pandas Series) and every pandas / scipy operation on them are opaque library values (uninterpreted functions of their arguments, DESIGN 3.4).
What is proved is the ARITHMETIC and the bookkeeping of the measurement dict: Cramer's V = sqrt(chi2 / n / (min(r, c) - 1)), Tschuprow's T =
sqrt(chi2 / n / sqrt((r - 1)(c - 1))) and 0 when a dimension is 1, with chi2 / n / r / c being whatever the locals of those names hold at the exit
(so the contract does not depend on how pandas computes them), the chi2 statistic being carried along in the dict, and no unbound local on any path."""
from z3 import And, Or, Not, Implies, If, BoolVal, RealVal, Function, RealSort, Const
from pyvc.types import *
from pyvc.engine import FunctionSpec, str_const
from pyvc.exprs import OPQ, OpqReal, NumpyDiv, opaque_apply
from z3 import IntVal

FILE = 'AutoCarver/selectors/measures/qualitative_measures.py'
DVR = TDict(VAL, REAL); RET = TTuple([BOOL, DVR])
Sqrt = Function('Sqrt', RealSort(), RealSort()); Min2 = Function('Min2', RealSort(), RealSort(), RealSort())
CHI2, CRAMERV, TSCH = str_const('chi2_statistic'), str_const('cramerv_measure'), str_const('tschuprowt_measure')
SPECS = {}
SPECS['sqrt'] = FunctionSpec(qual='sqrt', file=FILE, params=[('v', REAL)], returns=REAL, pure=True, ensures=lambda o, n, r: [('def', r == Sqrt(o['v']))], note='ASSUMED math.sqrt as an uninterpreted function (only its functionality is used)')
SPECS['min'] = FunctionSpec(qual='min', file=FILE, params=[('a', REAL), ('b', REAL)], returns=REAL, pure=True, ensures=lambda o, n, r: [('def', r == If(o['a'] <= o['b'], o['a'], o['b']))], note='ASSUMED builtin min of two numbers')
OPAQUE = ('crosstab', 'chi2_contingency', 'notna')

def res_dict(r): return RET.proj(1, r)
SPECS['chi2_measure'] = FunctionSpec(qual='chi2_measure', file=FILE, params=[('x', OPQ), ('y', OPQ), ('thresh_chi2', REAL), ('kwargs', OPQ)], defaults={'thresh_chi2': RealVal(0), 'kwargs': Const('no_kwargs', OPQ.sort())},
    returns=RET, opaque_functions=OPAQUE, locals={'measurement': DVR},
    ensures=lambda o, n, r, loc: [('statistic_recorded', And(DVR.has(res_dict(r), CHI2), DVR.get(res_dict(r), CHI2) == OpqReal(loc['chi2'])) if loc is not None else DVR.has(res_dict(r), CHI2))] +
        ([('statistic_is_scipy_chi2_contingency_of_the_crosstab_with_default_arguments',          # (Yates' continuity correction on 2x2 tables included: the scipy default)
           loc['chi2'] == opaque_apply('getitem', [opaque_apply('fn_chi2_contingency_', [opaque_apply('fn_crosstab_', [o['x'], o['y']])]), opaque_apply('box_Int', [IntVal(0)])]))] if loc is not None else []))

def tsch_post(o, n, r, loc):
    if loc is None: return [('measure_recorded', DVR.has(res_dict(r), TSCH))]
    chi2 = loc['chi2_statistic']; nobs = OpqReal(loc['n_obs']); rx, ry = OpqReal(loc['n_mod_x']), OpqReal(loc['n_mod_y'])
    dof = Sqrt((rx - 1) * (ry - 1)); m = res_dict(r)
    chi2r = chi2 if chi2.sort() == RealSort() else OpqReal(chi2)
    return [('tschuprow_t_formula', And(DVR.has(m, TSCH), DVR.get(m, TSCH) == If(dof > 0, Sqrt(NumpyDiv(NumpyDiv(chi2r, nobs), dof)), 0))),
            ('chi2_statistic_kept_in_the_measurement', Implies(o.get('chi2_statistic') is None, DVR.has(m, CHI2)) if o.get('chi2_statistic') is None else BoolVal(True))]
def cram_post(o, n, r, loc):
    if loc is None: return [('measure_recorded', DVR.has(res_dict(r), CRAMERV))]
    chi2 = loc['chi2_statistic']; nobs = OpqReal(loc['n_obs']); rx, ry = OpqReal(loc['n_mod_x']), OpqReal(loc['n_mod_y']); m = res_dict(r)
    chi2r = chi2 if chi2.sort() == RealSort() else OpqReal(chi2)
    mn = If(rx <= ry, rx, ry)
    return [('cramer_v_formula', And(DVR.has(m, CRAMERV), DVR.get(m, CRAMERV) == Sqrt(NumpyDiv(NumpyDiv(chi2r, nobs), mn - 1))))]

for name, post, th in (('tschuprowt_measure', tsch_post, 'thresh_tschuprowt'), ('cramerv_measure', cram_post, 'thresh_cramerv')):
    SPECS[name] = FunctionSpec(qual=name, file=FILE, params=[('x', OPQ), ('y', OPQ), (th, REAL), ('chi2_statistic', None), ('kwargs', OPQ)],
        defaults={th: RealVal(0), 'chi2_statistic': None, 'kwargs': Const('no_kwargs', OPQ.sort())}, returns=RET, opaque_functions=OPAQUE, ensures=post, numpy_division=True,
        note='overload: chi2_statistic not supplied (the default; the selectors never supply it)')
    # the overload with a caller-supplied chi2_statistic: `measurement` is only bound in the other branch (known finding D10)
    SPECS[name + '@given'] = FunctionSpec(qual=name, name=name + '@given', file=FILE, params=[('x', OPQ), ('y', OPQ), (th, REAL), ('chi2_statistic', REAL), ('kwargs', OPQ)],
        defaults={th: RealVal(0), 'kwargs': Const('no_kwargs', OPQ.sort())}, returns=RET, opaque_functions=OPAQUE, ensures=post, numpy_division=True, locals={'measurement': DVR})


# ------------------------------------------------------------------------------------------------ BinaryCarver._association_measure (C01: the measure the carver maximises)
BC_FILE = 'AutoCarver/carvers/binary_carver.py'
SELF_ANY = TObj('BinaryCarverOpaque', [('sort_by', VAL)])
CV, TT = str_const('cramerv'), str_const('tschuprowt')
def assoc_post(o, n, r, loc):
    if loc is None: return [('both_measures_present', And(DVR.has(r, CV), DVR.has(r, TT)))]
    chi2 = OpqReal(loc['chi2']); nobs = o['n_obs']; rows = OpqReal(loc['n_mod_x']); v = Sqrt(NumpyDiv(chi2, nobs))
    return [('cramer_v_is_sqrt_chi2_over_n', And(DVR.has(r, CV), DVR.get(r, CV) == v)),
            ('tschuprow_t_is_v_over_fourth_root_of_rows_minus_one', And(DVR.has(r, TT), DVR.get(r, TT) == NumpyDiv(v, Sqrt(Sqrt(rows - 1)))))]
SPECS['BinaryCarver._association_measure'] = FunctionSpec(qual='BinaryCarver._association_measure', file=BC_FILE, cls='BinaryCarverOpaque', params=[('self', SELF_ANY), ('xtab', OPQ), ('n_obs', REAL)],
    returns=DVR, opaque_functions=('chi2_contingency',), numpy_division=True, ensures=assoc_post,
    note='the 2-column contingency table and scipy chi2 are opaque; proved: V = sqrt(chi2/n_obs), T = V / (rows-1)^(1/4)')
