"""Sidecar contract (engine P) for AutoCarver/discretizers/utils/quantitative_discretizers.py::fit_feature  --  C09 / C08 / C03.

PROVED: the base order of a quantitative feature is, in this order, the boundaries handed back by find_quantiles, then +inf, then -- EXACTLY when the column holds
missing values -- the missing-value marker as a modality of its own (C09: "missing values always remain a separate modality"; C03: "+inf last" among the numbers);
every value leads its own singleton group and the order is a well-formed partition (C08).  The constructor and `append` are called within their preconditions:
this is where defect D1 (duplicate boundaries out of find_quantiles) surfaced as a crash.
ASSUMED (bounded in engine R, rtc/c09_base.py, exhaustive scope): find_quantiles returns a duplicate-free list that holds neither +inf nor the marker.
"""
from z3 import And, Or, Not, Implies, ForAll, If, BoolVal, Const, Function
import copy as _copy
from pyvc.types import *
from pyvc.engine import FunctionSpec
from pyvc.exprs import OPQ, OpqTruth, opaque_apply
import contracts.grouped_list as G
from contracts.grouped_list import GL, WF, L, K, grp, AllVals, C, Has, Nodup, Len, At, App, One

FILE = 'AutoCarver/discretizers/utils/quantitative_discretizers.py'
INF = Const('numpy_inf', Val); lv = LVAL.th()
Quantiles = Function('FindQuantiles', OPQ.sort(), OPQ.sort(), LVAL.sort())
SPECS = {}
for k in ('GroupedList.__init__@list', 'GroupedList.append'):
    c = _copy.copy(G.SPECS[k]); c.pure = True; c.note = 'ASSUMED here, proved in contracts.grouped_list'; SPECS[k] = c
SPECS['find_quantiles'] = FunctionSpec(qual='find_quantiles', file=FILE, params=[('df_feature', OPQ), ('q', OPQ)], returns=LVAL, pure=True,
    ensures=lambda o, n, r: [('def', r == Quantiles(o['df_feature'], o['q'])), ('distinct', Nodup(r))],
    note='ASSUMED (numpy recursion; bounded, exhaustive scope, in engine R C09): a duplicate-free list of boundaries')
YT = TTuple([VAL, GL])
def col(o): return opaque_apply('getitem', [o['X'], opaque_apply('box_Val', [o['feature']])])
def has_missing(o): return OpqTruth(opaque_apply('fn_any', [opaque_apply('meth_isna_', [col(o)])]))
def qs(o): return Quantiles(opaque_apply('attr_values', [col(o)]), o['q'])
def post(o, n, r):
    g = YT.proj(1, r); base = App(qs(o), One(INF)); v = Const('v_qf', Val)
    return [('feature_returned', YT.proj(0, r) == o['feature']),
            ('boundaries_then_inf_then_the_marker_iff_the_column_holds_missing_values', L(g) == If(has_missing(o), App(base, One(o['str_nan'])), base)),
            ('every_modality_is_its_own_singleton_group', ForAll([v], Implies(Has(L(g), v), grp(g, v) == One(v)), patterns=[grp(g, v)])),
            ('well_formed', WF(g))]
SPECS['fit_feature'] = FunctionSpec(qual='fit_feature', file=FILE, params=[('feature', VAL), ('X', OPQ), ('q', OPQ), ('str_nan', VAL)], returns=YT,
    requires=lambda o: And(Not(Has(qs(o), INF)), Not(Has(qs(o), o['str_nan'])), o['str_nan'] != INF), globals_={'inf': (VAL, INF)},
    ensures=post, locals={'order': GL, 'quantiles': LVAL})
