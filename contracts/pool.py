"""Sidecar contract (engine P) for C10: the multiprocessing site of BaseDiscretizer._transform_quantitative.

PROVED, for every n_jobs: the list of per-feature results handed to the final DataFrame assembly is, position by position, transform_quantitative_feature applied to
(feature, X[feature], self.values_orders, self.str_nan, self.labels_per_values, X.shape[0]) for the features of self.quantitative_features IN THAT ORDER -- the sequential
branch (n_jobs <= 1) and the pool branch (n_jobs > 1) build the same list, so a feature's output depends neither on n_jobs nor on the other features listed.
ASSUMED (stated, not proved): multiprocessing -- `pool.apply_async(g, args)` gives an object whose `.get()` is `g(*args)` (contract option pool_model); transform_quantitative_feature
is deterministic (its result is a function of its arguments: contract option `deterministic`; its own contract is proved in contracts.unseen) and its in-place writes to the
column it receives are not seen by the other calls (each call receives its own X[feature]); the pandas assembly `X[[...]] = DataFrame({...}, index=X.index)` is a library call.
"""
from z3 import And, Or, Not, Implies, ForAll, Exists, If, BoolVal, Const, Int, Function
import copy as _copy
from pyvc.types import *
from pyvc.engine import FunctionSpec, LoopSpec
from pyvc.exprs import OPQ, opaque_apply
import contracts.unseen as UN
from contracts.unseen import DVG, LPV, FILE

RT = TTuple([VAL, LVAL]); LRT = TList(RT); lr = LRT.th(); lv = LVAL.th()
SPECS = {}
c = _copy.copy(UN.SPECS['transform_quantitative_feature']); c.deterministic = True; c.pure = True
c.params = [(pn, OPQ if pn == 'x_len' else pt) for pn, pt in c.params]          # (x_len = X.shape[0] is a library value at this call site)
c.requires = lambda o: BoolVal(True); c.raises = {}; c.ensures = lambda o, n, r: [('names_its_feature', RT.proj(0, r) == o['feature'])]
c.note = 'ASSUMED here, proved in contracts.unseen (its precondition -- a fitted order and a label table for the feature -- and its AssertionError are the business of C04 / C05; here only: result = function of the arguments)'
SPECS['transform_quantitative_feature'] = c

BDP = TObj('BaseDiscretizerP', [('quantitative_features', LVAL), ('values_orders', DVG), ('labels_per_values', LPV), ('str_nan', VAL), ('n_jobs', INT)])
def P(o, n): return BDP.get(o, n)
def res_fn(s, X, f):
    """the term the engine builds for transform_quantitative_feature(f, X[f], ...)"""
    args = [f, opaque_apply('getitem', [X, opaque_apply('box_Val', [f])]), P(s, 'values_orders'), P(s, 'str_nan'), P(s, 'labels_per_values')]
    return args
def post(o, n, r, loc):
    s = o['self']; feats = P(s, 'quantitative_features'); at = loc['all_transformed']; k = Int('k_pp')
    x_len = loc['x_len']
    R = Function('res_transform_quantitative_feature', Val, OPQ.sort(), DVG.sort(), Val, LPV.sort(), OPQ.sort(), RT.sort())
    return [('one_result_per_quantitative_feature', lr.Len(at) == lv.Len(feats)),
            ('k_th_result_is_the_per_feature_transform_of_the_k_th_feature_whatever_n_jobs_is',
             ForAll([k], Implies(And(0 <= k, k < lv.Len(feats)), lr.At(at, k) == R(*(res_fn(s, o['X'], lv.At(feats, k)) + [x_len]))), patterns=[lr.At(at, k)])),
            ('fitted_object_not_written', n['self'] == s)]
SPECS['BaseDiscretizer._transform_quantitative'] = FunctionSpec(qual='BaseDiscretizer._transform_quantitative', file=FILE, cls='BaseDiscretizerP',
    params=[('self', BDP), ('X', OPQ), ('y', OPQ)], returns=OPQ, ensures=post, pool_model=True, opaque_functions={'DataFrame'},
    locals={'all_transformed': LRT, 'all_transformed_async': LRT, '$DataFrame.arg0': TDict(VAL, LVAL)},
    note='multiprocessing modelled by its ASSUMED contract (apply_async(g, args).get() == g(*args)); the DataFrame assembly is a library call')

# ------------------------------------------------------------------------------------------------ ContinuousDiscretizer.fit: sequential list vs pool.imap_unordered
# PROVED, for every n_jobs and EVERY completion order of the workers: after the orders are stored, values_orders[f] is the order fit_feature computes for f from
# (X[quantitative_features], q, str_nan), for every quantitative feature f; the other entries are untouched; a fitted object is refused before anything is written.
# ASSUMED: multiprocessing (imap_unordered(partial(g, **kw), xs) = the values g(x, **kw) in an arbitrary order), fit_feature deterministic and naming its feature
# (its own contract: contracts.quantile_fit), super().fit leaves values_orders alone (BaseDiscretizer.fit: bounded, C08), feature names pairwise different.
import contracts.quantile_fit as QF
from contracts.grouped_list import GL
QFILE = 'AutoCarver/discretizers/utils/quantitative_discretizers.py'
YT = QF.YT; LYT = TList(YT); ly = LYT.th()
CDT = TObj('ContinuousDiscretizerP', [('quantitative_features', LVAL), ('values_orders', DVG), ('str_nan', VAL), ('q', OPQ), ('n_jobs', INT), ('is_fitted', BOOL), ('verbose', BOOL)])
def Cq(o, n): return CDT.get(o, n)
cf = _copy.copy(QF.SPECS['fit_feature']); cf.deterministic = True; cf.pure = True; cf.requires = lambda o: BoolVal(True)
cf.ensures = lambda o, n, r: [('names_its_feature', YT.proj(0, r) == o['feature'])]
cf.note = 'ASSUMED here, proved in contracts.quantile_fit (here only: result = function of the arguments, first component = the feature)'
SPECS_CD = {'fit_feature': cf}
SPECS_CD['super.fit'] = FunctionSpec(qual='BaseDiscretizer.fit', name='super.fit', file=FILE, cls='ContinuousDiscretizerP', params=[('self', CDT), ('X', OPQ), ('y', OPQ)], modifies=['self'], pure=True,
    ensures=lambda o, n, r: [('values_orders_kept', And(Cq(n['self'], 'values_orders') == Cq(o['self'], 'values_orders'), Cq(n['self'], 'quantitative_features') == Cq(o['self'], 'quantitative_features')))],
    note='ASSUMED: BaseDiscretizer.fit (label tables, is_fitted) leaves values_orders and the feature lists alone (bounded: engine R, C08)')
def cd_post(o, n, r, loc):
    s0, s1 = o['self'], n['self']; qf = Cq(s0, 'quantitative_features'); k = Int('k_cd'); f = Const('f_cd', Val)
    Xq = opaque_apply('getitem', [o['X'], opaque_apply('box_' + repr(LVAL), [qf])])
    Rf = Function('res_fit_feature', Val, OPQ.sort(), OPQ.sort(), Val, YT.sort())
    return [('every_quantitative_feature_gets_the_order_fit_feature_computes_for_it_whatever_n_jobs_and_the_completion_order_are',
             ForAll([k], Implies(And(0 <= k, k < lv.Len(qf)), And(DVG.has(Cq(s1, 'values_orders'), lv.At(qf, k)),
                    DVG.get(Cq(s1, 'values_orders'), lv.At(qf, k)) == YT.proj(1, Rf(lv.At(qf, k), Xq, Cq(s0, 'q'), Cq(s0, 'str_nan'))))), patterns=[lv.At(qf, k)])),
            ('other_entries_untouched', ForAll([f], Implies(Not(lv.Has(qf, f)), DVG.get(Cq(s1, 'values_orders'), f) == DVG.get(Cq(s0, 'values_orders'), f)), patterns=[DVG.get(Cq(s1, 'values_orders'), f)]))]
def cd_res(o, f):
    qf = Cq(o['self'], 'quantitative_features'); Xq = opaque_apply('getitem', [o['X'], opaque_apply('box_' + repr(LVAL), [qf])])
    return Function('res_fit_feature', Val, OPQ.sort(), OPQ.sort(), Val, YT.sort())(f, Xq, Cq(o['self'], 'q'), Cq(o['self'], 'str_nan'))
def cd_lemmas(o, v):
    """ghost lemmas after each assignment to `all_orders` (they hold for [], for the sequential list and for [] + the unordered results)"""
    ao = v['all_orders']; qf = Cq(o['self'], 'quantitative_features'); j = Int('j_cl'); i = Int('i_cl')
    return [('every_element_is_the_result_for_some_feature', ForAll([j], Implies(And(0 <= j, j < ly.Len(ao)), Exists([i], And(0 <= i, i < lv.Len(qf), ly.At(ao, j) == cd_res(o, lv.At(qf, i))))), patterns=[ly.At(ao, j)])),
            ('when_complete_every_feature_has_its_result', Implies(ly.Len(ao) == lv.Len(qf), ForAll([i], Implies(And(0 <= i, i < lv.Len(qf)), And(ly.Has(ao, cd_res(o, lv.At(qf, i))), 0 <= ly.Idx(ao, cd_res(o, lv.At(qf, i))), ly.Idx(ao, cd_res(o, lv.At(qf, i))) < ly.Len(ao),
                                                                              ly.At(ao, ly.Idx(ao, cd_res(o, lv.At(qf, i)))) == cd_res(o, lv.At(qf, i)))), patterns=[lv.At(qf, i)])))]
SPECS_CD['ContinuousDiscretizer.fit'] = FunctionSpec(lemmas={'all_orders': cd_lemmas}, qual='ContinuousDiscretizer.fit', file=QFILE, cls='ContinuousDiscretizerP', params=[('self', CDT), ('X', OPQ), ('y', OPQ)], returns=CDT, modifies=['self'],
    requires=lambda o: And(lv.Nodup(Cq(o['self'], 'quantitative_features')), lv.Nodup(DVG.keys(Cq(o['self'], 'values_orders')))), raises={'AssertionError': lambda o: Cq(o['self'], 'is_fitted')},
    ensures=cd_post, pool_model=True, locals={'all_orders': LYT},
    note='multiprocessing modelled by its ASSUMED contract (imap_unordered = the same values in an arbitrary order)')
SPECS.update(SPECS_CD)
