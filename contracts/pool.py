"""Sidecar contract (engine P) for C10: the multiprocessing site of BaseDiscretizer._transform_quantitative.

PROVED, for every n_jobs: the list of per-feature results handed to the final DataFrame assembly is, position by position, transform_quantitative_feature applied to
(feature, X[feature], self.values_orders, self.str_nan, self.labels_per_values, X.shape[0]) for the features of self.quantitative_features IN THAT ORDER -- the sequential
branch (n_jobs <= 1) and the pool branch (n_jobs > 1) build the same list, so a feature's output depends neither on n_jobs nor on the other features listed.
ASSUMED (stated, not proved): multiprocessing -- `pool.apply_async(g, args)` gives an object whose `.get()` is `g(*args)` (contract option pool_model); transform_quantitative_feature
is deterministic (its result is a function of its arguments: contract option `deterministic`; its own contract is proved in contracts.unseen) and its in-place writes to the
column it receives are not seen by the other calls (each call receives its own X[feature]); the pandas assembly `X[[...]] = DataFrame({...}, index=X.index)` is a library call.
"""
from z3 import And, Or, Not, Implies, ForAll, If, BoolVal, Const, Int, Function
import copy as _copy
from pyvc.types import *
from pyvc.engine import FunctionSpec, LoopSpec
from pyvc.exprs import OPQ, opaque_apply
import contracts.unseen as UN
from contracts.unseen import DVG, LPV, FILE

RT = TTuple([VAL, LVAL]); LRT = TList(RT); lr = LRT.th(); lv = LVAL.th()
SPECS = {}
c = _copy.copy(UN.SPECS['transform_quantitative_feature']); c.deterministic = True; c.pure = True
c.params = [(pn, OPQ if pn == 'x_len' else pt) for pn, pt in c.params]          # (x_len = X.shape[0] is a library value at this call site)
c.requires = lambda o: BoolVal(True); c.raises = {}; c.ensures = lambda o, n, r: [('names_its_feature', RT.proj(0, r) == o['feature'])]
c.note = 'ASSUMED here, proved in contracts.unseen (its precondition -- a fitted order and a label table for the feature -- and its AssertionError are the business of C04 / C05; here only: result = function of the arguments)'
SPECS['transform_quantitative_feature'] = c

BDP = TObj('BaseDiscretizerP', [('quantitative_features', LVAL), ('values_orders', DVG), ('labels_per_values', LPV), ('str_nan', VAL), ('n_jobs', INT)])
def P(o, n): return BDP.get(o, n)
def res_fn(s, X, f):
    """the term the engine builds for transform_quantitative_feature(f, X[f], ...)"""
    args = [f, opaque_apply('getitem', [X, opaque_apply('box_Val', [f])]), P(s, 'values_orders'), P(s, 'str_nan'), P(s, 'labels_per_values')]
    return args
def post(o, n, r, loc):
    s = o['self']; feats = P(s, 'quantitative_features'); at = loc['all_transformed']; k = Int('k_pp')
    x_len = loc['x_len']
    R = Function('res_transform_quantitative_feature', Val, OPQ.sort(), DVG.sort(), Val, LPV.sort(), OPQ.sort(), RT.sort())
    return [('one_result_per_quantitative_feature', lr.Len(at) == lv.Len(feats)),
            ('k_th_result_is_the_per_feature_transform_of_the_k_th_feature_whatever_n_jobs_is',
             ForAll([k], Implies(And(0 <= k, k < lv.Len(feats)), lr.At(at, k) == R(*(res_fn(s, o['X'], lv.At(feats, k)) + [x_len]))), patterns=[lr.At(at, k)])),
            ('fitted_object_not_written', n['self'] == s)]
SPECS['BaseDiscretizer._transform_quantitative'] = FunctionSpec(qual='BaseDiscretizer._transform_quantitative', file=FILE, cls='BaseDiscretizerP',
    params=[('self', BDP), ('X', OPQ), ('y', OPQ)], returns=OPQ, ensures=post, pool_model=True, opaque_functions={'DataFrame'},
    locals={'all_transformed': LRT, 'all_transformed_async': LRT, '$DataFrame.arg0': TDict(VAL, LVAL)},
    note='multiprocessing modelled by its ASSUMED contract (apply_async(g, args).get() == g(*args)); the DataFrame assembly is a library call')
