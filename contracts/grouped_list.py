"""Sidecar contracts (engine P) for AutoCarver/discretizers/utils/grouped_list.py  --  property C13 (and C08/C17/C04 users).

Abstract view of a GroupedList g:  L(g) ordered leaders (the list part), K(g)/M(g) keys and map of `content`.
Invariant WF(g): L, K duplicate-free; same members; each leader in its own group; groups pairwise disjoint; groups
duplicate-free.  Domain assumption (DESIGN §3.2): values are NaN-free atoms, so `is_equal(a, b)` is `a == b`.
"""
from z3 import (And, Or, Not, Implies, ForAll, Exists, If, BoolVal, Const, Consts, Select, Store, Function, IntSort, BoolSort, Int,
                MultiPattern, FreshConst)
from pyvc.types import *
from pyvc.engine import FunctionSpec, LoopSpec, Truthy
from pyvc import discharge

FILE = 'AutoCarver/discretizers/utils/grouped_list.py'
DVL = TDict(VAL, LVAL)
GL = TObj('GroupedList', [('list', LVAL), ('content', DVL)], as_list='list')
lv = LVAL.th()
Has, Nodup, Len, At, App, One, Rm, Emp, Idx, Disj = lv.Has, lv.Nodup, lv.Len, lv.At, lv.App, lv.One, lv.Rm, lv.Emp, lv.Idx, lv.Disj


def L(g): return GL.get(g, 'list')
def C(g): return GL.get(g, 'content')
def K(g): return DVL.keys(C(g))
def M(g): return DVL.map(C(g))
def grp(g, k): return Select(M(g), k)


_n = [0]
def fv(name='v', sort=None):
    _n[0] += 1; return Const('%s!%d' % (name, _n[0]), sort or Val)


def WF_parts(g):
    v, a, b, k = fv('v'), fv('a'), fv('b'), fv('k')
    return [
        ('list_nodup', Nodup(L(g))), ('keys_nodup', Nodup(K(g))),
        ('list_eq_keys', ForAll([v], Has(L(g), v) == Has(K(g), v), patterns=[Has(L(g), v), Has(K(g), v)])),
        ('leader_in_own_group', ForAll([k], Implies(Has(K(g), k), Has(grp(g, k), k)), patterns=[Has(K(g), k)])),
        ('groups_disjoint', ForAll([a, b, v], Implies(And(Has(K(g), a), Has(K(g), b), a != b, Has(grp(g, a), v)), Not(Has(grp(g, b), v))),
                                   patterns=[MultiPattern(Has(grp(g, a), v), Has(K(g), b))])),
        ('groups_nodup', ForAll([k], Implies(Has(K(g), k), Nodup(grp(g, k))), patterns=[Has(K(g), k)])),
    ]


def WF(g): return And(*[f for _, f in WF_parts(g)])


# all values of all groups (ordered: groups in key order) -- spec function with its membership characterisation
AllVals = Function('AllVals', DVL.sort(), LVAL.sort())
Own = Function('OwnerOf', DVL.sort(), Val, Val)
_d = Const('d', DVL.sort()); _v, _k = Consts('v_av k_av', Val)
discharge.EXTRA_AXIOMS += [
    ForAll([_d, _v], Implies(Has(AllVals(_d), _v), And(DVL.has(_d, Own(_d, _v)), Has(DVL.get(_d, Own(_d, _v)), _v))), patterns=[Has(AllVals(_d), _v)]),
    ForAll([_d, _k, _v], Implies(And(DVL.has(_d, _k), Has(DVL.get(_d, _k), _v)), Has(AllVals(_d), _v)), patterns=[MultiPattern(Has(DVL.get(_d, _k), _v), AllVals(_d))]),
]


def known(g, v):
    """v is a member of some group of g"""
    k = fv('kk'); return Exists([k], And(Has(K(g), k), Has(grp(g, k), v)))


def same_members_except(o, n, removed=None):
    """no value disappears (except `removed`): every member of some group before is a member of some group after"""
    v, k = fv('v'), fv('k')
    body = Implies(And(Has(K(o), k), Has(grp(o, k), v)) if removed is None else And(Has(K(o), k), Has(grp(o, k), v), k != removed), Has(AllVals(C(n)), v))
    return ForAll([k, v], body, patterns=[MultiPattern(Has(grp(o, k), v), Has(K(o), k))])


def frame_groups(o, n, changed):
    """all groups other than `changed` leaders keep their members"""
    v = fv('v'); return ForAll([v], Implies(And(*[v != c for c in changed]), grp(n, v) == grp(o, v)), patterns=[grp(n, v)])


SPECS = {}
def spec(**kw):
    s = FunctionSpec(file=FILE, cls='GroupedList', **kw); SPECS[s.qual] = s; return s


# ------------------------------------------------------------------------------------------------ is_equal (NaN-free domain)
SPECS['is_equal'] = FunctionSpec(qual='is_equal', file=FILE, params=[('a', VAL), ('b', VAL)], returns=BOOL,
    ensures=lambda o, n, r: [('eq', r == (o['a'] == o['b']))], pure=True,
    note='ASSUMED on the NaN-free domain (isna is a pandas call); bounded check in engine R')

# ------------------------------------------------------------------------------------------------ remove
spec(qual='GroupedList.remove', params=[('self', GL), ('value', VAL)], modifies=['self'],
     requires=lambda o: And(Has(L(o['self']), o['value']), Has(K(o['self']), o['value'])),      # NOT WF: called mid-`group`
     ensures=lambda o, n, r: [
         ('list', L(n['self']) == Rm(L(o['self']), o['value'])),
         ('keys', K(n['self']) == Rm(K(o['self']), o['value'])),
         ('map_unchanged', M(n['self']) == M(o['self'])),
         ('wf_preserved', Implies(WF(o['self']), WF(n['self']))),
     ])

# ------------------------------------------------------------------------------------------------ pop
spec(qual='GroupedList.pop', params=[('self', GL), ('idx', INT)], modifies=['self'],
     requires=lambda o: And(WF(o['self']), -Len(L(o['self'])) <= o['idx'], o['idx'] < Len(L(o['self']))),
     ensures=lambda o, n, r: (lambda i: [
         ('list', L(n['self']) == Rm(L(o['self']), At(L(o['self']), i))),
         ('keys', K(n['self']) == Rm(K(o['self']), At(L(o['self']), i))),
         ('map_unchanged', M(n['self']) == M(o['self'])),
         ('wf', WF(n['self'])),
     ])(If(o['idx'] < 0, Len(L(o['self'])) + o['idx'], o['idx'])))

# ------------------------------------------------------------------------------------------------ append
spec(qual='GroupedList.append', params=[('self', GL), ('new_value', VAL)], modifies=['self'],
     requires=lambda o: And(WF(o['self']), Not(Has(AllVals(C(o['self'])), o['new_value']))),       # from the call sites: value not known yet
     ensures=lambda o, n, r: [
         ('list', L(n['self']) == App(L(o['self']), One(o['new_value']))),
         ('keys', K(n['self']) == App(K(o['self']), One(o['new_value']))),
         ('new_group', grp(n['self'], o['new_value']) == One(o['new_value'])),
         ('frame_other_groups', frame_groups(o['self'], n['self'], [o['new_value']])),
         ('wf', WF(n['self'])),
     ])

# ------------------------------------------------------------------------------------------------ group
def group_post(o, n, r):
    g0, g1, d, k = o['self'], n['self'], o['discarded'], o['kept']
    return [
        ('noop_when_equal', Implies(d == k, g1 == g0)),
        ('list_minus_discarded', Implies(d != k, L(g1) == Rm(L(g0), d))),
        ('keys_minus_discarded', Implies(d != k, K(g1) == Rm(K(g0), d))),
        ('members_merged', Implies(d != k, grp(g1, k) == App(grp(g0, d), grp(g0, k)))),
        ('frame_other_groups', Implies(d != k, frame_groups(g0, g1, [d, k]))),
        ('no_value_lost', same_members_except(g0, g1)),
        ('wf', WF(g1)),
    ]
spec(qual='GroupedList.group', params=[('self', GL), ('discarded', VAL), ('kept', VAL)], modifies=['self'],
     requires=lambda o: WF(o['self']),
     raises={'AssertionError': lambda o: And(o['discarded'] != o['kept'], Or(Not(Has(L(o['self']), o['discarded'])), Not(Has(L(o['self']), o['kept']))))},
     ensures=group_post)
