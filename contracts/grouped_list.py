"""Sidecar contracts (engine P) for AutoCarver/discretizers/utils/grouped_list.py  --  property C13 (and C08/C17/C04 users).

Abstract view of a GroupedList g:  L(g) ordered leaders (the list part), K(g)/M(g) keys and map of `content`.
Invariant WF(g): L, K duplicate-free; same members; each leader in its own group; groups pairwise disjoint; groups
duplicate-free.  Domain assumption (DESIGN §3.2): values are NaN-free atoms, so `is_equal(a, b)` is `a == b`.
"""
from z3 import (And, Or, Not, Implies, ForAll, Exists, If, BoolVal, Const, Consts, Select, Store, Function, IntSort, BoolSort, Int,
                MultiPattern, FreshConst)
from pyvc.types import *
from pyvc.engine import FunctionSpec, LoopSpec, Truthy
from pyvc import discharge

FILE = 'AutoCarver/discretizers/utils/grouped_list.py'
DVL = TDict(VAL, LVAL)
GL = TObj('GroupedList', [('list', LVAL), ('content', DVL)], as_list='list')
lv = LVAL.th()
Has, Nodup, Len, At, App, One, Rm, Emp, Idx, Disj = lv.Has, lv.Nodup, lv.Len, lv.At, lv.App, lv.One, lv.Rm, lv.Emp, lv.Idx, lv.Disj


def L(g): return GL.get(g, 'list')
def C(g): return GL.get(g, 'content')
def K(g): return DVL.keys(C(g))
def M(g): return DVL.map(C(g))
def grp(g, k): return Select(M(g), k)


_n = [0]
def fv(name='v', sort=None):
    _n[0] += 1; return Const('%s!%d' % (name, _n[0]), sort or Val)


def WF_parts(g):
    v, a, b, k = fv('v'), fv('a'), fv('b'), fv('k')
    return [
        ('list_nodup', Nodup(L(g))), ('keys_nodup', Nodup(K(g))),
        ('list_eq_keys', ForAll([v], Has(L(g), v) == Has(K(g), v), patterns=[Has(L(g), v), Has(K(g), v)])),
        ('leader_in_own_group', ForAll([k], Implies(Has(K(g), k), Has(grp(g, k), k)), patterns=[Has(K(g), k)])),
        ('groups_disjoint', ForAll([a, b, v], Implies(And(Has(K(g), a), Has(K(g), b), a != b, Has(grp(g, a), v)), Not(Has(grp(g, b), v))),
                                   patterns=[MultiPattern(Has(grp(g, a), v), Has(K(g), b))])),
        ('groups_nodup', ForAll([k], Implies(Has(K(g), k), Nodup(grp(g, k))), patterns=[Has(K(g), k)])),
    ]


def WF(g): return And(*[f for _, f in WF_parts(g)])


from pyvc.comps import dict_allvals, dedup_fn
AllVals, Own = dict_allvals(DVL)
Dedup = dedup_fn(LVAL)


def known(g, v):
    """v is a member of some group of g"""
    k = fv('kk'); return Exists([k], And(Has(K(g), k), Has(grp(g, k), v)))


def same_members_except(o, n, removed=None):
    """no value disappears (except `removed`): every member of some group before is a member of some group after"""
    v, k = fv('v'), fv('k')
    body = Implies(And(Has(K(o), k), Has(grp(o, k), v)) if removed is None else And(Has(K(o), k), Has(grp(o, k), v), k != removed), Has(AllVals(C(n)), v))
    return ForAll([k, v], body, patterns=[MultiPattern(Has(grp(o, k), v), Has(K(o), k))])


def order_kept(o, n):
    """the leaders that remain keep their relative order"""
    x, y = fv('x'), fv('y')
    return ForAll([x, y], Implies(And(Has(L(n), x), Has(L(n), y)), (Idx(L(n), x) < Idx(L(n), y)) == (Idx(L(o), x) < Idx(L(o), y))), patterns=[MultiPattern(Idx(L(n), x), Idx(L(n), y))])


def frame_groups(o, n, changed):
    """all groups other than `changed` leaders keep their members"""
    v = fv('v'); return ForAll([v], Implies(And(*[v != c for c in changed]), grp(n, v) == grp(o, v)), patterns=[grp(n, v)])


SPECS = {}
def spec(**kw):
    s = FunctionSpec(file=FILE, cls='GroupedList', **kw); SPECS[s.qual] = s; return s


# ------------------------------------------------------------------------------------------------ is_equal (NaN-free domain)
SPECS['is_equal'] = FunctionSpec(qual='is_equal', file=FILE, params=[('a', VAL), ('b', VAL)], returns=BOOL,
    ensures=lambda o, n, r: [('eq', r == (o['a'] == o['b']))], pure=True,
    note='ASSUMED on the NaN-free domain (isna is a pandas call); bounded check in engine R')

# ------------------------------------------------------------------------------------------------ remove
spec(qual='GroupedList.remove', params=[('self', GL), ('value', VAL)], modifies=['self'],
     requires=lambda o: And(Has(L(o['self']), o['value']), Has(K(o['self']), o['value'])),      # NOT WF: called mid-`group`
     ensures=lambda o, n, r: [
         ('list', L(n['self']) == Rm(L(o['self']), o['value'])),
         ('keys', K(n['self']) == Rm(K(o['self']), o['value'])),
         ('map_unchanged', M(n['self']) == M(o['self'])),
         ('wf_preserved', Implies(WF(o['self']), WF(n['self']))),
     ])

# ------------------------------------------------------------------------------------------------ pop
spec(qual='GroupedList.pop', params=[('self', GL), ('idx', INT)], modifies=['self'],
     requires=lambda o: And(WF(o['self']), -Len(L(o['self'])) <= o['idx'], o['idx'] < Len(L(o['self']))),
     ensures=lambda o, n, r: (lambda i: [
         ('list', L(n['self']) == Rm(L(o['self']), At(L(o['self']), i))),
         ('keys', K(n['self']) == Rm(K(o['self']), At(L(o['self']), i))),
         ('map_unchanged', M(n['self']) == M(o['self'])),
         ('wf', WF(n['self'])),
     ])(If(o['idx'] < 0, Len(L(o['self'])) + o['idx'], o['idx'])))

# ------------------------------------------------------------------------------------------------ append
spec(qual='GroupedList.append', params=[('self', GL), ('new_value', VAL)], modifies=['self'],
     requires=lambda o: And(WF(o['self']), Not(Has(AllVals(C(o['self'])), o['new_value']))),       # from the call sites: value not known yet
     ensures=lambda o, n, r: [
         ('list', L(n['self']) == App(L(o['self']), One(o['new_value']))),
         ('keys', K(n['self']) == App(K(o['self']), One(o['new_value']))),
         ('new_group', grp(n['self'], o['new_value']) == One(o['new_value'])),
         ('frame_other_groups', frame_groups(o['self'], n['self'], [o['new_value']])),
         ('wf', WF(n['self'])),
     ])

# ------------------------------------------------------------------------------------------------ group
def group_post(o, n, r):
    g0, g1, d, k = o['self'], n['self'], o['discarded'], o['kept']
    return [
        ('noop_when_equal', Implies(d == k, g1 == g0)),
        ('list_minus_discarded', Implies(d != k, L(g1) == Rm(L(g0), d))),
        ('keys_minus_discarded', Implies(d != k, K(g1) == Rm(K(g0), d))),
        ('members_merged', Implies(d != k, grp(g1, k) == App(grp(g0, d), grp(g0, k)))),
        ('frame_other_groups', Implies(d != k, frame_groups(g0, g1, [d, k]))),
        ('no_value_lost', same_members_except(g0, g1)),
        ('wf', WF(g1)),
        ('remaining_leaders_keep_their_relative_order', order_kept(g0, g1)),
    ]
spec(qual='GroupedList.group', params=[('self', GL), ('discarded', VAL), ('kept', VAL)], modifies=['self'],
     requires=lambda o: WF(o['self']),
     raises={'AssertionError': lambda o: And(o['discarded'] != o['kept'], Or(Not(Has(L(o['self']), o['discarded'])), Not(Has(L(o['self']), o['kept']))))},
     ensures=group_post)

# ------------------------------------------------------------------------------------------------ observers
def get_val(g, k): return If(Has(K(g), k), grp(g, k), Emp)
spec(qual='GroupedList.get', params=[('self', GL), ('key', VAL), ('default', None)], returns=LVAL, defaults={'default': None},
     locals={'default_value': LVAL},
     ensures=lambda o, n, r: [('members_or_empty', r == get_val(o['self'], o['key']))])

spec(qual='GroupedList.values', params=[('self', GL)], returns=LVAL,
     ensures=lambda o, n, r: [('all_members', r == AllVals(C(o['self'])))])

spec(qual='GroupedList.contains', params=[('self', GL), ('value', VAL)], returns=BOOL,
     ensures=lambda o, n, r: [('iff_member_of_some_group', r == Has(AllVals(C(o['self'])), o['value']))])

def get_group_post(o, n, r):
    g, v = o['self'], o['value']
    k = fv('k')
    return [('leader_of_containing_group', Implies(Has(AllVals(C(g)), v), And(Has(K(g), r), Has(grp(g, r), v)))),
            ('itself_when_unknown', Implies(Not(Has(AllVals(C(g)), v)), r == v))]
spec(qual='GroupedList.get_group', params=[('self', GL), ('value', VAL)], returns=VAL,
     requires=lambda o: WF(o['self']), ensures=get_group_post)

# ------------------------------------------------------------------------------------------------ update(dict)
def update_post(o, n, r):
    g0, g1, nv = o['self'], n['self'], o['new_value']
    x = fv('x')
    return [('list_grows_only', lv.Prefix(L(g0), L(g1))),
            ('list_members', ForAll([x], Has(L(g1), x) == Or(Has(L(g0), x), DVL.has(nv, x)), patterns=[Has(L(g1), x)])),
            ('keys_members', ForAll([x], Has(K(g1), x) == Or(Has(K(g0), x), DVL.has(nv, x)), patterns=[Has(K(g1), x)])),
            ('groups', ForAll([x], grp(g1, x) == If(DVL.has(nv, x), DVL.get(nv, x), grp(g0, x)), patterns=[grp(g1, x)])),
            ('list_nodup', Nodup(L(g1))), ('keys_nodup', Nodup(K(g1)))]
spec(qual='GroupedList.update', params=[('self', GL), ('new_value', DVL)], modifies=['self'],
     requires=lambda o: And(WF(o['self']), Nodup(DVL.keys(o['new_value']))), ensures=update_post)

# ------------------------------------------------------------------------------------------------ group_list
# spec functions (recursive over the number n of processed elements of to_discard)
RmAllBut = Function('RmAllBut', LVAL.sort(), LVAL.sort(), IntSort(), Val, LVAL.sort())       # leaders left after n steps
MergedInto = Function('MergedInto', GL.sort(), LVAL.sort(), IntSort(), Val, LVAL.sort())      # members of `keep` after n steps
_s, _td = Consts('s_gl td_gl', LVAL.sort()); _g = Const('g_gl', GL.sort()); _nn = Int('n_gl'); _kp = Const('kp_gl', Val)
discharge.EXTRA_AXIOMS += [
    ForAll([_s, _td, _kp], RmAllBut(_s, _td, 0, _kp) == _s, patterns=[RmAllBut(_s, _td, 0, _kp)]),
    ForAll([_s, _td, _nn, _kp], Implies(And(0 <= _nn, _nn < Len(_td)), RmAllBut(_s, _td, _nn + 1, _kp) ==
           If(At(_td, _nn) == _kp, RmAllBut(_s, _td, _nn, _kp), Rm(RmAllBut(_s, _td, _nn, _kp), At(_td, _nn)))), patterns=[RmAllBut(_s, _td, _nn + 1, _kp)]),
    ForAll([_g, _td, _kp], MergedInto(_g, _td, 0, _kp) == grp(_g, _kp), patterns=[MergedInto(_g, _td, 0, _kp)]),
    ForAll([_g, _td, _nn, _kp], Implies(And(0 <= _nn, _nn < Len(_td)), MergedInto(_g, _td, _nn + 1, _kp) ==
           If(At(_td, _nn) == _kp, MergedInto(_g, _td, _nn, _kp), App(grp(_g, At(_td, _nn)), MergedInto(_g, _td, _nn, _kp)))), patterns=[MergedInto(_g, _td, _nn + 1, _kp)]),
]

def gl_state(g0, g, td, keep, n):
    """state of self after the first n elements of to_discard were grouped into keep"""
    x, j = fv('x'), Int('j!%d' % (_n[0] + 1))
    return And(
        WF(g),
        L(g) == RmAllBut(L(g0), td, n, keep),
        K(g) == RmAllBut(K(g0), td, n, keep),
        grp(g, keep) == MergedInto(g0, td, n, keep),
        Has(L(g), keep),
        # membership characterisations (what callers use; proved by the same induction)
        ForAll([x], Has(L(g), x) == And(Has(L(g0), x), Or(x == keep, Not(Has(lv.Take(td, n), x)))), patterns=[Has(L(g), x)]),
        ForAll([x], Implies(Has(grp(g0, keep), x), Has(grp(g, keep), x)), patterns=[Has(grp(g0, keep), x)]),
        ForAll([j, x], Implies(And(0 <= j, j < n, Has(grp(g0, At(td, j)), x)), Has(grp(g, keep), x)), patterns=[Has(grp(g0, At(td, j)), x)]),
        # leaders not yet processed are still leaders, with their original members
        ForAll([j], Implies(And(n <= j, j < Len(td)), And(Has(L(g), At(td, j)), Implies(At(td, j) != keep, grp(g, At(td, j)) == grp(g0, At(td, j))))), patterns=[At(td, j)]),
        ForAll([x], Implies(And(x != keep, Not(Has(td, x))), And(grp(g, x) == grp(g0, x), Has(L(g), x) == Has(L(g0), x))), patterns=[grp(g, x)]),
        same_members_except(g0, g), order_kept(g0, g))

def group_list_req(o):
    g, td, keep = o['self'], o['to_discard'], o['to_keep']; j = Int('jr')
    return And(WF(g), Has(L(g), keep), Nodup(td), ForAll([j], Implies(And(0 <= j, j < Len(td)), Has(L(g), At(td, j))), patterns=[At(td, j)]))

spec(qual='GroupedList.group_list', params=[('self', GL), ('to_discard', LVAL), ('to_keep', VAL)], modifies=['self'],
     requires=group_list_req,
     ensures=lambda o, n, r: [('state_after_all', gl_state(o['self'], n['self'], o['to_discard'], o['to_keep'], Len(o['to_discard'])))],
     loops={0: LoopSpec(inv=lambda o, v, k: gl_state(o['self'], v['self'], o['to_discard'], o['to_keep'], k))})

# ------------------------------------------------------------------------------------------------ constructors
def spec_ctor(name, **kw):
    s = FunctionSpec(qual='GroupedList.__init__', file=FILE, cls='GroupedList', name=name, constructs=GL, **kw); SPECS[name] = s; return s

# (a) from a duplicate-free list (precondition derived from the call sites: nan_unique(...), quantiles + [inf], [], known_values, labels)
spec_ctor('GroupedList.__init__@list', params=[('self', GL), ('iterable', LVAL)], modifies=['self'],
    requires=lambda o: Nodup(o['iterable']),
    ensures=lambda o, n, r: (lambda g, s: [
        ('list', L(g) == s), ('keys', K(g) == s),
        ('singleton_groups', (lambda v: ForAll([v], Implies(Has(s, v), grp(g, v) == One(v)), patterns=[grp(g, v)]))(fv('v'))),
        ('wf', WF(g))])(n['self'], o['iterable']))

# (b) copy of a GroupedList: equal view
spec_ctor('GroupedList.__init__@copy', params=[('self', GL), ('iterable', GL)], modifies=['self'],
    ensures=lambda o, n, r: [('equal_view', n['self'] == o['iterable']), ('wf_copied', Implies(WF(o['iterable']), WF(n['self'])))])

# (c) from a content dict
Grouped = Function('GroupedElsewhere', DVL.sort(), Val, BoolSort())      # key k occurs in the values of another key
G2 = Function('GroupedBy', DVL.sort(), Val, Val)
KeptKeys = Function('KeptKeys', DVL.sort(), IntSort(), LVAL.sort())
_it = Const('it_c', DVL.sort()); _k1, _k2 = Consts('k1_c k2_c', Val)
discharge.EXTRA_AXIOMS += [
    ForAll([_it, _k1], Implies(Grouped(_it, _k1), And(DVL.has(_it, G2(_it, _k1)), G2(_it, _k1) != _k1, Has(DVL.get(_it, G2(_it, _k1)), _k1))), patterns=[Grouped(_it, _k1)]),
    ForAll([_it, _k1, _k2], Implies(And(DVL.has(_it, _k2), _k2 != _k1, Has(DVL.get(_it, _k2), _k1)), Grouped(_it, _k1)), patterns=[MultiPattern(Has(DVL.get(_it, _k2), _k1), Grouped(_it, _k1))]),
    ForAll([_it], KeptKeys(_it, 0) == DVL.keys(_it), patterns=[KeptKeys(_it, 0)]),
    ForAll([_it, _nn], Implies(And(0 <= _nn, _nn < Len(DVL.keys(_it))), KeptKeys(_it, _nn + 1) ==
           If(Grouped(_it, At(DVL.keys(_it), _nn)), Rm(KeptKeys(_it, _nn), At(DVL.keys(_it), _nn)), KeptKeys(_it, _nn))), patterns=[KeptKeys(_it, _nn + 1)]),
]
def own_group(it, k): return If(Has(DVL.get(it, k), k), DVL.get(it, k), App(DVL.get(it, k), One(k)))
def ctor_dict_state(it, keysv, content, n):
    x, j = fv('x'), Int('j!%d' % (_n[0] + 1)); Kit = DVL.keys(it)
    j2 = Int('j2!%d' % (_n[0] + 1))
    return And(keysv == KeptKeys(it, n), DVL.keys(content) == keysv, Nodup(keysv),
               Implies(ForAll([j2], Implies(And(0 <= j2, j2 < n), Not(Grouped(it, At(Kit, j2)))), patterns=[At(Kit, j2)]), keysv == Kit),
               ForAll([x], Has(keysv, x) == And(Has(Kit, x), Or(Idx(Kit, x) >= n, Not(Grouped(it, x)))), patterns=[Has(keysv, x)]),
               ForAll([j], Implies(And(0 <= j, j < Len(Kit)), DVL.get(content, At(Kit, j)) == If(And(j < n, Not(Grouped(it, At(Kit, j)))), own_group(it, At(Kit, j)), DVL.get(it, At(Kit, j)))), patterns=[At(Kit, j)]))
def ctor_dict_post(o, n, r):
    g, it = n['self'], o['iterable']; Kit = DVL.keys(it); x = fv('x')
    j2 = Int('j2!%d' % (_n[0] + 1))
    return [('leaders_are_ungrouped_keys_in_order', L(g) == KeptKeys(it, Len(Kit))), ('keys', K(g) == L(g)),
            ('all_keys_kept_if_none_grouped', Implies(ForAll([j2], Implies(And(0 <= j2, j2 < Len(Kit)), Not(Grouped(it, At(Kit, j2)))), patterns=[At(Kit, j2)]), L(g) == Kit)),
            ('leader_iff', ForAll([x], Has(L(g), x) == And(Has(Kit, x), Not(Grouped(it, x))), patterns=[Has(L(g), x)])),
            ('groups', ForAll([x], Implies(Has(L(g), x), grp(g, x) == own_group(it, x)), patterns=[grp(g, x)])),
            ('wf', WF(g))]
spec_ctor('GroupedList.__init__@dict', params=[('self', GL), ('iterable', DVL)], modifies=['self'],
    requires=lambda o: Nodup(DVL.keys(o['iterable'])),
    raises={'AssertionError': lambda o: Not(Nodup(AllVals(o['iterable'])))},
    ensures=ctor_dict_post,
    loops={0: LoopSpec(inv=lambda o, v, k: ctor_dict_state(o['iterable'], v['keys'], C(v['self']), k))})

# ------------------------------------------------------------------------------------------------ sort_by / sort
def same_view_reordered(g0, r, leaders):
    x = fv('x')
    return [('leaders', L(r) == leaders), ('keys', K(r) == leaders),
            ('groups_kept', ForAll([x], Implies(Has(L(r), x), grp(r, x) == grp(g0, x)), patterns=[grp(r, x)])),
            ('wf', WF(r))]
def same_members(s, t):
    x = fv('x'); return ForAll([x], Has(s, x) == Has(t, x), patterns=[Has(s, x), Has(t, x)])
spec(qual='GroupedList.sort_by', params=[('self', GL), ('ordering', LVAL)], returns=GL,
     requires=lambda o: WF(o['self']),
     raises={'AssertionError': lambda o: Not(same_members(o['ordering'], L(o['self'])))},
     locals={'sorted_list': GL},
     ensures=lambda o, n, r: same_view_reordered(o['self'], r, Dedup(o['ordering'])))

# numpy.sort on a list of mutually comparable atoms: ASSUMED to return a permutation (the order itself is not used by any contract)
SPECS['sort'] = FunctionSpec(qual='sort', file=FILE, params=[('a', LVAL)], returns=LVAL, pure=True,
    ensures=lambda o, n, r: [('perm', lv.Perm(r, o['a']))], note='ASSUMED numpy.sort returns a permutation of its input')
def sort_post(o, n, r):
    g0 = o['self']; x = fv('x')
    return [('same_leaders', same_members(L(r), L(g0))), ('keys', K(r) == L(r)),
            ('groups_kept', ForAll([x], Implies(Has(L(r), x), grp(r, x) == grp(g0, x)), patterns=[grp(r, x)])), ('wf', WF(r))]
spec(qual='GroupedList.sort', params=[('self', GL)], returns=GL, requires=lambda o: WF(o['self']), ensures=sort_post)

# ------------------------------------------------------------------------------------------------ replace_group_leader
def rgl_post(o, n, r):
    g0, g1, ld, mb = o['self'], n['self'], o['group_leader'], o['group_member']
    return [('list', L(g1) == lv.Upd(L(g0), Idx(L(g0), ld), mb)),
            ('members_moved', grp(g1, mb) == grp(g0, ld)),
            ('frame_other_groups', frame_groups(g0, g1, [ld, mb])),
            ('no_value_lost', same_members_except(g0, g1)),
            ('wf', WF(g1))]
spec(qual='GroupedList.replace_group_leader', params=[('self', GL), ('group_leader', VAL), ('group_member', VAL)], modifies=['self'],
     requires=lambda o: And(WF(o['self']), Has(L(o['self']), o['group_leader'])),
     raises={'AssertionError': lambda o: Not(Has(grp(o['self'], o['group_leader']), o['group_member']))},
     ensures=rgl_post)
