"""Sidecar contracts (engine P) for the values <-> labels conversions of AutoCarver/discretizers/utils/base_discretizers.py  --  C03 / C04 / C07
(the carver works on LABELS of the base modalities and writes the chosen combination back on the raw VALUES through these functions).

  get_quantiles_labels   per quantitative feature the two tables quantile -> label and label -> quantile, inverse of each other on the non-missing leaders
  convert_to_labels      the label order of every feature: its non-missing leaders (their labels for a quantitative feature) in the same order, str_nan appended
                         iff dropna=False and the feature has it; values_orders is not modified

`get_labels` (numpy.isfinite + string formatting) is the ASSUMED contract of contracts.labels: one label per non-missing leader, pairwise distinct, none equal to
str_nan.  Precondition from the call sites (as in contracts.labels): orders are well-formed and str_nan, if a leader, is the LAST leader."""
from z3 import And, Or, Not, Implies, ForAll, Exists, If, BoolVal, Const, Int, MultiPattern
import copy as _copy
from pyvc.types import *
from pyvc.engine import FunctionSpec, LoopSpec
import contracts.grouped_list as G
import contracts.labels as LB
from contracts.grouped_list import GL, WF, L, K, grp, AllVals, C, Has, Nodup, Len, At, Idx
from contracts.labels import GetLabels, DVG, nan_last

FILE = 'AutoCarver/discretizers/utils/base_discretizers.py'
DVV = TDict(VAL, VAL); TAB = TDict(VAL, DVV); PAIR = TTuple([TAB, TAB])
lv = LVAL.th()

SPECS = {}
SPECS['get_labels'] = LB.SPECS['get_labels']
for k in ('GroupedList.__init__@list', 'GroupedList.append'):
    c = _copy.copy(G.SPECS[k]); c.pure = True; c.note = 'ASSUMED here, proved in contracts.grouped_list'; SPECS[k] = c


def orders_ok(features, vo, nan):
    f = Const('f_cv', Val)
    return And(Nodup(features), ForAll([f], Implies(Has(features, f), And(DVG.has(vo, f), WF(DVG.get(vo, f)), nan_last(DVG.get(vo, f), nan))), patterns=[Has(features, f)]))


def table_parts(vo, nan, f, q2l, l2q):
    """the two tables of feature f (as separate facts)"""
    g = DVG.get(vo, f); q = L(g); lab = GetLabels(q, nan); i = Int('i_tb'); n = Len(lab)
    x = Const('x_tb', Val)
    return [ForAll([x], DVV.has(q2l, x) == Has(lv.Take(q, n), x), patterns=[DVV.has(q2l, x)]),
            ForAll([x], DVV.has(l2q, x) == Has(lab, x), patterns=[DVV.has(l2q, x)]),
            ForAll([i], Implies(And(0 <= i, i < n), DVV.get(q2l, At(q, i)) == At(lab, i)), patterns=[At(q, i)]),
            ForAll([i], Implies(And(0 <= i, i < n), DVV.get(l2q, At(lab, i)) == At(q, i)), patterns=[At(lab, i)])]
def tables_of(vo, nan, f, q2l, l2q): return And(*table_parts(vo, nan, f, q2l, l2q))


def gql_inv(o, v, k):
    feats, vo, nan = o['features'], o['values_orders'], o['str_nan']; j = Int('j_gq'); a, b = v['quantiles_to_labels'], v['labels_to_quantiles']
    return And(TAB.keys(a) == lv.Take(feats, k), TAB.keys(b) == lv.Take(feats, k),
               *[ForAll([j], Implies(And(0 <= j, j < k), part), patterns=[At(feats, j)]) for part in table_parts(vo, nan, At(feats, j), TAB.get(a, At(feats, j)), TAB.get(b, At(feats, j)))])


def gql_post(o, n, r):
    feats, vo, nan = o['features'], o['values_orders'], o['str_nan']; f = Const('f_gp', Val); a, b = PAIR.proj(0, r), PAIR.proj(1, r)
    return [('one_table_per_feature', And(TAB.keys(a) == feats, TAB.keys(b) == feats)),
            ('tables_pair_each_non_missing_leader_with_its_label_both_ways', ForAll([f], Implies(Has(feats, f), tables_of(vo, nan, f, TAB.get(a, f), TAB.get(b, f))), patterns=[Has(feats, f)]))]


SPECS['get_quantiles_labels'] = FunctionSpec(qual='get_quantiles_labels', file=FILE, params=[('features', LVAL), ('values_orders', DVG), ('str_nan', VAL)], returns=PAIR,
    requires=lambda o: orders_ok(o['features'], o['values_orders'], o['str_nan']), ensures=gql_post,
    locals={'quantiles_to_labels': TAB, 'labels_to_quantiles': TAB, 'quantiles': LVAL, 'labels': LVAL},
    loops={0: LoopSpec(inv=gql_inv)})


# ------------------------------------------------------------------------------------------------ convert_to_labels
from pyvc.engine import Truthy
def base_list(vo, nan, f):
    q = L(DVG.get(vo, f)); return If(Has(q, nan), lv.Rm(q, nan), q)
def named(vo, nan, quant, f):
    """leaders of the label order of f before missing values are put back"""
    return If(Has(quant, f), GetLabels(L(DVG.get(vo, f)), nan), base_list(vo, nan, f))
def final_list(vo, nan, quant, dropna, f):
    return If(And(Not(dropna), Has(L(DVG.get(vo, f)), nan)), lv.App(named(vo, nan, quant, f), lv.One(nan)), named(vo, nan, quant, f))
def is_order(g, leaders):
    """g is the GroupedList made of `leaders`, each one alone in its group"""
    v = Const('v_io', Val)
    return And(lv.Ext(L(g), leaders), WF(g), ForAll([v], Implies(Has(leaders, v), grp(g, v) == lv.One(v)), patterns=[grp(g, v)]))

def ctl_req(o):
    f = Const('f_cr', Val); q = o['quantitative_features']
    return And(orders_ok(o['features'], o['values_orders'], o['str_nan']), Nodup(q),
               ForAll([f], Implies(Has(q, f), And(Has(o['features'], f), Truthy(f))), patterns=[Has(q, f)]))

def ctl_inv0(o, v, k):
    """first k quantitative features renamed"""
    feats, vo, nan, quant = o['features'], o['values_orders'], o['str_nan'], o['quantitative_features']; f = Const('f_c0', Val); lo_ = v['labels_orders']
    return And(DVG.keys(lo_) == feats,
               ForAll([f], Implies(Has(feats, f), is_order(DVG.get(lo_, f), If(Has(lv.Take(quant, k), f), named(vo, nan, quant, f), base_list(vo, nan, f)))), patterns=[Has(feats, f)]),
               tables_hold(o, v))
def tables_hold(o, v):
    vo, nan, quant = o['values_orders'], o['str_nan'], o['quantitative_features']; f = Const('f_th', Val); t = v['quantiles_labels']
    return ForAll([f], Implies(Has(quant, f), And(TAB.has(t, f), *table_parts(vo, nan, f, TAB.get(t, f), TAB.get(t, f))[0:1], table_parts(vo, nan, f, TAB.get(t, f), TAB.get(t, f))[2])), patterns=[Has(quant, f)])

def ctl_inv1(o, v, k):
    """missing-value marker appended to the first k features that have it"""
    feats, vo, nan, quant, dropna = o['features'], o['values_orders'], o['str_nan'], o['quantitative_features'], o['dropna']; j = Int('j_c1'); lo_ = v['labels_orders']
    return And(DVG.keys(lo_) == feats,
               ForAll([j], Implies(And(0 <= j, j < Len(feats)), is_order(DVG.get(lo_, At(feats, j)), If(j < k, final_list(vo, nan, quant, dropna, At(feats, j)), named(vo, nan, quant, At(feats, j))))), patterns=[At(feats, j)]))

def ctl_post(o, n, r):
    feats, vo, nan, quant, dropna = o['features'], o['values_orders'], o['str_nan'], o['quantitative_features'], o['dropna']; f = Const('f_cp', Val)
    return [('one_label_order_per_feature', DVG.keys(r) == feats),
            ('leaders_in_the_same_order_labels_for_quantitative_features_missing_marker_last_iff_kept',
             ForAll([f], Implies(Has(feats, f), is_order(DVG.get(r, f), final_list(vo, nan, quant, dropna, f))), patterns=[Has(feats, f)]))]

SPECS['get_quantiles_labels@assumed'] = None
_g = _copy.copy(SPECS['get_quantiles_labels']); del SPECS['get_quantiles_labels@assumed']
SPECS['convert_to_labels'] = FunctionSpec(qual='convert_to_labels', file=FILE,
    params=[('features', LVAL), ('quantitative_features', LVAL), ('values_orders', DVG), ('str_nan', VAL), ('dropna', BOOL)], defaults={'dropna': True}, returns=DVG,
    requires=ctl_req, ensures=ctl_post, locals={'labels_orders': DVG, 'quantiles_labels': TAB, '_': TAB, 'order': GL},
    loops={0: LoopSpec(inv=ctl_inv0), 1: LoopSpec(inv=ctl_inv1)})


# ------------------------------------------------------------------------------------------------ convert_to_values
from z3 import Function, BoolSort, IntSort
from pyvc import discharge
DVL = G.DVL
for k in ('GroupedList.group_list',):
    c = _copy.copy(G.SPECS[k]); c.pure = True; c.note = 'ASSUMED here, proved in contracts.grouped_list'; SPECS[k] = c
MaxOf = Function('MaxOf', LVAL.sort(), Val)
RawV = Function('RawV', LVAL.sort(), Val, BoolSort(), Val, Val)                               # raw value behind a label
RawList = Function('RawList', LVAL.sort(), Val, BoolSort(), LVAL.sort(), LVAL.sort())         # raw values of a list of labels (q: raw leaders of the feature at entry)
_q, _m = Const('q_rl', LVAL.sort()), Const('m_rl', LVAL.sort()); _nan = Const('nan_rl', Val); _b = Const('b_rl', BoolSort()); _i = Int('i_rl'); _d = Const('d_rl', Val)
discharge.EXTRA_AXIOMS += [
    # d itself for a qualitative feature; for a quantitative one the quantile whose label is d (the missing marker stands for itself)
    ForAll([_q, _nan, _b, _d], RawV(_q, _nan, _b, _d) == If(_b, If(_d == _nan, _nan, At(_q, Idx(GetLabels(_q, _nan), _d))), _d), patterns=[RawV(_q, _nan, _b, _d)]),
    ForAll([_q, _nan, _b, _m], Len(RawList(_q, _nan, _b, _m)) == Len(_m), patterns=[RawList(_q, _nan, _b, _m)]),
    ForAll([_q, _nan, _b, _m, _i], Implies(And(0 <= _i, _i < Len(_m)), At(RawList(_q, _nan, _b, _m), _i) == RawV(_q, _nan, _b, At(_m, _i))), patterns=[At(RawList(_q, _nan, _b, _m), _i)]),
    ForAll([_m], Implies(Len(_m) > 0, Has(_m, MaxOf(_m))), patterns=[MaxOf(_m)]),          # the ASSUMED contract of max(): an element of the list
]
SPECS['max'] = FunctionSpec(qual='max', file=FILE, params=[('values', LVAL)], returns=VAL, pure=True, requires=lambda o: Len(o['values']) > 0,
    ensures=lambda o, n, r: [('def', r == MaxOf(o['values'])), ('member', Has(o['values'], r))], note='ASSUMED builtin max over a non-empty list: one of its elements (the largest for the order of the values)')

def NoNan(s, nan): return If(Has(s, nan), lv.Rm(s, nan), s)
def is_label(q, nan, isq, x): return If(isq, Or(Has(GetLabels(q, nan), x), And(x == nan, Has(q, nan))), Has(q, x))

class Feat:
    """everything about one feature f: its raw order at entry g0, its label order LO, and the spec of the regrouping"""
    def __init__(s, o, f, parts=None):
        if parts is not None: s.nan, s.isq, s.g0, s.LO = parts                      # (explicit pieces: used by callers' contracts)
        else: s.nan = o['str_nan']; s.isq = Has(o['quantitative_features'], f); s.g0 = DVG.get(o['values_orders'], f); s.LO = DVG.get(o['label_orders'], f)
        s.q = L(s.g0); s.keys = K(s.LO)
    def members(s, j): return grp(s.LO, At(s.keys, j))
    def R(s, j): return RawList(s.q, s.nan, s.isq, s.members(j))
    def kept(s, j):
        w = NoNan(s.R(j), s.nan); return If(s.isq, If(Len(w) > 0, MaxOf(w), At(s.R(j), 0)), At(s.keys, j))
    def rng(s, j, i, a, b): return And(a <= j, j < b, 0 <= i, i < Len(s.members(j)))
    def state(s, cur, k):
        """cur = order of the feature after the first k label groups were written back on the raw values"""
        j, i = Int('j_st'), Int('i_st'); x = Const('x_st', Val); n = Len(s.keys)
        return [('wf', WF(cur)), ('no_value_lost', G.same_members_except(s.g0, cur)),
                ('leaders_only_removed', ForAll([x], Implies(Has(L(cur), x), Has(L(s.g0), x)), patterns=[Has(L(cur), x)])),
                ('remaining_leaders_keep_their_relative_order', G.order_kept(s.g0, cur)),
                ('done_groups_led_by_kept', ForAll([j], Implies(And(0 <= j, j < k), Has(L(cur), s.kept(j))), patterns=[At(s.keys, j)])),
                ('done_groups_hold_the_members_of_their_raw_values', ForAll([j, i, x], Implies(And(s.rng(j, i, 0, k), Has(grp(s.g0, At(s.R(j), i)), x)), Has(grp(cur, s.kept(j)), x)), patterns=[Has(grp(s.g0, At(s.R(j), i)), x)])),
                ('done_groups_other_raw_values_no_longer_lead', ForAll([j, i], Implies(And(s.rng(j, i, 0, k), At(s.R(j), i) != s.kept(j)), Not(Has(L(cur), At(s.R(j), i)))), patterns=[At(s.R(j), i)])),
                ('pending_groups_untouched', ForAll([j, i], Implies(s.rng(j, i, k, n), And(Has(L(cur), At(s.R(j), i)), grp(cur, At(s.R(j), i)) == grp(s.g0, At(s.R(j), i)))), patterns=[At(s.R(j), i), At(s.members(j), i)]))]
    def facts(s):
        """facts about the spec functions of this feature (ghost lemmas proved from the precondition)"""
        j, i, j2, i2 = Int('j_fa'), Int('i_fa'), Int('j_fb'), Int('i_fb'); n = Len(s.keys)
        return [('key_is_a_member_of_its_group', ForAll([j], Implies(And(0 <= j, j < n), And(Has(s.members(j), At(s.keys, j)), Len(s.R(j)) > 0)), patterns=[At(s.keys, j)])),
                ('raw_value_of_a_qualitative_label_is_the_label', Implies(Not(s.isq), ForAll([j, i], Implies(s.rng(j, i, 0, n), At(s.R(j), i) == At(s.members(j), i)), patterns=[At(s.R(j), i), At(s.members(j), i)]))),
                ('raw_values_are_leaders', ForAll([j, i], Implies(s.rng(j, i, 0, n), Has(s.q, At(s.R(j), i))), patterns=[At(s.R(j), i)])),
                ('raw_values_pairwise_distinct', ForAll([j, i, j2, i2], Implies(And(s.rng(j, i, 0, n), s.rng(j2, i2, 0, n), Or(j != j2, i != i2)), At(s.R(j), i) != At(s.R(j2), i2)),
                                                        patterns=[MultiPattern(At(s.R(j), i), At(s.R(j2), i2))])),
                ('kept_is_one_of_its_group', ForAll([j], Implies(And(0 <= j, j < n), Has(s.R(j), s.kept(j))), patterns=[At(s.keys, j)]))]

def ctv_req(o):
    f = Const('f_vr', Val); kk = Const('k_vr', Val); i = Int('i_vr'); q = o['quantitative_features']; feats = o['features']; vo, lo_, nan = o['values_orders'], o['label_orders'], o['str_nan']
    LOf = DVG.get(lo_, f)
    return And(orders_ok(feats, vo, nan), Nodup(q), ForAll([f], Implies(Has(q, f), And(Has(feats, f), Truthy(f))), patterns=[Has(q, f)]),
               ForAll([f], Implies(Has(feats, f), And(DVG.has(lo_, f), WF(DVG.get(lo_, f)))), patterns=[Has(feats, f)]),
               # every member of a label group is the label of a leader of the feature (label orders are made by convert_to_labels and regrouped)
               ForAll([f, kk, i], Implies(And(Has(feats, f), Has(K(LOf), kk), 0 <= i, i < Len(grp(LOf, kk))), is_label(L(DVG.get(vo, f)), nan, Has(q, f), At(grp(LOf, kk), i))), patterns=[MultiPattern(Has(feats, f), At(grp(LOf, kk), i))]))

def entry_lemmas(o):
    f = Const('f_el', Val); out = []
    for label, g in Feat(o, f).facts():
        out.append((label, ForAll([f], Implies(Has(o['features'], f), g), patterns=[Has(o['features'], f)])))
    return out

def converted(o, f, new_g):
    F_ = Feat(o, f); return And(*[g for _, g in F_.state(new_g, Len(F_.keys))])

def ctv_outer(o, v, k):
    feats = o['features']; vo0 = o['values_orders']; vo = v['values_orders']; j = Int('j_vo'); f = Const('f_vo', Val)
    return And(DVG.keys(vo) == DVG.keys(vo0),
               ForAll([j], Implies(And(0 <= j, j < k), converted(o, At(feats, j), DVG.get(vo, At(feats, j)))), patterns=[At(feats, j)]),
               ForAll([f], Implies(Not(Has(lv.Take(feats, k), f)), DVG.get(vo, f) == DVG.get(vo0, f)), patterns=[DVG.get(vo, f)]),
               l2q_hold(o, v))
def l2q_hold(o, v):
    vo, nan, quant = o['values_orders'], o['str_nan'], o['quantitative_features']; f = Const('f_lq', Val)
    if 'labels_to_quantiles' not in v: return BoolVal(True)
    t = v['labels_to_quantiles']; parts = lambda f: table_parts(vo, nan, f, TAB.get(t, f), TAB.get(t, f))
    return Implies(Len(quant) > 0, ForAll([f], Implies(Has(quant, f), And(TAB.has(t, f), parts(f)[1], parts(f)[3])), patterns=[Has(quant, f)]))

def ctv_inner(o, v, k):
    f = v['feature']; F_ = Feat(o, f); feats = o['features']; vo0 = o['values_orders']; vo = v['values_orders']; e = o['$entry']; g = Const('g_vi', Val)
    return And(Has(feats, f), v['order'] == DVG.get(vo, f), *[gl for _, gl in F_.state(DVG.get(vo, f), k)], DVG.keys(vo) == DVG.keys(vo0),
               ForAll([g], Implies(g != f, DVG.get(vo, g) == DVG.get(e['values_orders'], g)), patterns=[DVG.get(vo, g)]), l2q_hold(o, v))

def inner_body_lemmas(o, v, k):
    f = v['feature']; F_ = Feat(o, f); cur = DVG.get(v['values_orders'], f)
    return [('key_is_a_member_of_its_group', Has(F_.members(k), At(F_.keys, k))),
            ('kept_of_this_group_still_leads', Has(L(cur), F_.kept(k)))]

def ctv_post(o, n, r):
    feats = o['features']; f = Const('f_vp', Val); vo0 = o['values_orders']
    return [('same_features', DVG.keys(r) == DVG.keys(vo0)), ('result_is_the_updated_values_orders', r == n['values_orders']),
            ('every_label_group_written_back_on_the_raw_values', ForAll([f], Implies(Has(feats, f), converted(o, f, DVG.get(r, f))), patterns=[Has(feats, f)])),
            ('other_features_untouched', ForAll([f], Implies(Not(Has(feats, f)), DVG.get(r, f) == DVG.get(vo0, f)), patterns=[DVG.get(r, f)]))]

def gtd_lemmas(o, v):
    """right after  group_to_discard = [labels_to_quantiles[feature][l] if l != str_nan else str_nan for l in group_to_discard]  (quantitative branch)"""
    f = v['feature']; F_ = Feat(o, f); m = grp(F_.LO, v['kept_value'])
    return [('is_the_raw_list_of_the_label_group', lv.Ext(v['group_to_discard'], RawList(F_.q, F_.nan, BoolVal(True), m))), ('distinct', Nodup(v['group_to_discard']))]

SPECS['convert_to_values'] = FunctionSpec(qual='convert_to_values', file=FILE,
    params=[('features', LVAL), ('quantitative_features', LVAL), ('values_orders', DVG), ('label_orders', DVG), ('str_nan', VAL)], returns=DVG, modifies=['values_orders'],
    requires=ctv_req, ensures=ctv_post, locals={'labels_to_quantiles': TAB, '_': TAB, 'order': GL, 'group_to_discard': LVAL, 'which_to_keep': LVAL},
    lemmas={'group_to_discard': gtd_lemmas, '$entry': entry_lemmas}, loops={0: LoopSpec(inv=ctv_outer), 1: LoopSpec(inv=ctv_inner, body_lemmas=inner_body_lemmas)})


# ------------------------------------------------------------------------------------------------ BaseCarver._update_orders  (AutoCarver/carvers/base_carver.py)
# the chosen combination (a GroupedList over the LABELS of one feature) is written on the raw values, then every label order is recomputed
BCU = TObj('BaseCarverU', [('features', LVAL), ('quantitative_features', LVAL), ('values_orders', DVG), ('str_nan', VAL)])
def FU(o, n): return BCU.get(o, n)
CSPECS = {}
for k in ('convert_to_values', 'convert_to_labels'):
    c = _copy.copy(SPECS[k]); c.pure = True; c.note = 'ASSUMED here, proved above (contracts.conversion)'; CSPECS[k] = c

def uo_req(o):
    s = o['self']; f = o['feature']; g = Const('g_ur', Val); q = FU(s, 'quantitative_features'); feats = FU(s, 'features'); vo = FU(s, 'values_orders'); nan = FU(s, 'str_nan'); no = o['new_order']
    kk = Const('k_ur', Val); i = Int('i_ur')
    return And(orders_ok(feats, vo, nan), Nodup(q), ForAll([g], Implies(Has(q, g), And(Has(feats, g), Truthy(g))), patterns=[Has(q, g)]), Has(feats, f), WF(no),
               ForAll([kk, i], Implies(And(Has(K(no), kk), 0 <= i, i < Len(grp(no, kk))), is_label(L(DVG.get(vo, f)), nan, Has(q, f), At(grp(no, kk), i))), patterns=[At(grp(no, kk), i)]))

def uo_post(o, n, r):
    s0, s1 = o['self'], n['self']; f = o['feature']; g = Const('g_up', Val); nan = FU(s0, 'str_nan'); q = FU(s0, 'quantitative_features'); feats = FU(s0, 'features')
    vo0, vo1 = FU(s0, 'values_orders'), FU(s1, 'values_orders')
    F_ = Feat(None, f, parts=(nan, Has(q, f), DVG.get(vo0, f), o['new_order']))
    return [('only_values_orders_written', And(FU(s1, 'features') == feats, FU(s1, 'quantitative_features') == q, FU(s1, 'str_nan') == nan, DVG.keys(vo1) == DVG.keys(vo0))),
            ('the_chosen_grouping_of_labels_is_written_on_the_raw_values', And(*[x for _, x in F_.state(DVG.get(vo1, f), Len(F_.keys))])),
            ('other_features_untouched', ForAll([g], Implies(g != f, DVG.get(vo1, g) == DVG.get(vo0, g)), patterns=[DVG.get(vo1, g)])),
            ('label_orders_recomputed_from_the_new_values_orders', And(DVG.keys(r) == feats, ForAll([g], Implies(Has(feats, g), is_order(DVG.get(r, g), final_list(vo1, nan, q, BoolVal(False), g))), patterns=[Has(feats, g)])))]

CSPECS['BaseCarver._update_orders'] = FunctionSpec(qual='BaseCarver._update_orders', file='AutoCarver/carvers/base_carver.py', cls='BaseCarverU',
    params=[('self', BCU), ('feature', VAL), ('new_order', GL), ('labels_orders', DVG)], returns=DVG, modifies=['self', 'labels_orders'], requires=uo_req, ensures=uo_post)
