"""Sidecar contracts (engine P) for the values <-> labels conversions of AutoCarver/discretizers/utils/base_discretizers.py  --  C03 / C04 / C07
(the carver works on LABELS of the base modalities and writes the chosen combination back on the raw VALUES through these functions).

  get_quantiles_labels   per quantitative feature the two tables quantile -> label and label -> quantile, inverse of each other on the non-missing leaders
  convert_to_labels      the label order of every feature: its non-missing leaders (their labels for a quantitative feature) in the same order, str_nan appended
                         iff dropna=False and the feature has it; values_orders is not modified

`get_labels` (numpy.isfinite + string formatting) is the ASSUMED contract of contracts.labels: one label per non-missing leader, pairwise distinct, none equal to
str_nan.  Precondition from the call sites (as in contracts.labels): orders are well-formed and str_nan, if a leader, is the LAST leader."""
from z3 import And, Or, Not, Implies, ForAll, Exists, If, BoolVal, Const, Int, MultiPattern
import copy as _copy
from pyvc.types import *
from pyvc.engine import FunctionSpec, LoopSpec
import contracts.grouped_list as G
import contracts.labels as LB
from contracts.grouped_list import GL, WF, L, K, grp, AllVals, C, Has, Nodup, Len, At, Idx
from contracts.labels import GetLabels, DVG, nan_last

FILE = 'AutoCarver/discretizers/utils/base_discretizers.py'
DVV = TDict(VAL, VAL); TAB = TDict(VAL, DVV); PAIR = TTuple([TAB, TAB])
lv = LVAL.th()

SPECS = {}
SPECS['get_labels'] = LB.SPECS['get_labels']
for k in ('GroupedList.__init__@list', 'GroupedList.append'):
    c = _copy.copy(G.SPECS[k]); c.pure = True; c.note = 'ASSUMED here, proved in contracts.grouped_list'; SPECS[k] = c


def orders_ok(features, vo, nan):
    f = Const('f_cv', Val)
    return And(Nodup(features), ForAll([f], Implies(Has(features, f), And(DVG.has(vo, f), WF(DVG.get(vo, f)), nan_last(DVG.get(vo, f), nan))), patterns=[Has(features, f)]))


def table_parts(vo, nan, f, q2l, l2q):
    """the two tables of feature f (as separate facts)"""
    g = DVG.get(vo, f); q = L(g); lab = GetLabels(q, nan); i = Int('i_tb'); n = Len(lab)
    x = Const('x_tb', Val)
    return [ForAll([x], DVV.has(q2l, x) == Has(lv.Take(q, n), x), patterns=[DVV.has(q2l, x)]),
            ForAll([x], DVV.has(l2q, x) == Has(lab, x), patterns=[DVV.has(l2q, x)]),
            ForAll([i], Implies(And(0 <= i, i < n), DVV.get(q2l, At(q, i)) == At(lab, i)), patterns=[At(q, i)]),
            ForAll([i], Implies(And(0 <= i, i < n), DVV.get(l2q, At(lab, i)) == At(q, i)), patterns=[At(lab, i)])]
def tables_of(vo, nan, f, q2l, l2q): return And(*table_parts(vo, nan, f, q2l, l2q))


def gql_inv(o, v, k):
    feats, vo, nan = o['features'], o['values_orders'], o['str_nan']; j = Int('j_gq'); a, b = v['quantiles_to_labels'], v['labels_to_quantiles']
    return And(TAB.keys(a) == lv.Take(feats, k), TAB.keys(b) == lv.Take(feats, k),
               *[ForAll([j], Implies(And(0 <= j, j < k), part), patterns=[At(feats, j)]) for part in table_parts(vo, nan, At(feats, j), TAB.get(a, At(feats, j)), TAB.get(b, At(feats, j)))])


def gql_post(o, n, r):
    feats, vo, nan = o['features'], o['values_orders'], o['str_nan']; f = Const('f_gp', Val); a, b = PAIR.proj(0, r), PAIR.proj(1, r)
    return [('one_table_per_feature', And(TAB.keys(a) == feats, TAB.keys(b) == feats)),
            ('tables_pair_each_non_missing_leader_with_its_label_both_ways', ForAll([f], Implies(Has(feats, f), tables_of(vo, nan, f, TAB.get(a, f), TAB.get(b, f))), patterns=[Has(feats, f)]))]


SPECS['get_quantiles_labels'] = FunctionSpec(qual='get_quantiles_labels', file=FILE, params=[('features', LVAL), ('values_orders', DVG), ('str_nan', VAL)], returns=PAIR,
    requires=lambda o: orders_ok(o['features'], o['values_orders'], o['str_nan']), ensures=gql_post,
    locals={'quantiles_to_labels': TAB, 'labels_to_quantiles': TAB, 'quantiles': LVAL, 'labels': LVAL},
    loops={0: LoopSpec(inv=gql_inv)})
