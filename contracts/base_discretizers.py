"""Sidecar contracts (engine P) for AutoCarver/discretizers/utils/base_discretizers.py and the _remove_feature overrides  --  C08 (coherence of the
per-feature attributes), C04, C17.

Class invariant COH(self) (the coherence C08 is about): `features`, the dtype lists and the key sequences of the per-feature dicts are duplicate-free;
every per-feature attribute only mentions kept features; the lists of `features_casting` are duplicate-free, pairwise disjoint, only hold kept features
and every kept feature sits in one of them."""
from z3 import And, Or, Not, Implies, ForAll, Exists, If, BoolVal, Const, Consts, Select, Function, IntSort, BoolSort, Int, MultiPattern
from pyvc.types import *
from pyvc.engine import FunctionSpec, LoopSpec

FILE = 'AutoCarver/discretizers/utils/base_discretizers.py'
DVA = TDict(VAL, ANY); DVL = TDict(VAL, LVAL); DVB = TDict(VAL, BOOL)
BD = TObj('BaseDiscretizer', [('features', LVAL), ('qualitative_features', LVAL), ('quantitative_features', LVAL), ('ordinal_features', LVAL), ('non_ordinal_features', LVAL),
                              ('values_orders', DVA), ('input_dtypes', DVA), ('labels_per_values', DVA), ('features_dropna', DVA), ('features_casting', DVL), ('_history', TDict(VAL, TList(ANY)))])
lv = LVAL.th(); Has, Nodup, Len, At, Rm = lv.Has, lv.Nodup, lv.Len, lv.At, lv.Rm
LISTS = ['features', 'qualitative_features', 'quantitative_features', 'ordinal_features', 'non_ordinal_features']
DICTS = ['values_orders', 'input_dtypes', 'labels_per_values', 'features_dropna']
_n = [0]
def fv(name='v'):
    _n[0] += 1; return Const('%s!bd%d' % (name, _n[0]), Val)
def F(o, name): return BD.get(o, name)
def keys(o, name): return BD.ftype(name).keys(F(o, name))
def cast(o, raw): return DVL.get(F(o, 'features_casting'), raw)
OwnerCast = Function('OwnerCasting', BD.sort(), Val, Val)


def SUB(o, name):
    f = fv('f'); return And(Nodup(F(o, name)), ForAll([f], Implies(Has(F(o, name), f), Has(F(o, 'features'), f)), patterns=[Has(F(o, name), f)]))


def COH(o): return And(CORE(o), SUB(o, 'ordinal_features'), SUB(o, 'non_ordinal_features'))


def CORE(o):
    f, a, b = fv('f'), fv('a'), fv('b'); fc = F(o, 'features_casting'); feats = F(o, 'features')
    parts = [Nodup(F(o, n)) for n in LISTS[:3]] + [Nodup(keys(o, d)) for d in DICTS] + [Nodup(DVL.keys(fc))]
    parts += [ForAll([f], Implies(Has(F(o, n), f), Has(feats, f)), patterns=[Has(F(o, n), f)]) for n in LISTS[1:3]]
    parts += [ForAll([f], Implies(Has(keys(o, d), f), Has(feats, f)), patterns=[Has(keys(o, d), f)]) for d in DICTS]
    parts += [
        ForAll([a, f], Implies(And(DVL.has(fc, a), Has(cast(o, a), f)), Has(feats, f)), patterns=[Has(cast(o, a), f)]),
        ForAll([f], Implies(Has(feats, f), Exists([b], And(DVL.has(fc, b), Has(cast(o, b), f)))), patterns=[Has(feats, f)]),
        ForAll([a], Implies(DVL.has(fc, a), Nodup(cast(o, a))), patterns=[cast(o, a)]),
        ForAll([a, b, f], Implies(And(DVL.has(fc, a), DVL.has(fc, b), a != b, Has(cast(o, a), f)), Not(Has(cast(o, b), f))), patterns=[MultiPattern(Has(cast(o, a), f), Has(cast(o, b), f))]),
        ForAll([a], Implies(DVL.has(fc, a), Len(cast(o, a)) >= 1), patterns=[cast(o, a)]),
    ]
    return And(*parts)


def removed_post(o, n, r, lists=LISTS, extra=None):
    s0, s1, ft = o['self'], n['self'], o['feature']; g, a = fv('g'), fv('a')
    fc1 = F(s1, 'features_casting'); fc0 = F(s0, 'features_casting')
    out = [
        ('absent_from_every_feature_list', And(*[Not(Has(F(s1, nme), ft)) for nme in lists])),
        ('absent_from_every_per_feature_dict', And(*[Not(Has(keys(s1, d), ft)) for d in DICTS])),
        ('absent_from_every_casting_list', ForAll([a], Implies(DVL.has(fc1, a), Not(Has(cast(s1, a), ft))), patterns=[cast(s1, a)])),
        ('other_features_kept', ForAll([g], Implies(g != ft, And(*([Has(F(s1, nme), g) == Has(F(s0, nme), g) for nme in lists] + [Has(keys(s1, d), g) == Has(keys(s0, d), g) for d in DICTS]))), patterns=[Has(F(s1, 'features'), g)])),
        ('entries_of_other_features_unchanged', And(*[BD.ftype(d).map(F(s1, d)) == BD.ftype(d).map(F(s0, d)) for d in DICTS])),
        ('other_castings_unchanged', ForAll([a, g], Implies(And(DVL.has(fc0, a), g != ft), Implies(Has(cast(s0, a), g), And(DVL.has(fc1, a), Has(cast(s1, a), g)))), patterns=[Has(cast(s0, a), g)])),
        ('order_of_features_kept', F(s1, 'features') == If(Has(F(s0, 'features'), ft), Rm(F(s0, 'features'), ft), F(s0, 'features'))),
    ]
    return out + (extra(o, n) if extra else [])

SPECS = {}
SPECS['BaseDiscretizer._remove_feature'] = FunctionSpec(qual='BaseDiscretizer._remove_feature', file=FILE, cls='BaseDiscretizer', params=[('self', BD), ('feature', VAL)], modifies=['self'],
    requires=lambda o: COH(o['self']), ensures=lambda o, n, r: removed_post(o, n, r, lists=LISTS[:3]) + [('frame_untouched_fields', And(*[F(n['self'], x) == F(o['self'], x) for x in ('ordinal_features', 'non_ordinal_features', '_history')])), ('noop_when_not_a_feature', Implies(Not(Has(F(o['self'], 'features'), o['feature'])), n['self'] == o['self'])), ('core_coherence_preserved', CORE(n['self']))])

import copy as _copy
_sup = _copy.copy(SPECS['BaseDiscretizer._remove_feature']); _sup.name = 'super._remove_feature'
SPECS['super._remove_feature'] = _sup; _sup.pure = True; _sup.note = 'ASSUMED here, proved as BaseDiscretizer._remove_feature'       # not re-verified under the alias

def _override(qual, file, lists, hist=False):
    def ens(o, n, r):
        out = removed_post(o, n, r, lists=lists)
        s0, s1, ft = o['self'], n['self'], o['feature']
        out.append(('coherence_preserved', Implies(And(*[Not(Has(F(s0, l), ft)) for l in LISTS if l not in lists]), COH(s1))))
        out.append(('noop_when_not_a_feature', Implies(Not(Has(F(s0, 'features'), ft)), s1 == s0)))
        return out
    SPECS[qual] = FunctionSpec(qual=qual, file=file, cls=qual.split('.')[0], params=[('self', BD), ('feature', VAL)], modifies=['self'], requires=lambda o: COH(o['self']), ensures=ens)
_override('Discretizer._remove_feature', 'AutoCarver/discretizers/discretizers.py', LISTS[:4])
_override('QualitativeDiscretizer._remove_feature', 'AutoCarver/discretizers/discretizers.py', LISTS)
_override('BaseCarver._remove_feature', 'AutoCarver/carvers/base_carver.py', LISTS[:4], hist=True)
